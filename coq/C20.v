(* C20 — Hijacked watch relays everything, survives error events, shuts down cleanly.
   Statements only; every proof is `exact <lemma>` into WatchProofs.v.  Model: Watch.v
   (client/apis/apps/v1/helper/hijack.go: hijackWatch, newHijackWatch, Stop, receive, ResultChan, as of
   commit 7226928; [step_old]/[run_old] = the relay before that commit).

   LABEL: PARTIAL.  Proved here, for ALL event sequences, ALL payload kinds, both source kinds (any
   channel capacity) and ALL interleavings of source offer / hand-over / close, relay steps, consumer
   receive and consumer Stop (induction over runs of the transition system, no bound): the statements
   below ABOUT THE MODEL.  Modelled, not verified: the Go scheduler, the channel implementation
   (rendezvous, buffering, close, select), sync.Mutex, defer order and utilruntime.HandleCrash — they are
   the rules of Watch.v, written from the Go specification.  The model cannot exhibit runtime-level leaks
   other than the relay goroutine parked at one of its program points.  The tie to the real code is the
   differential run of props/c20.py (real hijackWatch under real goroutines versus [drive], which
   [C20_driver_visits_reachable_states] shows to visit only states of this transition system). *)
From ASTS Require Import Base Watch WatchProofs.

Local Open Scope nat_scope.

(* (i) safety.  In every reachable state the consumer has received, in order, exactly the converted
   images of the events handed to the relay so far, except possibly the last one (in flight or, after
   Stop, dropped); nothing is in flight when the relay waits for the source. *)
Theorem C20_received_is_converted_prefix : forall c rc l s,
  run l (init c rc) = Some s ->
  exists rest, map convert (handed s) = received s ++ rest /\ length rest <= 1 /\ (pc s = Recv -> rest = []).
Proof. exact (relay_prefix Repaired). Qed.
Print Assumptions C20_received_is_converted_prefix.

(* the same, element by element: same event type, converted payload (Status payloads are unchanged:
   C20_ex_convert) *)
Theorem C20_same_types_converted_payloads : forall c rc l s,
  run l (init c rc) = Some s ->
  length (received s) <= length (handed s) <= S (length (received s))
  /\ Forall2 (fun r h => ev_type r = ev_type h /\ ev_payload r = convert_payload (ev_payload h))
             (received s) (firstn (length (received s)) (handed s)).
Proof. exact (relay_elementwise Repaired). Qed.
Print Assumptions C20_same_types_converted_payloads.

(* what the relay is handed is what the source offered, in order, nothing invented; nothing is lost on
   the source side while the source is open *)
Theorem C20_handed_are_the_offered_events : forall c rc l s,
  run l (init c rc) = Some s ->
  exists rest, offers_of l = handed s ++ src_q s ++ rest /\ (src_closed s = false -> rest = []).
Proof. exact (handed_from_offers Repaired). Qed.
Print Assumptions C20_handed_are_the_offered_events.

(* a consumer that receives gets the event the relay holds: no event is stuck *)
Theorem C20_delivery_always_possible : forall c rc l s e,
  run l (init c rc) = Some s -> pc s = Send e ->
  exists s', step s consumer_recv = Some s' /\ received s' = received s ++ [e] /\ pc s' = Recv.
Proof. exact delivery_enabled. Qed.
Print Assumptions C20_delivery_always_possible.

(* (ii) no crash, for every payload kind that encoding/json can marshal (Error events carrying a Status,
   nil objects, foreign objects included), whatever ReallyCrash is: neither a panic inside the relay nor
   a close of a closed channel (done in Stop, result in the deferred close) is reachable. *)
Theorem C20_no_crash : forall c rc l s,
  forallb label_good l = true -> run l (init c rc) = Some s -> pc s <> Crashed /\ pc s <> Panicking.
Proof. exact no_crash. Qed.
Print Assumptions C20_no_crash.

(* channel discipline behind it: done is closed exactly when stopped is set, Stop has then stopped the
   source, the result channel is closed exactly when the relay has returned (so the relay never sends on
   a closed channel), a closed source holds no blocked sender *)
Theorem C20_channel_discipline : forall c rc l s,
  run l (init c rc) = Some s ->
  done_closed s = stopped s
  /\ (stopped s = true -> src_closed s = true)
  /\ (result_closed s = true <-> pc s = Done)
  /\ (src_closed s = true -> length (src_q s) <= cap s).
Proof. exact channel_discipline. Qed.
Print Assumptions C20_channel_discipline.

(* (iii) clean shutdown after Stop.  From every reachable state in which Stop has been called, along
   EVERY continuation l2 (any labels: repeated Stop, source activity, even further receives) the relay
   makes at most [measure s] = 4*|queue| + weight(pc) <= 4*cap + 5 steps, and whenever the continuation
   ends with no relay-only step enabled — i.e. every maximal run of relay steps — the relay goroutine
   has returned and the result channel is closed. *)
Theorem C20_clean_shutdown_after_stop : forall c rc l s l2 s2,
  forallb label_good (l ++ l2) = true ->
  run l (init c rc) = Some s -> stopped s = true -> run l2 s = Some s2 ->
  count_labels progress l2 <= measure s
  /\ ((forall a, relay_only a = true -> step s2 a = None) -> finished s2).
Proof. exact clean_shutdown_after_stop. Qed.
Print Assumptions C20_clean_shutdown_after_stop.

(* the same without the payload hypothesis: the only other outcome is the process crash of (ii) *)
Theorem C20_clean_shutdown_after_stop_any_payload : forall c rc l s l2 s2,
  run l (init c rc) = Some s -> stopped s = true -> run l2 s = Some s2 ->
  count_labels progress l2 <= measure s
  /\ ((forall a, relay_only a = true -> step s2 a = None) -> finished s2 \/ pc s2 = Crashed).
Proof. exact shutdown_after_stop. Qed.
Print Assumptions C20_clean_shutdown_after_stop_any_payload.

(* such a maximal relay-only run exists and is short *)
Theorem C20_shutdown_run_exists : forall c rc l s,
  run l (init c rc) = Some s -> stopped s = true ->
  exists l2 s2, forallb relay_only l2 = true /\ length l2 <= measure s /\ run l2 s = Some s2
                /\ (finished s2 \/ pc s2 = Crashed).
Proof. exact shutdown_exists. Qed.
Print Assumptions C20_shutdown_run_exists.

(* (iii) clean shutdown after the source ended (closed, by itself or by Stop): along every continuation
   the relay and the deliveries together make at most [measure s] steps, and when neither a relay step
   nor a delivery is possible any more (the consumer has drained the watch) the relay has returned and
   the result channel is closed.  Without Stop a consumer that stops receiving keeps the relay parked
   on the undelivered event: that is the consumer's obligation, C20_ex_parked_until_consumed. *)
Theorem C20_clean_shutdown_after_source_end : forall c rc l s l2 s2,
  forallb label_good (l ++ l2) = true ->
  run l (init c rc) = Some s -> src_closed s = true -> run l2 s = Some s2 ->
  count_labels progress l2 <= measure s
  /\ ((forall a, progress a = true -> step s2 a = None) -> finished s2).
Proof. exact clean_shutdown_after_source_end. Qed.
Print Assumptions C20_clean_shutdown_after_source_end.

(* the decreasing measure itself, for both variants of the relay *)
Theorem C20_measure_decreases : forall v s a s',
  progress a = true -> step_gen v s a = Some s' -> measure s' < measure s.
Proof. exact progress_decreases. Qed.
Print Assumptions C20_measure_decreases.

(* (iv) Stop never blocks, never crashes, does not touch the relay's program point or what was received,
   and a second Stop changes nothing but the call counter (no second close of done, no second
   source.Stop() effect) *)
Theorem C20_stop_enabled : forall c rc l s,
  run l (init c rc) = Some s -> pc s <> Crashed ->
  exists s1, step s consumer_stop = Some s1 /\ pc s1 = pc s /\ stopped s1 = true /\ done_closed s1 = true
             /\ result_closed s1 = result_closed s /\ received s1 = received s.
Proof. exact stop_enabled_reach. Qed.
Print Assumptions C20_stop_enabled.

Theorem C20_stop_idempotent : forall c rc l s s1,
  run l (init c rc) = Some s -> step s consumer_stop = Some s1 ->
  step s1 consumer_stop = Some (bump_stop s1).
Proof. exact stop_idempotent_reach. Qed.
Print Assumptions C20_stop_idempotent.

(* the sequential driver used by the correspondence run only visits states of the transition system,
   so everything above applies to the states that are compared with the real code *)
Theorem C20_driver_visits_reachable_states : forall v ops s,
  exists l, run_gen v l s = Some (snd (drive v s ops)).
Proof. exact drive_run. Qed.
Print Assumptions C20_driver_visits_reachable_states.

(* (v) the relay as it was before commit 7226928 violates (ii) and (iii): an Error event with a Status
   payload (a marshalable payload) crashes the process ... *)
Theorem C20_old_relay_error_event_crash_refuted :
  exists l s, run_old l (init 0 true) = Some s /\ pc s = Crashed /\ forallb label_good l = true.
Proof. exact old_crash_reachable. Qed.
Print Assumptions C20_old_relay_error_event_crash_refuted.

(* ... and after Stop, with a consumer that no longer receives, no continuation whatsoever (further
   Stops included) lets the relay return or closes the result channel: the goroutine is parked for ever *)
Theorem C20_old_relay_stop_leak_refuted :
  exists l s, run_old l (init 0 true) = Some s /\ stopped s = true /\ result_closed s = false /\
    forall l2 s2, ~ In consumer_recv l2 -> run_old l2 s = Some s2 ->
                  pc s2 <> Done /\ result_closed s2 = false /\ relay_alive s2 = true.
Proof. exact old_stop_leak. Qed.
Print Assumptions C20_old_relay_stop_leak_refuted.

(* residual, CURRENT code: the hypothesis of (ii) is needed.  An Advanced StatefulSet on which json.Marshal
   fails (only constructible in memory, e.g. an IntOrString with an impossible Type; no decoder produces
   it) makes ToBuiltinStatefulSet fail, the relay panics and HandleCrash re-panics. *)
Theorem C20_no_crash_any_payload_refuted :
  exists l s, run l (init 0 true) = Some s /\ pc s = Crashed.
Proof. exact unmarshalable_crash_reachable. Qed.
Print Assumptions C20_no_crash_any_payload_refuted.

(* ---------- non-vacuity: concrete schedules ---------------------------------------------------- *)
Definition ex_a : event := Ev Added (PAsts 1).
Definition ex_e : event := Ev Error (PStatus 2).
Definition ex_b : event := Ev Bookmark (PAsts 3).

Example C20_ex_convert :
  convert ex_a = Ev Added (PBuiltin 1) /\ convert ex_e = ex_e /\ convert (Ev Deleted (POther 4)) = Ev Deleted (POther 4).
Proof. repeat split. Qed.

(* an Added event and an Error event relayed in order; then Stop while idle; the relay returns *)
Example C20_ex_relay_and_stop :
  exists s, run [source_offer ex_a; source_send ex_a; source_offer ex_e; relay_convert; consumer_recv;
                 source_send ex_e; relay_convert; consumer_recv; consumer_stop; consumer_stop;
                 relay_recv_done; relay_exit_stop; relay_exit_close; consumer_recv_eof] (init 0 true) = Some s
            /\ received s = [Ev Added (PBuiltin 1); ex_e] /\ finished s /\ stop_calls s = 2
            /\ forallb label_good [source_offer ex_a; source_offer ex_e] = true.
Proof. eexists. split; [vm_compute; reflexivity|]. repeat split. Qed.

(* Stop while the relay is blocked on the result channel with an undelivered event (the state the
   pre-repair relay never leaves): hypotheses of C20_clean_shutdown_after_stop hold, and the relay
   leaves through the done case *)
Example C20_ex_stop_while_sending :
  exists s s2, run [source_offer ex_a; source_send ex_a; relay_convert; consumer_stop] (init 0 true) = Some s
            /\ stopped s = true /\ pc s = Send (Ev Added (PBuiltin 1)) /\ measure s = 4
            /\ run [relay_send_done; consumer_stop; relay_exit_stop; relay_exit_close] s = Some s2
            /\ finished s2 /\ received s2 = [] /\ (forall a, relay_only a = true -> step s2 a = None).
Proof.
  eexists. eexists. split; [vm_compute; reflexivity|]. split; [reflexivity|]. split; [reflexivity|].
  split; [reflexivity|]. split; [vm_compute; reflexivity|]. split; [split; reflexivity|]. split; [reflexivity|].
  intros a Ha. destruct a; try discriminate Ha; reflexivity.
Qed.

(* buffered source (race-free fake): three events buffered, the source ends, the consumer drains *)
Example C20_ex_buffered_source_end :
  exists s, run [source_offer ex_a; source_offer ex_e; source_offer ex_b; source_close;
                 source_send ex_a; relay_convert; consumer_recv; source_send ex_e; relay_convert; consumer_recv;
                 source_send ex_b; relay_convert; consumer_recv; relay_recv_eof; relay_exit_stop; relay_exit_close]
                (init 100 true) = Some s
            /\ received s = [Ev Added (PBuiltin 1); ex_e; Ev Bookmark (PBuiltin 3)] /\ finished s /\ stop_calls s = 0.
Proof. eexists. split; [vm_compute; reflexivity|]. repeat split. Qed.

(* without Stop, a source that ended and a consumer that does not receive: the relay stays parked on the
   undelivered event (alive, channel open) until the consumer takes it *)
Example C20_ex_parked_until_consumed :
  exists s, run [source_offer ex_a; source_send ex_a; relay_convert; source_close] (init 0 true) = Some s
            /\ src_closed s = true /\ stopped s = false /\ relay_next Repaired s = None /\ relay_alive s = true
            /\ exists s2, run [consumer_recv; relay_recv_eof; relay_exit_stop; relay_exit_close] s = Some s2 /\ finished s2.
Proof.
  eexists. split; [vm_compute; reflexivity|]. repeat split.
  eexists. split; [vm_compute; reflexivity|]. split; reflexivity.
Qed.

(* a sender blocked on the unbuffered source when the watch is stopped is not handed over *)
Example C20_ex_blocked_sender_dropped :
  exists s, run [source_offer ex_a; source_send ex_a; relay_convert; source_offer ex_e; consumer_stop] (init 0 true) = Some s
            /\ src_q s = [] /\ handed s = [ex_a] /\ offered s = [ex_a; ex_e].
Proof. eexists. split; [vm_compute; reflexivity|]. repeat split. Qed.

(* the sequential driver on a schedule of the harness: send, send (blocks), recv, recv, stop, stop, recv *)
Example C20_ex_driver :
  fst (drive Repaired (init 0 false) [XSend ex_a; XSend ex_e; XRecv; XRecv; XRecv; XStop; XStop; XRecv])
  = [OCompleted; OBlocked; OEvent (Ev Added (PBuiltin 1)); OEvent ex_e; OBlocked; OCompleted; OCompleted; OClosed].
Proof. vm_compute. reflexivity. Qed.

(* the pre-repair relay on the same driver: Stop with an undelivered event leaves the relay alive *)
Example C20_ex_driver_old :
  let '(os, s) := drive PreRepair (init 0 false) [XSend ex_a; XStop] in
  relay_alive s = true /\ result_closed s = false /\ os = [OCompleted; OCompleted].
Proof. vm_compute. repeat split. Qed.
