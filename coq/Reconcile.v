(* Reconcile.v — executable model of one reconcile of a StatefulSet key:
     stateful_set.go            sync, adoptOrphanRevisions, getPodsForStatefulSet (ClaimPods)
     controller_ref_manager.go  ClaimObject, CanAdopt (memoised), AdoptPod, ReleasePod
     stateful_set_control.go    UpdateStatefulSet, ListRevisions, getStatefulSetRevisions,
                                updateStatefulSet (pod phase), updateStatefulSetStatus, truncateHistory,
                                create/update/adoptControllerRevision
     stateful_pod_control.go    Create/Update/DeleteStatefulPod, createPersistentVolumeClaims
     stateful_set_status_updater.go
     stateful_set_utils.go      predicates, identity, newVersionedStatefulSetPod, status helpers
     controller_history.go      sort order, EqualRevision
   against an abstract API server with a fault oracle (World.v).  The pod phase is a pure
   planner (plan_pods) followed by an executor that stops at the first failing action.
   Definitions only; proofs are in ReconcileProofs.v. *)
From ASTS Require Import Base Slots Names World.

(* ------------------------------------------------------------------ leaf predicates ---------- *)
Definition isRunningAndReady (p : pod) : bool := String.eqb (p_phase p) "Running" && p_ready p.
Definition isCreated (p : pod) : bool := negb (String.eqb (p_phase p) "").
Definition isFailed (p : pod) : bool := String.eqb (p_phase p) "Failed".
Definition isSucceeded (p : pod) : bool := String.eqb (p_phase p) "Succeeded".
Definition isTerminating (p : pod) : bool := p_term p.
Definition isHealthy (p : pod) : bool := isRunningAndReady p && negb (isTerminating p).
Definition allowsBurst (s : sset) : bool := String.eqb (s_policy s) "Parallel".
Definition isMemberOf (s : sset) (p : pod) : bool := String.eqb (parent_of (p_name p)) (s_name s).
Definition getOrdinal (p : pod) : Z := ordinal_of (p_name p).

Definition me (s : sset) : owner := {| o_kind := "StatefulSet"; o_name := s_name s; o_uid := s_uid s |}.
Definition owner_uid_is (s : sset) (o : option owner) : bool :=
  match o with Some x => String.eqb (o_uid x) (s_uid s) | None => false end.
Definition is_orphan (o : option owner) : bool := match o with None => true | Some _ => false end.
Definition opt_str_is (o : option string) (v : string) : bool :=
  match o with Some x => String.eqb x v | None => false end.

(* identityMatches / storageMatches *)
Definition identityMatches (s : sset) (p : pod) : bool :=
  let '(parent, ord) := parse_name (p_name p) in
  (0 <=? ord) && String.eqb (s_name s) parent && String.eqb (p_name p) (pod_name (s_name s) ord)
  && opt_str_is (p_namelabel p) (p_name p).
(* volumes map: a later volume with the same name wins *)
Definition lookup_vol (n : string) (vs : list vol) : option vol :=
  find (fun v => String.eqb (v_name v) n) (List.rev vs).
Definition storageMatches (s : sset) (p : pod) : bool :=
  let ord := getOrdinal p in
  (0 <=? ord) &&
  forallb (fun t => match lookup_vol t (p_vols p) with
                    | Some v => opt_str_is (v_claim v) (claim_name t (s_name s) ord)
                    | None => false end) (s_claims s).

(* updateIdentity / updateStorage *)
Definition updateIdentity (s : sset) (p : pod) : pod :=
  let n := pod_name (s_name s) (getOrdinal p) in
  {| p_name := n; p_match := p_match p; p_owner := p_owner p; p_phase := p_phase p; p_ready := p_ready p;
     p_term := p_term p; p_rev := p_rev p; p_namelabel := Some n; p_vols := p_vols p; p_tmpl := p_tmpl p |}.
Definition claim_vols (s : sset) (ord : Z) : list vol :=
  map (fun t => {| v_name := t; v_claim := Some (claim_name t (s_name s) ord) |}) (s_claims s).
Definition updateStorage (s : sset) (p : pod) : pod :=
  let vs := claim_vols s (getOrdinal p) ++ filter (fun v => negb (smemb (v_name v) (s_claims s))) (p_vols p) in
  {| p_name := p_name p; p_match := p_match p; p_owner := p_owner p; p_phase := p_phase p; p_ready := p_ready p;
     p_term := p_term p; p_rev := p_rev p; p_namelabel := p_namelabel p; p_vols := vs; p_tmpl := p_tmpl p |}.

(* the volumes of the pod template (harness templates carry one non-claim volume "home") *)
Definition template_vols : list vol := [{| v_name := "home"; v_claim := None |}].

(* newStatefulSetPod + setPodRevision *)
Definition new_pod (s : sset) (ord : Z) (revname : string) (tmpl : Z) : pod :=
  let n := pod_name (s_name s) ord in
  {| p_name := n; p_match := true; p_owner := Some (me s); p_phase := ""; p_ready := false; p_term := false;
     p_rev := revname; p_namelabel := Some n;
     p_vols := claim_vols s ord ++ filter (fun v => negb (smemb (v_name v) (s_claims s))) template_vols;
     p_tmpl := tmpl |}.

(* current / update revision as the pod phase sees them *)
Record rinfo := { ri_name : string; ri_tmpl : Z }.

(* newVersionedStatefulSetPod (with the nil-partition guard of the repaired code).
   Go:  T == RollingUpdate && (RU == nil && ord < status.currentReplicas) || (RU != nil && P != nil && ord < *P) *)
Definition use_current (s : sset) (ord : Z) : bool :=
  (String.eqb (s_strategy s) "RollingUpdate"
   && (match s_rolling s with None => true | Some _ => false end && (ord <? st_current (s_status s))))
  || (match s_rolling s with Some (Some part) => ord <? part | _ => false end).
Definition new_versioned_pod (s : sset) (cur upd : rinfo) (ord : Z) : pod :=
  if use_current s ord then new_pod s ord (ri_name cur) (ri_tmpl cur)
  else new_pod s ord (ri_name upd) (ri_tmpl upd).

(* ------------------------------------------------------------------ pod phase: planner -------- *)
Inductive act :=
| ACreate (p : pod)                 (* CreateStatefulPod(set, p) *)
| ADelete (p : pod)                 (* DeleteStatefulPod(set, p) *)
| AUpdate (p : pod).                (* UpdateStatefulPod(updateSet, copy of p) *)

Definition st_add (st : status) (dr dc du : Z) : status :=
  {| st_replicas := st_replicas st + dr; st_ready := st_ready st; st_current := st_current st + dc;
     st_updated := st_updated st + du; st_currev := st_currev st; st_updrev := st_updrev st;
     st_obsgen := st_obsgen st; st_coll := st_coll st |}.
Definition b2z (b : bool) : Z := if b then 1 else 0.
Definition rev_is (p : pod) (r : rinfo) : bool := String.eqb (p_rev p) (ri_name r).

(* census of one claimed pod *)
Definition census1 (cur upd : rinfo) (st : status) (p : pod) : status :=
  let counted := isCreated p && negb (isTerminating p) in
  {| st_replicas := st_replicas st + 1;
     st_ready := st_ready st + b2z (isRunningAndReady p);
     st_current := st_current st + b2z (counted && rev_is p cur);
     st_updated := st_updated st + b2z (counted && rev_is p upd);
     st_currev := st_currev st; st_updrev := st_updrev st; st_obsgen := st_obsgen st; st_coll := st_coll st |}.

Definition in_range (cnt : Z) (slots : list Z) (ord : Z) : bool :=
  (0 <=? ord) && (ord <? cnt) && negb (memb ord slots).
Definition is_condemned (cnt : Z) (slots : list Z) (ord : Z) : bool :=
  negb (in_range cnt slots ord) && ((cnt <=? ord) || memb ord slots).

Fixpoint set_nth {A} (n : nat) (x : A) (l : list A) : list A :=
  match l, n with
  | [], _ => []
  | _ :: t, O => x :: t
  | y :: t, S k => y :: set_nth k x t
  end.
Definition place (cnt : Z) (slots : list Z) (arr : list (option pod)) (p : pod) : list (option pod) :=
  let ord := getOrdinal p in
  if in_range cnt slots ord then set_nth (Z.to_nat ord) (Some p) arr else arr.

Fixpoint fill (s : sset) (cur upd : rinfo) (slots : list Z) (ord : Z) (arr : list (option pod)) : list (option pod) :=
  match arr with
  | [] => []
  | e :: t => (match e with
               | Some p => Some p
               | None => if memb ord slots then None else Some (new_versioned_pod s cur upd ord)
               end) :: fill s cur upd slots (ord + 1) t
  end.

(* sort.Sort(ascendingOrdinal): the generated cases have distinct ordinals, for which every
   sorting algorithm gives this result (insertion sort, stable) *)
Fixpoint insert_asc (p : pod) (l : list pod) : list pod :=
  match l with
  | [] => [p]
  | q :: t => if getOrdinal p <? getOrdinal q then p :: l else q :: insert_asc p t
  end.
Definition sort_asc (l : list pod) : list pod := fold_left (fun acc p => insert_asc p acc) l [].

(* first unhealthy pod: the first candidate is taken whatever its ordinal (repaired: the sentinel MaxInt32 used to
   leave the pointer nil for a pod with that very ordinal); after that a strictly smaller ordinal replaces, so the
   first one wins ties *)
Definition first_unhealthy (replicas : list (option pod)) (condemned : list pod) : option pod :=
  let cands := flat_map (fun e => match e with Some p => if isHealthy p then [] else [p] | None => [] end) replicas
               ++ filter (fun p => negb (isHealthy p)) condemned in
  fst (fold_left (fun (acc : option pod * Z) p =>
                    if match fst acc with None => true | Some _ => false end || (getOrdinal p <? snd acc)
                    then (Some p, getOrdinal p) else acc)
                 cands (None, max_i32)).

Definition same_pod (a : pod) (b : option pod) : bool :=
  match b with Some q => String.eqb (p_name a) (p_name q) | None => false end.

(* one iteration of the replica loop on replicas[i] = p0: actions, status, whether the loop goes
   on, and the entry left in replicas[i].  A failed / succeeded pod is deleted and its place taken
   by a fresh pod, which (never being created) is created at once. *)
Definition rstep (s : sset) (cur upd : rinfo) (mono : bool) (i : Z) (p0 : pod) (st : status)
  : list act * status * bool * pod :=
  if isFailed p0 || isSucceeded p0 then
    let f := new_versioned_pod s cur upd i in
    let st1 := if negb (isTerminating p0)
               then st_add st (-1) (- b2z (rev_is p0 cur)) (- b2z (rev_is p0 upd))
               else st_add st (-1) 0 0 in
    ([ADelete p0; ACreate f], st_add st1 1 (b2z (rev_is f cur)) (b2z (rev_is f upd)), negb mono, f)
  else if negb (isCreated p0) then
    ([ACreate p0], st_add st 1 (b2z (rev_is p0 cur)) (b2z (rev_is p0 upd)), negb mono, p0)
  else if isTerminating p0 && mono then ([], st, false, p0)
  else if negb (isRunningAndReady p0) && mono then ([], st, false, p0)
  else if identityMatches s p0 && storageMatches s p0 then ([], st, true, p0)
  else ([AUpdate p0], st, true, p0).

(* replica loop over replicas[i..]; `i` is the index (= ordinal) of the head of l *)
Fixpoint rloop (s : sset) (cur upd : rinfo) (mono : bool) (i : Z) (l : list (option pod)) (st : status)
  : list act * status * bool * list (option pod) :=
  match l with
  | [] => ([], st, true, [])
  | None :: t =>
      let '(a, st', go, arr) := rloop s cur upd mono (i + 1) t st in (a, st', go, None :: arr)
  | Some p0 :: t =>
      let '(a1, st1, go1, p) := rstep s cur upd mono i p0 st in
      if go1 then
        let '(a, st', go, arr) := rloop s cur upd mono (i + 1) t st1 in (a1 ++ a, st', go, Some p :: arr)
      else (a1, st1, false, Some p :: t)
  end.

(* condemned loop: l is the condemned list in DEScending ordinal order *)
Fixpoint cloop (cur upd : rinfo) (mono : bool) (fu : option pod) (l : list pod) (st : status)
  : list act * status * bool :=
  match l with
  | [] => ([], st, true)
  | p :: t =>
      if isTerminating p then (if mono then ([], st, false) else cloop cur upd mono fu t st)
      else if negb (isRunningAndReady p) && mono && negb (same_pod p fu) then ([], st, false)
      else
        let st' := st_add st 0 (- b2z (rev_is p cur)) (- b2z (rev_is p upd)) in
        if mono then ([ADelete p], st', false)
        else let '(a, st'', go) := cloop cur upd mono fu t st' in (ADelete p :: a, st'', go)
  end.

(* update loop: l is replicas[] reversed, `i` the index of its head; stops below umin *)
Fixpoint uloop (cur upd : rinfo) (umin : Z) (i : Z) (l : list (option pod)) (st : status) : list act * status :=
  match l with
  | [] => ([], st)
  | e :: t =>
      if i <? umin then ([], st) else
      match e with
      | None => uloop cur upd umin (i - 1) t st
      | Some p =>
          if negb (rev_is p upd) && negb (isTerminating p)
          then ([ADelete p], st_add st 0 (- b2z (rev_is p cur)) 0)
          else if negb (isHealthy p) then ([], st)
          else uloop cur upd umin (i - 1) t st
      end
  end.

Record plan_out := { po_acts : list act; po_status : status }.

Definition init_status (s : sset) (cur upd : rinfo) (coll : Z) : status :=
  {| st_replicas := 0; st_ready := 0; st_current := 0; st_updated := 0; st_currev := ri_name cur;
     st_updrev := ri_name upd; st_obsgen := s_gen s; st_coll := Some coll |}.

(* updateStatefulSet.  None = panic (nil replicas / negative make length) *)
Definition plan_pods (s : sset) (cur upd : rinfo) (coll : Z) (pods : list pod) : option plan_out :=
  match s_replicas s with
  | None => None
  | Some r =>
    let '(cnt, slots) := extend r (get_slots (s_slots s)) in
    if cnt <? 0 then None else
    let st0 := fold_left (census1 cur upd) pods (init_status s cur upd coll) in
    let arr0 := fold_left (place cnt slots) pods (repeat None (Z.to_nat cnt)) in
    let condemned := sort_asc (filter (fun p => is_condemned cnt slots (getOrdinal p)) pods) in
    let replicas := fill s cur upd slots 0 arr0 in
    let fu := first_unhealthy replicas condemned in
    if s_deleting s then Some {| po_acts := []; po_status := st0 |} else
    let mono := negb (allowsBurst s) in
    let '(a1, st1, go1, replicas') := rloop s cur upd mono 0 replicas st0 in
    if negb go1 then Some {| po_acts := a1; po_status := st1 |} else
    let '(a2, st2, go2) := cloop cur upd mono fu (List.rev condemned) st1 in
    if negb go2 then Some {| po_acts := a1 ++ a2; po_status := st2 |} else
    if String.eqb (s_strategy s) "OnDelete" then Some {| po_acts := a1 ++ a2; po_status := st2 |} else
    let umin := match s_rolling s with Some (Some part) => Z.max part 0 | _ => 0 end in
    let '(a3, st3) := uloop cur upd umin (cnt - 1) (List.rev replicas') st2 in
    Some {| po_acts := a1 ++ a2 ++ a3; po_status := st3 |}
  end.

(* completeRollingUpdate / inconsistentStatus *)
Definition complete_rolling_update (s : sset) (st : status) : status :=
  if String.eqb (s_strategy s) "RollingUpdate" && (st_updated st =? st_replicas st) && (st_ready st =? st_replicas st)
  then {| st_replicas := st_replicas st; st_ready := st_ready st; st_current := st_updated st;
          st_updated := st_updated st; st_currev := st_updrev st; st_updrev := st_updrev st;
          st_obsgen := st_obsgen st; st_coll := st_coll st |}
  else st.
Definition inconsistent_status (s : sset) (st : status) : bool :=
  let o := s_status s in
  (st_obsgen o <? st_obsgen st) || negb (st_replicas st =? st_replicas o) || negb (st_current st =? st_current o)
  || negb (st_ready st =? st_ready o) || negb (st_updated st =? st_updated o)
  || negb (String.eqb (st_currev st) (st_currev o)) || negb (String.eqb (st_updrev st) (st_updrev o)).

(* ------------------------------------------------------------------ API server semantics ------ *)
Fixpoint insert_by_name (r : rev) (l : list rev) : list rev :=
  match l with
  | [] => [r]
  | q :: t => if String.ltb (r_name r) (r_name q) then r :: l else q :: insert_by_name r t
  end.
Definition sort_by_name (l : list rev) : list rev := fold_right insert_by_name [] l.

Definition api_list_revs (s : sset) (marker : bool) : M (list rev) :=
  call_api (CListRevs marker) (fun w =>
    (inl (sort_by_name (filter (fun r => negb (r_labels_nil r) &&
                                         (if marker then opt_str_is (r_marker r) (s_name s) else r_match r))
                               (w_revs w))), w)).
Definition api_get_set : M sset :=
  call_api CGetSet (fun w => match w_set w with Some s => (inl s, w) | None => (inr ENotFound, w) end).
Definition api_get_rev (n : string) : M rev :=
  call_api (CGetRev n) (fun w => match find_rev n (w_revs w) with Some r => (inl r, w) | None => (inr ENotFound, w) end).
Definition api_put_rev (c : call) (r : rev) : M rev :=
  call_api c (fun w => match find_rev (r_name r) (w_revs w) with
                       | Some _ => (inl r, with_revs w (replace_rev r (w_revs w)))
                       | None => (inr ENotFound, w) end).
Definition set_owner_rev (r : rev) (o : option owner) : rev :=
  {| r_name := r_name r; r_revision := r_revision r; r_tmpl := r_tmpl r; r_owner := o; r_match := r_match r;
     r_marker := r_marker r; r_hash := r_hash r; r_created := r_created r; r_labels_nil := r_labels_nil r |}.
Definition api_adopt_rev (s : sset) (r : rev) : M rev :=
  call_api (CPatchRev (r_name r)) (fun w =>
    match find_rev (r_name r) (w_revs w) with
    | Some q => let q' := set_owner_rev q (Some (me s)) in (inl q', with_revs w (replace_rev q' (w_revs w)))
    | None => (inr ENotFound, w) end).
Definition api_create_rev (r : rev) : M rev :=
  call_api (CCreateRev (r_name r) (r_revision r) (r_tmpl r)) (fun w =>
    match find_rev (r_name r) (w_revs w) with
    | Some _ => (inr EExists, w)
    | None => (inl r, with_revs w (w_revs w ++ [r])) end).
Definition api_delete_rev (n : string) : M unit :=
  call_api (CDeleteRev n) (fun w => match find_rev n (w_revs w) with
                                    | Some _ => (inl tt, with_revs w (remove_rev n (w_revs w)))
                                    | None => (inr ENotFound, w) end).

Definition set_owner_pod (p : pod) (o : option owner) : pod :=
  {| p_name := p_name p; p_match := p_match p; p_owner := o; p_phase := p_phase p; p_ready := p_ready p;
     p_term := p_term p; p_rev := p_rev p; p_namelabel := p_namelabel p; p_vols := p_vols p; p_tmpl := p_tmpl p |}.
Definition set_term_pod (p : pod) : pod :=
  {| p_name := p_name p; p_match := p_match p; p_owner := p_owner p; p_phase := p_phase p; p_ready := p_ready p;
     p_term := true; p_rev := p_rev p; p_namelabel := p_namelabel p; p_vols := p_vols p; p_tmpl := p_tmpl p |}.
Definition set_phase_pod (p : pod) (ph : string) : pod :=
  {| p_name := p_name p; p_match := p_match p; p_owner := p_owner p; p_phase := ph; p_ready := p_ready p;
     p_term := p_term p; p_rev := p_rev p; p_namelabel := p_namelabel p; p_vols := p_vols p; p_tmpl := p_tmpl p |}.

(* adopt: strategic merge adds the controller reference; release: removes the reference with our uid *)
Definition api_patch_pod (s : sset) (n : string) (adopt : bool) : M unit :=
  call_api (CPatchPod n adopt) (fun w =>
    match find_pod n (w_pods w) with
    | Some q =>
        let q' := if adopt then set_owner_pod q (Some (me s))
                  else if owner_uid_is s (p_owner q) then set_owner_pod q None else q in
        (inl tt, with_pods w (replace_pod q' (w_pods w)))
    | None => (inr ENotFound, w) end).
(* graceful deletion: a pod in a terminal phase goes at once, any other is marked terminating *)
Definition api_delete_pod (n : string) : M unit :=
  call_api (CDeletePod n) (fun w =>
    match find_pod n (w_pods w) with
    | Some q => if isFailed q || isSucceeded q then (inl tt, with_pods w (remove_pod n (w_pods w)))
                else (inl tt, with_pods w (replace_pod (set_term_pod q) (w_pods w)))
    | None => (inr ENotFound, w) end).
Definition api_create_pod (p : pod) : M unit :=
  call_api (CCreatePod (p_name p) (p_rev p) (p_tmpl p)) (fun w =>
    match find_pod (p_name p) (w_pods w) with
    | Some _ => (inr EExists, w)
    | None => let p' := if isCreated p then p else set_phase_pod p "Pending" in
              (inl tt, with_pods w (w_pods w ++ [p'])) end).
Definition api_update_pod (p : pod) : M unit :=
  call_api (CUpdatePod (p_name p)) (fun w =>
    match find_pod (p_name p) (w_pods w) with
    | Some _ => (inl tt, with_pods w (replace_pod p (w_pods w)))
    | None => (inr ENotFound, w) end).
Definition api_create_claim (n : string) : M unit :=
  call_api (CCreateClaim n) (fun w =>
    if smemb n (w_claims w) then (inr EExists, w) else (inl tt, with_claims w (w_claims w ++ [n]))).
Definition set_status (s : sset) (st : status) (rv : Z) : sset :=
  {| s_name := s_name s; s_uid := s_uid s; s_gen := s_gen s; s_deleting := s_deleting s; s_slots := s_slots s;
     s_pause := s_pause s; s_replicas := s_replicas s; s_selector := s_selector s; s_policy := s_policy s;
     s_strategy := s_strategy s; s_rolling := s_rolling s; s_tmpl := s_tmpl s; s_claims := s_claims s;
     s_service := s_service s; s_rhl := s_rhl s; s_status := st; s_rv := rv |}.
(* UpdateStatus: resourceVersion precondition, writes the status only *)
Definition api_update_status (st : status) (rv : Z) : M unit :=
  call_api (CUpdateStatus st rv) (fun w =>
    match w_set w with
    | None => (inr ENotFound, w)
    | Some a => if s_rv a =? rv then (inl tt, with_set w (Some (set_status a st (rv + 1))))
                else (inr EConflict, w) end).

(* ------------------------------------------------------------------ pod control -------------- *)
Definition is_conflict (e : errkind) : bool := match e with EConflict => true | _ => false end.

(* createPersistentVolumeClaims: every missing claim is attempted, errors are aggregated *)
Fixpoint create_claims (s : sset) (cache : world) (ord : Z) (ts : list string) (failed : bool) : M bool :=
  match ts with
  | [] => ret failed
  | t :: rest =>
      let n := claim_name t (s_name s) ord in
      if smemb n (w_claims cache) then create_claims s cache ord rest failed
      else r <- try (api_create_claim n) ;;
           match r with
           | inl _ => create_claims s cache ord rest failed
           | inr _ => create_claims s cache ord rest true
           end
  end.
Definition create_pvcs (s : sset) (cache : world) (p : pod) : M unit :=
  failed <- create_claims s cache (getOrdinal p) (s_claims s) false ;;
  if failed then fail EOther else ret tt.

Definition create_stateful_pod (s : sset) (cache : world) (p : pod) : M unit :=
  create_pvcs s cache p ;;; api_create_pod p.

(* UpdateStatefulPod: RetryOnConflict(DefaultBackoff: 4 attempts) *)
Fixpoint update_stateful_pod (fuel : nat) (s : sset) (cache : world) (p : pod) (last : errkind) : M unit :=
  match fuel with
  | O => fail last
  | S f =>
      let idok := identityMatches s p in
      let p1 := if idok then p else updateIdentity s p in
      let stok := storageMatches s p1 in
      let p2 := if stok then p1 else updateStorage s p1 in
      (if stok then ret tt else create_pvcs s cache p2) ;;;
      if idok && stok then ret tt else
      r <- try (api_update_pod p2) ;;
      match r with
      | inl _ => ret tt
      | inr e =>
          let p3 := match find_pod (p_name p2) (w_pods cache) with Some q => q | None => p2 end in
          if is_conflict e then update_stateful_pod f s cache p3 e else fail e
      end
  end.

Definition exec_act (s : sset) (cache : world) (a : act) : M unit :=
  match a with
  | ACreate p => create_stateful_pod s cache p
  | ADelete p => api_delete_pod (p_name p)
  | AUpdate p => update_stateful_pod 4 s cache p EConflict
  end.

(* ------------------------------------------------------------------ revisions ---------------- *)
Section WithHashes.
Variable hashes : list ((Z * Z) * string).     (* (template, collision count) -> hash string *)

Definition hash_of (tmpl coll : Z) : option string :=
  option_map snd (find (fun e => (fst (fst e) =? tmpl) && (snd (fst e) =? coll)) hashes).
Definition rev_name (s : sset) (h : string) : string :=
  (if Nat.ltb 223 (String.length (s_name s)) then substring 0 223 (s_name s) else s_name s) +++ "-" +++ h.

(* strconv.ParseInt(s, 10, 32) for the hash label short-cut of EqualRevision *)
Definition parse_i32 (str : string) : option Z :=
  let '(neg, body) := match str with
                      | String "-"%char t => (true, t)
                      | String "+"%char t => (false, t)
                      | _ => (false, str) end in
  if String.eqb body "" || negb (all_digits body) then None else
  if Nat.ltb 12 (String.length body) then None else
  let v := digits_val body 0 in
  let z := if neg then - v else v in
  if in_i32 z then Some z else None.
Definition hash_num (r : rev) : option Z :=
  if r_labels_nil r then None else match r_hash r with Some h => parse_i32 h | None => None end.
Definition equal_revision (a b : rev) : bool :=
  match hash_num a, hash_num b with
  | Some x, Some y => (x =? y) && (r_tmpl a =? r_tmpl b)
  | _, _ => r_tmpl a =? r_tmpl b
  end.

(* byRevision.Less and sort.Stable *)
Definition rev_lt (a b : rev) : bool :=
  if r_revision a =? r_revision b then
    if r_created a =? r_created b then String.ltb (r_name a) (r_name b) else r_created a <? r_created b
  else r_revision a <? r_revision b.
Fixpoint insert_rev (r : rev) (l : list rev) : list rev :=
  match l with
  | [] => [r]
  | q :: t => if rev_lt r q then r :: l else q :: insert_rev r t
  end.
(* stable: fold from the right so that equal elements keep their order *)
Definition sort_revs (l : list rev) : list rev := fold_right insert_rev [] l.

Fixpoint dedupe_revs (seen : list string) (l : list rev) : list rev :=
  match l with
  | [] => []
  | r :: t => if smemb (r_name r) seen then dedupe_revs seen t else r :: dedupe_revs (r_name r :: seen) t
  end.
(* ListRevisions (repaired): two live lists, foreign owners dropped, duplicates dropped *)
Definition list_revisions (s : sset) : M (list rev) :=
  l1 <- api_list_revs s false ;;
  l2 <- api_list_revs s true ;;
  ret (dedupe_revs [] (filter (fun r => is_orphan (r_owner r) || owner_uid_is s (r_owner r)) (l1 ++ l2))).

Definition sync_labels_rev (r : rev) : rev :=
  {| r_name := r_name r; r_revision := r_revision r; r_tmpl := r_tmpl r; r_owner := r_owner r; r_match := true;
     r_marker := r_marker r; r_hash := r_hash r; r_created := r_created r; r_labels_nil := false |}.
Definition should_sync (r : rev) : bool :=
  negb (r_labels_nil r) && match r_marker r with Some _ => true | None => false end.

Fixpoint sync_all (l : list rev) : M (list rev) :=
  match l with
  | [] => ret []
  | r :: t => r' <- (if should_sync r then api_put_rev (CUpdateRev (r_name r) (r_revision r) true) (sync_labels_rev r) else ret r) ;;
              t' <- sync_all t ;;
              ret (r' :: t')
  end.

(* adoptOrphanRevisions (repaired) *)
Definition adopt_orphan_revisions (s : sset) : M unit :=
  revs <- list_revisions s ;;
  if existsb (fun r => is_orphan (r_owner r)) revs && negb (s_deleting s) then
    fresh <- api_get_set ;;
    if negb (String.eqb (s_uid fresh) (s_uid s)) then fail EOther
    else if s_deleting fresh then fail EOther
    else
      revs' <- sync_all revs ;;
      forM (filter (fun r => is_orphan (r_owner r)) revs') (fun r => api_adopt_rev s r ;;; ret tt)
  else ret tt.

(* updateControllerRevision: RetryOnConflict(DefaultBackoff: 4 attempts) *)
Definition set_revision (r : rev) (n : Z) : rev :=
  {| r_name := r_name r; r_revision := n; r_tmpl := r_tmpl r; r_owner := r_owner r; r_match := r_match r;
     r_marker := r_marker r; r_hash := r_hash r; r_created := r_created r; r_labels_nil := r_labels_nil r |}.
Fixpoint update_controller_revision (fuel : nat) (clone : rev) (n : Z) (last : errkind) : M rev :=
  match fuel with
  | O => fail last
  | S f =>
      if r_revision clone =? n then ret clone else
      let clone1 := set_revision clone n in
      r <- try (api_put_rev (CUpdateRev (r_name clone1) n (r_match clone1 && negb (r_labels_nil clone1))) clone1) ;;
      match r with
      | inl _ => ret clone1
      | inr e =>
          g <- try (api_get_rev (r_name clone1)) ;;
          let clone2 := match g with inl q => q | inr _ => clone1 end in
          if is_conflict e then update_controller_revision f clone2 n e else fail e
      end
  end.

(* the creation timestamp the API server gives an object it creates: later than that of every object of the initial world *)
Definition created_now : Z := 1000000.

(* createControllerRevision: the collision loop (fuel = number of hashes the case provides) *)
Fixpoint create_controller_revision (fuel : nat) (s : sset) (r : rev) (coll : Z) : M (rev * Z) :=
  match fuel with
  | O => out_of_fuel
  | S f =>
      match hash_of (r_tmpl r) coll with
      | None => out_of_fuel
      | Some h =>
          let clone := {| r_name := rev_name s h; r_revision := r_revision r; r_tmpl := r_tmpl r; r_owner := r_owner r;
                          r_match := r_match r; r_marker := r_marker r; r_hash := r_hash r; r_created := r_created r;
                          r_labels_nil := r_labels_nil r |} in
          c <- try (api_create_rev clone) ;;
          match c with
          | inl created => ret (created, coll)
          | inr EExists =>
              ex <- api_get_rev (r_name clone) ;;
              if r_tmpl ex =? r_tmpl clone then ret (ex, coll)
              else create_controller_revision f s r (coll + 1)
          | inr e => fail e
          end
      end
  end.

Definition last_opt {A} (l : list A) : option A := match List.rev l with x :: _ => Some x | [] => None end.

(* getStatefulSetRevisions: (current, update, collisionCount) *)
Definition get_set_revisions (s : sset) (revs : list rev) : M (rev * rev * Z) :=
  let coll0 := match st_coll (s_status s) with Some c => c | None => 0 end in
  let next := match last_opt revs with Some l => r_revision l + 1 | None => 1 end in
  match hash_of (s_tmpl s) coll0 with
  | None => out_of_fuel
  | Some h0 =>
    let fresh := {| r_name := rev_name s h0; r_revision := next; r_tmpl := s_tmpl s; r_owner := Some (me s);
                    r_match := true; r_marker := None; r_hash := Some h0; r_created := created_now; r_labels_nil := false |} in
    let equal := filter (fun r => equal_revision r fresh) revs in
    x <- (match last_opt equal, last_opt revs with
          | Some e, Some l =>
              if equal_revision l e then ret (l, coll0)
              else u <- update_controller_revision 4 e next EConflict ;; ret (u, coll0)
          | _, _ => create_controller_revision 4 s fresh coll0
          end) ;;
    let '(upd, coll) := x in
    let cur := match find (fun r => String.eqb (r_name r) (st_currev (s_status s))) revs with
               | Some c => c | None => upd end in
    ret (cur, upd, coll)
  end.

(* truncateHistory *)
Definition truncate_history (s : sset) (pods : list pod) (revs : list rev) (cur upd : rev) : M unit :=
  let live := r_name cur :: r_name upd :: map p_rev pods in
  let history := filter (fun r => negb (smemb (r_name r) live)) revs in
  match s_rhl s with
  | None => panic "revisionHistoryLimit"
  | Some limit =>
      let n := Z.of_nat (length history) in
      if n <=? limit then ret tt
      else forM (firstn (Z.to_nat (n - limit)) history) (fun r => api_delete_rev (r_name r))
  end.

(* updateStatefulSetStatus + UpdateStatefulSetStatus: RetryOnConflict(DefaultRetry: 5 attempts),
   each retry re-reads the set from the lister, i.e. the same cached copy *)
Fixpoint update_status_retry (fuel : nat) (s : sset) (st : status) (last : errkind) : M unit :=
  match fuel with
  | O => fail last
  | S f =>
      r <- try (api_update_status st (s_rv s)) ;;
      match r with
      | inl _ => ret tt
      | inr e => if is_conflict e then update_status_retry f s st e else fail e
      end
  end.
Definition update_set_status (s : sset) (st : status) : M unit :=
  let st' := complete_rolling_update s st in
  if inconsistent_status s st' then update_status_retry 5 s st' EConflict else ret tt.

(* UpdateStatefulSet *)
Definition update_stateful_set (s : sset) (cache : world) (pods : list pod) : M unit :=
  revs0 <- list_revisions s ;;
  let revs := sort_revs revs0 in
  x <- get_set_revisions s revs ;;
  let '(cur, upd, coll) := x in
  let ci := {| ri_name := r_name cur; ri_tmpl := r_tmpl cur |} in
  let ui := {| ri_name := r_name upd; ri_tmpl := r_tmpl upd |} in
  match plan_pods s ci ui coll pods with
  | None => panic "updateStatefulSet"
  | Some po =>
      forM (po_acts po) (exec_act s cache) ;;;
      update_set_status s (po_status po) ;;;
      truncate_history s pods revs cur upd
  end.

(* ------------------------------------------------------------------ ClaimPods ---------------- *)
(* CanAdopt is memoised: None = not yet asked, Some ok? *)
Definition can_adopt (s : sset) (memo : option bool) : M (bool * option bool) :=
  match memo with
  | Some b => ret (b, memo)
  | None =>
      g <- try api_get_set ;;
      let ok := match g with
                | inl fresh => String.eqb (s_uid fresh) (s_uid s) && negb (s_deleting fresh)
                | inr _ => false end in
      ret (ok, Some ok)
  end.

(* returns (claimed pods in order, some error was collected) *)
Fixpoint claim_pods (s : sset) (pods : list pod) (memo : option bool) (failed : bool) : M (list pod * bool) :=
  match pods with
  | [] => ret ([], failed)
  | p :: t =>
      let matches := p_match p && isMemberOf s p in
      match p_owner p with
      | Some _ =>
          if negb (owner_uid_is s (p_owner p)) then claim_pods s t memo failed
          else if matches then x <- claim_pods s t memo failed ;; ret (p :: fst x, snd x)
          else if s_deleting s then claim_pods s t memo failed
          else r <- try (api_patch_pod s (p_name p) false) ;;
               match r with
               | inl _ | inr ENotFound | inr EInvalid => claim_pods s t memo failed
               | inr _ => claim_pods s t memo true
               end
      | None =>
          if s_deleting s || negb matches then claim_pods s t memo failed
          else if p_term p then claim_pods s t memo failed
          else
            c <- can_adopt s memo ;;
            let '(ok, memo') := c in
            if negb ok then claim_pods s t memo' true
            else r <- try (api_patch_pod s (p_name p) true) ;;
                 match r with
                 | inl _ => x <- claim_pods s t memo' failed ;; ret (p :: fst x, snd x)
                 | inr ENotFound => claim_pods s t memo' failed
                 | inr _ => claim_pods s t memo' true
                 end
      end
  end.

(* ------------------------------------------------------------------ sync --------------------- *)
Definition sync (cache : world) : M unit :=
  match w_set cache with
  | None => ret tt                                        (* deleted: nothing to do *)
  | Some s =>
      if get_paused (s_pause s) then ret tt
      else match s_selector s with
           | SelInvalid => ret tt                         (* non-transient: not retried *)
           | SelOk =>
               adopt_orphan_revisions s ;;;
               x <- claim_pods s (w_pods cache) None false ;;
               if snd x then fail EOther
               else update_stateful_set s cache (fst x)
           end
  end.

End WithHashes.

(* one reconcile: outcome, log (oldest first), API state afterwards *)
Inductive outcome := OOk | OErr | OPanic | OFuel.
Definition outcome_of {A} (r : res A) : outcome :=
  match r with Ok _ => OOk | Err _ => OErr | Panic _ => OPanic | OutOfFuel => OFuel end.
Definition reconcile (hashes : list ((Z * Z) * string)) (api cache : world) (faults : list fault)
  : outcome * list (call * option errkind) * world :=
  let '(r, s) := sync hashes cache {| rs_api := api; rs_log := []; rs_n := 0; rs_faults := faults |} in
  (outcome_of r, List.rev (rs_log s), rs_api s).
