(* PanicProofs.v — a reconcile of an admitted set never panics (C15). *)
From ASTS Require Import Base Slots SlotsProofs Names World Reconcile MonadProofs PlanProofs.

Section NoPanic.
Variable hashes : list ((Z * Z) * string).

Lemma np_list_revisions s : np (list_revisions s).
Proof. unfold list_revisions, api_list_revs. npsimp. Qed.
Lemma np_sync_all : forall l, np (sync_all l).
Proof. induction l as [|r t IH]; cbn [sync_all]; npsimp; apply IH. Qed.
Lemma np_adopt s : np (adopt_orphan_revisions s).
Proof.
  unfold adopt_orphan_revisions, api_get_set. npsimp; try apply np_list_revisions; try apply np_sync_all.
Qed.
Lemma np_ucr : forall fuel clone n last, np (update_controller_revision fuel clone n last).
Proof. induction fuel as [|f IH]; intros; cbn [update_controller_revision]; npsimp; apply IH. Qed.
Lemma np_ccr : forall fuel s r coll, np (create_controller_revision hashes fuel s r coll).
Proof. induction fuel as [|f IH]; intros; cbn [create_controller_revision]; npsimp; apply IH. Qed.
Lemma np_gsr s revs : np (get_set_revisions hashes s revs).
Proof. unfold get_set_revisions. npsimp; try apply np_ucr; try apply np_ccr. Qed.
Lemma np_create_claims s cache ord : forall ts failed, np (create_claims s cache ord ts failed).
Proof. induction ts as [|t rest IH]; intros; cbn [create_claims]; npsimp; apply IH. Qed.
Lemma np_create_pvcs s cache p : np (create_pvcs s cache p).
Proof. unfold create_pvcs. npsimp; try apply np_create_claims. Qed.
Lemma np_usp s cache : forall fuel p last, np (update_stateful_pod fuel s cache p last).
Proof. induction fuel as [|f IH]; intros; cbn [update_stateful_pod]; npsimp; try apply np_create_claims; try apply np_create_pvcs; try apply IH. Qed.
Lemma np_exec_act s cache a : np (exec_act s cache a).
Proof.
  destruct a; cbn [exec_act]; [unfold create_stateful_pod; npsimp; try apply np_create_claims; try apply np_create_pvcs | unfold api_delete_pod; npsimp | apply np_usp].
Qed.
Lemma np_usr s st : forall fuel last, np (update_status_retry fuel s st last).
Proof. induction fuel as [|f IH]; intros; cbn [update_status_retry]; npsimp; apply IH. Qed.
Lemma np_can_adopt s memo : np (can_adopt s memo).
Proof. unfold can_adopt, api_get_set. npsimp. Qed.
Lemma np_claim_pods s : forall pods memo failed, np (claim_pods s pods memo failed).
Proof.
  induction pods as [|p t IH]; intros; cbn [claim_pods]; [apply np_ret|].
  npsimp; try apply np_can_adopt; try apply IH.
Qed.

(* admitted by the CRD schema: replicas present and >= 0, revisionHistoryLimit present *)
Definition admitted (s : sset) : Prop :=
  exists r, s_replicas s = Some r /\ 0 <= r /\ s_rhl s <> None
            /\ r + Z.of_nat (length (get_slots (s_slots s))) <= max_i32.      (* no int32 wrap of the range *)

Lemma extend_nonneg r D : 0 <= r -> r + Z.of_nat (length D) <= max_i32 -> 0 <= fst (extend r D).
Proof.
  intros Hr Hb. rewrite extend_ext by assumption.
  assert (G : forall l cnt, 0 <= cnt -> 0 <= fst (ext cnt l)).
  { induction l as [|x t IH]; intros cnt Hc; cbn [ext]; [exact Hc|].
    destruct ((0 <=? x) && (x <? cnt)).
    - specialize (IH (cnt + 1)). destruct (ext (cnt + 1) t). cbn [fst] in *. apply IH. lia.
    - apply IH. exact Hc. }
  apply G. exact Hr.
Qed.

Lemma plan_pods_total s cur upd coll pods : admitted s -> plan_pods s cur upd coll pods <> None.
Proof.
  intros (r & Hr & H0 & _ & Hb). unfold plan_pods. rewrite Hr.
  pose proof (extend_nonneg r (get_slots (s_slots s)) H0 Hb) as Hc.
  destruct (extend r (get_slots (s_slots s))) as [cnt slots]. cbn [fst] in Hc.
  destruct (cnt <? 0) eqn:E; [apply Z.ltb_lt in E; lia|].
  destruct (s_deleting s); [discriminate|].
  repeat match goal with |- context [let '(_, _) := ?x in _] => destruct x end.
  repeat match goal with |- (if ?b then _ else _) <> None => destruct b end; discriminate.
Qed.

Lemma np_update_stateful_set s cache pods : admitted s -> np (update_stateful_set hashes s cache pods).
Proof.
  intros Ha. unfold update_stateful_set.
  apply np_bind; [apply np_list_revisions|]. intros revs0.
  apply np_bind; [apply np_gsr|]. intros [[cur upd] coll].
  destruct (plan_pods s _ _ coll pods) as [po|] eqn:E; [|exfalso; eapply plan_pods_total; eassumption].
  apply np_bind; [apply np_forM; intros a; apply np_exec_act|]. intros _.
  apply np_bind.
  - unfold update_set_status. destruct (inconsistent_status _ _); [apply np_usr | apply np_ret].
  - intros _. unfold truncate_history. destruct Ha as (r & _ & _ & Hl & _).
    destruct (s_rhl s); [|congruence]. npsimp.
Qed.

Theorem sync_never_panics cache :
  (forall s, w_set cache = Some s -> admitted s) -> np (sync hashes cache).
Proof.
  intros Ha. unfold sync. destruct (w_set cache) as [s|] eqn:Hs; [|apply np_ret].
  specialize (Ha s eq_refl).
  destruct (get_paused (s_pause s)); [apply np_ret|]. destruct (s_selector s); [|apply np_ret].
  apply np_bind; [apply np_adopt|]. intros _.
  apply np_bind; [apply np_claim_pods|]. intros x.
  destruct (snd x); [apply np_fail | apply np_update_stateful_set; exact Ha].
Qed.

End NoPanic.

Theorem reconcile_never_panics hashes api cache faults o log w' :
  (forall s, w_set cache = Some s -> admitted s) ->
  reconcile hashes api cache faults = (o, log, w') -> o <> OPanic.
Proof.
  intros Ha. unfold reconcile. destruct (sync hashes cache _) as [r st] eqn:E. intros H. inversion H; subst.
  destruct r as [a|e|p|]; cbn; try discriminate.
  exfalso. eapply (sync_never_panics hashes cache Ha); [exact E | reflexivity].
Qed.
