(* C14 — Parallel policy never waits on other pods when scaling.  Statements only. *)
From ASTS Require Import Base Slots Names World Reconcile PlanProofs ReconcileProofs ExampleWorld.

(* for every context of a reconcile under the Parallel policy (set not being deleted), whatever the
   health of any pod: every vacant desired ordinal gets its create, every Failed/Succeeded desired pod
   is deleted and re-created, every non-terminating pod outside the desired set is deleted — all in the
   plan of that same reconcile — and the rolling update contributes at most ONE delete. *)
Theorem C14_parallel_does_all_scaling_work :
  forall cache s cur upd coll claimed po,
    ctx_valid cache (s, cur, upd, coll, claimed, po) -> allowsBurst s = true -> s_deleting s = false ->
    exists r cnt slots, s_replicas s = Some r /\ extend r (get_slots (s_slots s)) = (cnt, slots) /\
      (forall i, in_range cnt slots i = true -> (forall q, In q claimed -> getOrdinal q <> i) ->
                 In (ACreate (new_versioned_pod s cur upd i)) (po_acts po))
      /\ (forall p0, In p0 claimed -> in_range cnt slots (getOrdinal p0) = true -> (isFailed p0 || isSucceeded p0) = true ->
                     (forall q, In q claimed -> getOrdinal q = getOrdinal p0 -> q = p0) ->
                     In (ADelete p0) (po_acts po) /\ In (ACreate (new_versioned_pod s cur upd (getOrdinal p0))) (po_acts po))
      /\ (forall c, In c claimed -> is_condemned cnt slots (getOrdinal c) = true -> isTerminating c = false ->
                    In (ADelete c) (po_acts po))
      /\ (exists a3, (a3 = [] \/ exists u, a3 = [ADelete u]) /\
                     po_acts po = rl_acts s cur upd false 0 (replicas_of s cur upd cnt slots claimed)
                                  ++ map ADelete (filter (fun p => negb (isTerminating p)) (List.rev (condemned_of cnt slots claimed))) ++ a3).
Proof. exact ctx_burst. Qed.
Print Assumptions C14_parallel_does_all_scaling_work.

(* without API errors the whole plan is executed: the executor stops only at a failing action.
   (Fault-free completeness of execution is validated by the correspondence; under faults the log is a
   prefix of the plan, see C09.) *)

(* non-vacuity: one unready pod, one vacancy and one condemned pod: both actions in one reconcile *)
Example C14_ex :
  filter (fun sh => String.prefix "create pods" sh || String.prefix "delete pods" sh)
         (map (fun e => shape_of (fst e))
              (ex_log (ex_set 3 (Some "[1]"%string) "Parallel" 1 0 (ex_status 3 "web-h1" "web-h1"))
                      [ex_pod 0 "web-h1" "Pending" false; ex_pod 1 "web-h1" "Running" true; ex_pod 2 "web-h1" "Running" true]
                      [ex_rev "web-h1" 1 1]))
  = ["create pods web-3"%string; "delete pods web-1"%string].
Proof. vm_compute. reflexivity. Qed.
