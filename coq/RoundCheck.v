(* RoundCheck.v — executable tie between the abstract round of TerminationProofs.v and the round of the full
   reconcile + environment model (Env.v), evaluated inside coqc on worlds observed in harness histories.
   Definitions only. *)
From ASTS Require Import Base Slots Names World Reconcile ReconcileCheck PlanProofs ConvergeProofs Env TerminationProofs.

(* the context the pod phase of a fault-free, in-sync reconcile works in: claimed pods, current / update revision *)
Definition probe (hashes : list ((Z * Z) * string)) (w : world) : option (sset * rinfo * rinfo * list pod) :=
  match w_set w with
  | None => None
  | Some s =>
      let m := (adopt_orphan_revisions s ;;;
                x <- claim_pods s (w_pods w) None false ;;
                revs0 <- list_revisions s ;;
                y <- get_set_revisions hashes s (sort_revs revs0) ;;
                ret (fst x, y)) in
      match fst (m {| rs_api := w; rs_log := []; rs_n := 0; rs_faults := [] |}) with
      | Ok (claimed, (cur, upd, _)) =>
          Some (s, {| ri_name := r_name cur; ri_tmpl := r_tmpl cur |}, {| ri_name := r_name upd; ri_tmpl := r_tmpl upd |}, claimed)
      | _ => None
      end
  end.

(* the round of the full model: caches catch up, reconcile without faults, terminating pods finish, the others
   become Running and Ready *)
Definition env_round (hashes : list ((Z * Z) * string)) (w : world) : world :=
  let w1 := hw_api (hrun hashes {| hw_api := w; hw_cache := w |} [HRefresh; HReconcile []]) in
  let names := map p_name (w_pods w1) in
  let w2 := fold_left (fun a n => kubelet a n KGone) names w1 in
  fold_left (fun a n => kubelet a n KSettle) names w2.

(* wf, decided *)
Definition distinctb (pods : list pod) : bool :=
  forallb (fun p => forallb (fun q => negb (getOrdinal p =? getOrdinal q) || String.eqb (pod_digest p) (pod_digest q)) pods) pods.
Definition nodupb (l : list string) : bool :=
  (fix go (l : list string) := match l with [] => true | x :: t => negb (smemb x t) && go t end) l.
Definition wfb (s : sset) (cnt : Z) (slots : list Z) (pods : list pod) : bool :=
  distinctb pods
  && forallb (fun p => negb (isTerminating p) && isCreated p && settled_pod p) pods
  && forallb (fun p => negb (is_condemned cnt slots (getOrdinal p)) || negb (isFailed p || isSucceeded p)) pods
  && forallb (fun p => (0 <=? getOrdinal p) && (getOrdinal p <=? max_i32)) pods
  && forallb (fun p => String.eqb (p_name p) (pod_name (s_name s) (getOrdinal p))) pods.

(* 0 = outside the hypotheses of the theorem (skipped), 1 = the two rounds agree, 2 = they differ *)
Definition round_check (hashes : list ((Z * Z) * string)) (w : world) : Z :=
  match probe hashes w with
  | None => 0
  | Some (s, ci, ui, claimed) =>
      match s_replicas s with
      | None => 0
      | Some r =>
          let '(cnt, slots) := extend r (get_slots (s_slots s)) in
          if (0 <=? cnt) && (cnt <=? max_i32 + 1) && negb (s_deleting s) && nodupb (s_claims s)
             && match s_rolling s with Some (Some _) => true | _ => negb (String.eqb (s_strategy s) "RollingUpdate") end
             && negb (get_paused (s_pause s))
             && (Nat.eqb (length claimed) (length (w_pods w)))
             && wfb s cnt slots claimed
          then if list_eqb String.eqb (sort_strs (map pod_digest (w_pods (env_round hashes w))))
                                      (sort_strs (map pod_digest (round s ui cnt slots ci claimed)))
               then 1 else 2
          else 0
      end
  end.
Definition round_model (hashes : list ((Z * Z) * string)) (w : world) :=
  match probe hashes w with
  | Some (s, ci, ui, claimed) =>
      match s_replicas s with
      | Some r => let '(cnt, slots) := extend r (get_slots (s_slots s)) in
                  (sort_strs (map pod_digest (w_pods (env_round hashes w))), sort_strs (map pod_digest (round s ui cnt slots ci claimed)))
      | None => ([], [])
      end
  | None => ([], [])
  end.

Definition round_case := (list ((Z * Z) * string) * world)%type.
Definition round_ok (c : round_case) : bool := negb (round_check (fst c) (snd c) =? 2).
Definition round_compared (c : round_case) : bool := round_check (fst c) (snd c) =? 1.
