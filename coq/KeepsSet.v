(* KeepsSet.v — a reconcile changes the StatefulSet object of the API state in its status only (and its
   resourceVersion), for every API state, cache and fault oracle.  Same structure as sync_keeps_claims. *)
From ASTS Require Import Base Slots Names World Reconcile MonadProofs.

Definition status0 : status :=
  {| st_replicas := 0; st_ready := 0; st_current := 0; st_updated := 0; st_currev := ""; st_updrev := ""; st_obsgen := 0; st_coll := None |}.
Definition spec_of (o : option sset) : option sset := option_map (fun s => set_status s status0 0) o.
Definition spec_kept (w w' : world) : Prop := spec_of (w_set w) = spec_of (w_set w').
Lemma sk_refl w : spec_kept w w. Proof. reflexivity. Qed.
Lemma sk_trans a b c : spec_kept a b -> spec_kept b c -> spec_kept a c.
Proof. unfold spec_kept. congruence. Qed.

Ltac sk_call :=
  apply (keeps_call _ sk_refl);
  let Hap := fresh "Hap" in
  intros ? ? ? Hap;
  repeat match type of Hap with
         | context [match ?e with _ => _ end] => destruct e eqn:?
         | context [if ?e then _ else _] => destruct e
         end;
  cbv zeta in Hap; inversion Hap; subst; unfold spec_kept; cbn; try reflexivity;
  try (match goal with H : w_set _ = Some _ |- _ => rewrite H; reflexivity end).

Section SetKept.
Variable hashes : list ((Z * Z) * string).
Local Notation K := (keeps spec_kept).

Lemma sk_list_revisions s : K (list_revisions s).
Proof. unfold list_revisions, api_list_revs. kpsimp sk_refl sk_trans; sk_call. Qed.
Lemma sk_sync_all : forall l, K (sync_all l).
Proof. induction l as [|r t IH]; cbn [sync_all]; kpsimp sk_refl sk_trans; try apply IH; unfold api_put_rev; sk_call. Qed.
Lemma sk_adopt s : K (adopt_orphan_revisions s).
Proof.
  unfold adopt_orphan_revisions. kpsimp sk_refl sk_trans; try apply sk_list_revisions; try apply sk_sync_all;
    try (unfold api_get_set; sk_call); try (unfold api_adopt_rev; sk_call).
Qed.
Lemma sk_ucr : forall fuel clone n last, K (update_controller_revision fuel clone n last).
Proof.
  induction fuel as [|f IH]; intros; cbn [update_controller_revision]; kpsimp sk_refl sk_trans; try apply IH;
    try (unfold api_put_rev; sk_call); try (unfold api_get_rev; sk_call).
Qed.
Lemma sk_ccr : forall fuel s r coll, K (create_controller_revision hashes fuel s r coll).
Proof.
  induction fuel as [|f IH]; intros; cbn [create_controller_revision]; kpsimp sk_refl sk_trans; try apply IH;
    try (unfold api_create_rev; sk_call); try (unfold api_get_rev; sk_call).
Qed.
Lemma sk_gsr s revs : K (get_set_revisions hashes s revs).
Proof. unfold get_set_revisions. kpsimp sk_refl sk_trans; try apply sk_ucr; try apply sk_ccr. Qed.
Lemma sk_create_claims s cache ord : forall ts failed, K (create_claims s cache ord ts failed).
Proof.
  induction ts as [|t rest IH]; intros; cbn [create_claims]; kpsimp sk_refl sk_trans; try apply IH; unfold api_create_claim; sk_call.
Qed.
Lemma sk_create_pvcs s cache p : K (create_pvcs s cache p).
Proof. unfold create_pvcs. kpsimp sk_refl sk_trans; try apply sk_create_claims. Qed.
Lemma sk_usp s cache : forall fuel p last, K (update_stateful_pod fuel s cache p last).
Proof.
  induction fuel as [|f IH]; intros; cbn [update_stateful_pod]; kpsimp sk_refl sk_trans;
    try apply sk_create_claims; try apply sk_create_pvcs; try apply IH; try (unfold api_update_pod; sk_call).
Qed.
Lemma sk_exec_act s cache a : K (exec_act s cache a).
Proof.
  destruct a; cbn [exec_act].
  - unfold create_stateful_pod. kpsimp sk_refl sk_trans; try apply sk_create_claims; try apply sk_create_pvcs; try (unfold api_create_pod; sk_call).
  - unfold api_delete_pod. sk_call.
  - apply sk_usp.
Qed.
Lemma sk_usr s st : forall fuel last, K (update_status_retry fuel s st last).
Proof. induction fuel as [|f IH]; intros; cbn [update_status_retry]; kpsimp sk_refl sk_trans; try apply IH; unfold api_update_status; sk_call. Qed.
Lemma sk_claim_pods s : forall pods memo failed, K (claim_pods s pods memo failed).
Proof.
  induction pods as [|p t IH]; intros; cbn [claim_pods]; [apply (keeps_ret _ sk_refl)|].
  kpsimp sk_refl sk_trans; try apply IH; try (unfold api_patch_pod; sk_call);
    try (unfold can_adopt, api_get_set; kpsimp sk_refl sk_trans; sk_call).
Qed.
Lemma sk_uss s cache pods : K (update_stateful_set hashes s cache pods).
Proof.
  unfold update_stateful_set.
  apply (keeps_bind _ sk_trans); [apply sk_list_revisions|]. intros revs0.
  apply (keeps_bind _ sk_trans); [apply sk_gsr|]. intros [[cur upd] coll]. cbv zeta.
  destruct (plan_pods s _ _ coll pods) as [po|]; [|apply (keeps_panic _ sk_refl)].
  apply (keeps_bind _ sk_trans); [apply (keeps_forM _ sk_refl sk_trans); intros a; apply sk_exec_act|]. intros _.
  apply (keeps_bind _ sk_trans).
  - unfold update_set_status. destruct (inconsistent_status _ _); [apply sk_usr | apply (keeps_ret _ sk_refl)].
  - intros _. unfold truncate_history. destruct (s_rhl s); [|apply (keeps_panic _ sk_refl)].
    destruct (_ <=? _); [apply (keeps_ret _ sk_refl)|]. apply (keeps_forM _ sk_refl sk_trans). intros q. unfold api_delete_rev. sk_call.
Qed.
Theorem sync_keeps_spec cache : K (sync hashes cache).
Proof.
  unfold sync. destruct (w_set cache) as [s|]; [|apply (keeps_ret _ sk_refl)].
  destruct (get_paused (s_pause s)); [apply (keeps_ret _ sk_refl)|].
  destruct (s_selector s); [|apply (keeps_ret _ sk_refl)].
  apply (keeps_bind _ sk_trans); [apply sk_adopt|]. intros _.
  apply (keeps_bind _ sk_trans); [apply sk_claim_pods|]. intros x.
  destruct (snd x); [apply (keeps_fail _ sk_refl) | apply sk_uss].
Qed.
End SetKept.

(* for every API state, cache and fault oracle: the reconcile leaves the spec of the stored set alone *)
Theorem reconcile_keeps_spec hashes api cache faults o log w' :
  reconcile hashes api cache faults = (o, log, w') -> spec_of (w_set api) = spec_of (w_set w').
Proof.
  unfold reconcile. destruct (sync hashes cache _) as [r st] eqn:E. intros H. inversion H; subst.
  exact (sync_keeps_spec hashes cache _ _ _ E).
Qed.
