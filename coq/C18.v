(* C18 — Migration keeps pods running: revision identity equals the built-in controller's.
   Statements only.
   (a) byte identity of the revision data with what the built-in controller records is a statement about
   k8s.io/apimachinery's codecs: it is MODELLED AND DIFFERENTIALLY TESTED, NOT PROVED — props/c18.py compares,
   for generated valid PodTemplateSpecs, the bytes of the real getPatch on the converted set with the bytes of
   a reference encoder built on client-go's apps/v1 scheme (both directions of the conversion).
   (b) control part, proved below over the reconcile model: given (a), the revisions a migration leaves behind
   (orphans carrying the upgrade marker and no selector labels) are listed, and the update revision resolves
   to the existing one without any create; pods at that revision are not deleted. *)
From ASTS Require Import Base Slots Names World Reconcile ReconcileCheck MonadProofs PlanProofs ReconcileProofs RevisionProofs OwnershipProofs ExampleWorld.

(* (1) a listed revision that records the template => no ControllerRevision is created, for every API
   state and fault oracle *)
Theorem C18_existing_revision_is_reused :
  forall hashes s revs fresh_hash,
    hash_of hashes (s_tmpl s) (match st_coll (s_status s) with Some c => c | None => 0 end) = Some fresh_hash ->
    (exists r, In r revs /\ r_tmpl r = s_tmpl s /\ hash_num r = None) ->
    emits no_create (get_set_revisions hashes s revs).
Proof. exact gsr_no_create_when_equal_listed. Qed.
Print Assumptions C18_existing_revision_is_reused.

(* (2) pods of the desired set at the update revision are not deleted, whatever else is going on *)
Theorem C18_updated_pods_keep_running :
  forall s cur upd cnt slots pods p,
    0 <= cnt -> In p pods -> in_range cnt slots (getOrdinal p) = true ->
    (isFailed p || isSucceeded p) = false -> rev_is p upd = true ->
    ~ In (ADelete p) (plan_acts s cur upd cnt slots pods).
Proof. exact plan_keeps_good_pods. Qed.
Print Assumptions C18_updated_pods_keep_running.

(* (3) adoption of the marked revisions and of the orphaned pods happens only after a fresh GET *)
Theorem C18_adoption_after_fresh_get :
  forall hashes api cache faults o log w',
    reconcile hashes api cache faults = (o, log, w') ->
    forall pre n e post, log = pre ++ (CPatchRev n, e) :: post -> In (CGetSet, None) pre.
Proof. exact reconcile_rev_adoption_after_fresh_get. Qed.
Print Assumptions C18_adoption_after_fresh_get.

(* (4) a migrated world, concretely: two revisions left by the built-in controller (orphans, upgrade marker,
   selector labels removed), three orphaned pods at the newer one, status copied.  The first reconcile
   label-syncs and adopts both revisions, adopts the pods, creates NO revision and deletes NO pod; the second
   reconcile (caches refreshed with the result) issues no write at all. *)
Definition mig_rev (name : string) (n tmpl : Z) : rev :=
  {| r_name := name; r_revision := n; r_tmpl := tmpl; r_owner := None; r_match := false; r_marker := Some "web"%string;
     r_hash := Some name; r_created := 0; r_labels_nil := false |}.
Definition mig_pod (i : Z) : pod :=
  let p := ex_pod i "web-b2" "Running" true in
  {| p_name := p_name p; p_match := true; p_owner := None; p_phase := p_phase p; p_ready := true; p_term := false;
     p_rev := p_rev p; p_namelabel := p_namelabel p; p_vols := p_vols p; p_tmpl := 2 |}.
Definition mig_world : world :=
  ex_world (ex_set 3 None "OrderedReady" 2 0 (ex_status 3 "web-b2" "web-b2")) [mig_pod 0; mig_pod 1; mig_pod 2]
           [mig_rev "web-b1" 1 1; mig_rev "web-b2" 2 2].
Definition mig_first := reconcile ex_hashes mig_world mig_world [].
Definition mig_after : world := snd mig_first.
Definition mig_second := reconcile ex_hashes mig_after mig_after [].

Example C18_ex_first_reconcile_adopts_and_creates_nothing :
  fst (fst mig_first) = OOk
  /\ map (fun e => shape_of (fst e)) (filter pi_write (snd (fst mig_first)))
     = ["update controllerrevisions web-b1"; "update controllerrevisions web-b2"; "patch controllerrevisions web-b1";
        "patch controllerrevisions web-b2"; "patch pods web-0"; "patch pods web-1"; "patch pods web-2"]%string.
Proof. vm_compute. split; reflexivity. Qed.
Example C18_ex_second_reconcile_is_quiet :
  fst (fst mig_second) = OOk /\ filter pi_write (snd (fst mig_second)) = [].
Proof. vm_compute. split; reflexivity. Qed.

(* (5) OPEN FINDING C18-pre-gc-collision-count, stated on the model: "create no new revision" does not hold for a reconcile
   that runs between helper.Upgrade and the garbage collector's orphaning of the built-in set's revisions (they still carry
   the built-in set's controller reference, so they are not listed) when the copied collision count is 1 or more.  The
   real controller does the same (props/c18.py, pre-GC family; after the orphaning the duplicate becomes the update
   revision and pods are deleted). *)
(* refuted in the window before the garbage collector has orphaned the built-in set's dependents *)
Definition stale_owner : owner := {| o_kind := "StatefulSet"; o_name := "web"; o_uid := "u0" |}.
Definition pg_rev : rev :=
  {| r_name := "web-h1"; r_revision := 1; r_tmpl := 1; r_owner := Some stale_owner; r_match := false; r_marker := Some "web"%string;
     r_hash := Some "h1"%string; r_created := 0; r_labels_nil := false |}.
Definition pg_pod (i : Z) : pod :=
  let p := ex_pod i "web-h1" "Running" true in
  {| p_name := p_name p; p_match := true; p_owner := Some stale_owner; p_phase := p_phase p; p_ready := true; p_term := false;
     p_rev := p_rev p; p_namelabel := p_namelabel p; p_vols := p_vols p; p_tmpl := 1 |}.
Definition pg_status (coll : Z) : status :=
  let st := ex_status 3 "web-h1" "web-h1" in
  {| st_replicas := st_replicas st; st_ready := st_ready st; st_current := st_current st; st_updated := st_updated st;
     st_currev := st_currev st; st_updrev := st_updrev st; st_obsgen := st_obsgen st; st_coll := Some coll |}.
Definition pg_world (coll : Z) : world :=
  ex_world (ex_set 3 None "OrderedReady" 1 0 (pg_status coll)) [pg_pod 0; pg_pod 1; pg_pod 2] [pg_rev].
Definition pg_writes (coll : Z) : list string :=
  map (fun e => shape_of (fst e)) (filter pi_rev_write (snd (fst (reconcile ex_hashes (pg_world coll) (pg_world coll) [])))).
Example C18_pre_gc_collision_refuted :
  (* collision count 0: the name is taken, the create is answered AlreadyExists, the revision is read and re-used *)
  pg_writes 0 = ["create controllerrevisions web-h1"]%string
  /\ In (CCreateRev "web-h1" 1 1, Some EExists) (snd (fst (reconcile ex_hashes (pg_world 0) (pg_world 0) [])))
  (* collision count 1: another name, the create succeeds, a second revision records the same template *)
  /\ pg_writes 1 = ["create controllerrevisions web-h1b"]%string
  /\ In (CCreateRev "web-h1b" 1 1, None) (snd (fst (reconcile ex_hashes (pg_world 1) (pg_world 1) [])))
  /\ map r_name (w_revs (snd (reconcile ex_hashes (pg_world 1) (pg_world 1) []))) = ["web-h1"; "web-h1b"]%string.
Proof. vm_compute. repeat split; auto 10. Qed.
