(* ConvertPinned.v — pinned copy of the schema trees that props/c19.py regenerates from the Go types on every
   run (build/gen/SchemaGen.v).  Used for the non-vacuity examples of C19.v and as the fall-back when the
   translator leaves its fragment; the run reports when the generated text differs from this copy. *)
From ASTS Require Import Base Json Convert.
Definition schema_as : schema :=
  (SStruct [("kind"%string, true, (SScalar KString));
  ("apiVersion"%string, true, (SScalar KString));
  ("metadata"%string, true, (SOpaque "k8s.io/apimachinery/pkg/apis/meta/v1.ObjectMeta"%string (JObj [("creationTimestamp"%string, JNull)])));
  ("spec"%string, true, (SStruct [("replicas"%string, true, (SPtr (SScalar (KInt (-2147483648) 2147483647))));
  ("selector"%string, false, (SPtr (SOpaque "k8s.io/apimachinery/pkg/apis/meta/v1.LabelSelector"%string (JObj []))));
  ("template"%string, false, (SOpaque "k8s.io/api/core/v1.PodTemplateSpec"%string (JObj [("metadata"%string, (JObj [("creationTimestamp"%string, JNull)])); ("spec"%string, (JObj [("containers"%string, JNull)]))])));
  ("volumeClaimTemplates"%string, true, (SSlice (SOpaque "k8s.io/api/core/v1.PersistentVolumeClaim"%string (JObj [("metadata"%string, (JObj [("creationTimestamp"%string, JNull)])); ("spec"%string, (JObj [("resources"%string, (JObj []))])); ("status"%string, (JObj []))]))));
  ("serviceName"%string, false, (SScalar KString));
  ("podManagementPolicy"%string, true, (SScalar KString));
  ("updateStrategy"%string, true, (SStruct [("type"%string, true, (SScalar KString));
  ("rollingUpdate"%string, true, (SPtr (SStruct [("partition"%string, true, (SPtr (SScalar (KInt (-2147483648) 2147483647))))])))]));
  ("revisionHistoryLimit"%string, true, (SPtr (SScalar (KInt (-2147483648) 2147483647))))]));
  ("status"%string, true, (SStruct [("observedGeneration"%string, true, (SScalar (KInt (-9223372036854775808) 9223372036854775807)));
  ("replicas"%string, false, (SScalar (KInt (-2147483648) 2147483647)));
  ("readyReplicas"%string, true, (SScalar (KInt (-2147483648) 2147483647)));
  ("currentReplicas"%string, true, (SScalar (KInt (-2147483648) 2147483647)));
  ("updatedReplicas"%string, true, (SScalar (KInt (-2147483648) 2147483647)));
  ("currentRevision"%string, true, (SScalar KString));
  ("updateRevision"%string, true, (SScalar KString));
  ("collisionCount"%string, true, (SPtr (SScalar (KInt (-2147483648) 2147483647))));
  ("conditions"%string, true, (SSlice (SStruct [("type"%string, false, (SScalar KString));
  ("status"%string, false, (SScalar KString));
  ("lastTransitionTime"%string, true, (SOpaque "k8s.io/apimachinery/pkg/apis/meta/v1.Time"%string JNull));
  ("reason"%string, true, (SScalar KString));
  ("message"%string, true, (SScalar KString))])))]))]).
Definition schema_builtin : schema :=
  (SStruct [("kind"%string, true, (SScalar KString));
  ("apiVersion"%string, true, (SScalar KString));
  ("metadata"%string, true, (SOpaque "k8s.io/apimachinery/pkg/apis/meta/v1.ObjectMeta"%string (JObj [("creationTimestamp"%string, JNull)])));
  ("spec"%string, true, (SStruct [("replicas"%string, true, (SPtr (SScalar (KInt (-2147483648) 2147483647))));
  ("selector"%string, false, (SPtr (SOpaque "k8s.io/apimachinery/pkg/apis/meta/v1.LabelSelector"%string (JObj []))));
  ("template"%string, false, (SOpaque "k8s.io/api/core/v1.PodTemplateSpec"%string (JObj [("metadata"%string, (JObj [("creationTimestamp"%string, JNull)])); ("spec"%string, (JObj [("containers"%string, JNull)]))])));
  ("volumeClaimTemplates"%string, true, (SSlice (SOpaque "k8s.io/api/core/v1.PersistentVolumeClaim"%string (JObj [("metadata"%string, (JObj [("creationTimestamp"%string, JNull)])); ("spec"%string, (JObj [("resources"%string, (JObj []))])); ("status"%string, (JObj []))]))));
  ("serviceName"%string, false, (SScalar KString));
  ("podManagementPolicy"%string, true, (SScalar KString));
  ("updateStrategy"%string, true, (SStruct [("type"%string, true, (SScalar KString));
  ("rollingUpdate"%string, true, (SPtr (SStruct [("partition"%string, true, (SPtr (SScalar (KInt (-2147483648) 2147483647))));
  ("maxUnavailable"%string, true, (SPtr (SOpaque "k8s.io/apimachinery/pkg/util/intstr.IntOrString"%string (JNum 0))))])))]));
  ("revisionHistoryLimit"%string, true, (SPtr (SScalar (KInt (-2147483648) 2147483647))));
  ("minReadySeconds"%string, true, (SScalar (KInt (-2147483648) 2147483647)));
  ("persistentVolumeClaimRetentionPolicy"%string, true, (SPtr (SStruct [("whenDeleted"%string, true, (SScalar KString));
  ("whenScaled"%string, true, (SScalar KString))])));
  ("ordinals"%string, true, (SPtr (SStruct [("start"%string, false, (SScalar (KInt (-2147483648) 2147483647)))])))]));
  ("status"%string, true, (SStruct [("observedGeneration"%string, true, (SScalar (KInt (-9223372036854775808) 9223372036854775807)));
  ("replicas"%string, false, (SScalar (KInt (-2147483648) 2147483647)));
  ("readyReplicas"%string, true, (SScalar (KInt (-2147483648) 2147483647)));
  ("currentReplicas"%string, true, (SScalar (KInt (-2147483648) 2147483647)));
  ("updatedReplicas"%string, true, (SScalar (KInt (-2147483648) 2147483647)));
  ("currentRevision"%string, true, (SScalar KString));
  ("updateRevision"%string, true, (SScalar KString));
  ("collisionCount"%string, true, (SPtr (SScalar (KInt (-2147483648) 2147483647))));
  ("conditions"%string, true, (SSlice (SStruct [("type"%string, false, (SScalar KString));
  ("status"%string, false, (SScalar KString));
  ("lastTransitionTime"%string, true, (SOpaque "k8s.io/apimachinery/pkg/apis/meta/v1.Time"%string JNull));
  ("reason"%string, true, (SScalar KString));
  ("message"%string, true, (SScalar KString))])));
  ("availableReplicas"%string, false, (SScalar (KInt (-2147483648) 2147483647)))]))]).
Definition schema_as_list : schema :=
  (SStruct [("kind"%string, true, (SScalar KString));
  ("apiVersion"%string, true, (SScalar KString));
  ("metadata"%string, true, (SOpaque "k8s.io/apimachinery/pkg/apis/meta/v1.ListMeta"%string (JObj [])));
  ("items"%string, false, (SSlice (SStruct [("kind"%string, true, (SScalar KString));
  ("apiVersion"%string, true, (SScalar KString));
  ("metadata"%string, true, (SOpaque "k8s.io/apimachinery/pkg/apis/meta/v1.ObjectMeta"%string (JObj [("creationTimestamp"%string, JNull)])));
  ("spec"%string, true, (SStruct [("replicas"%string, true, (SPtr (SScalar (KInt (-2147483648) 2147483647))));
  ("selector"%string, false, (SPtr (SOpaque "k8s.io/apimachinery/pkg/apis/meta/v1.LabelSelector"%string (JObj []))));
  ("template"%string, false, (SOpaque "k8s.io/api/core/v1.PodTemplateSpec"%string (JObj [("metadata"%string, (JObj [("creationTimestamp"%string, JNull)])); ("spec"%string, (JObj [("containers"%string, JNull)]))])));
  ("volumeClaimTemplates"%string, true, (SSlice (SOpaque "k8s.io/api/core/v1.PersistentVolumeClaim"%string (JObj [("metadata"%string, (JObj [("creationTimestamp"%string, JNull)])); ("spec"%string, (JObj [("resources"%string, (JObj []))])); ("status"%string, (JObj []))]))));
  ("serviceName"%string, false, (SScalar KString));
  ("podManagementPolicy"%string, true, (SScalar KString));
  ("updateStrategy"%string, true, (SStruct [("type"%string, true, (SScalar KString));
  ("rollingUpdate"%string, true, (SPtr (SStruct [("partition"%string, true, (SPtr (SScalar (KInt (-2147483648) 2147483647))))])))]));
  ("revisionHistoryLimit"%string, true, (SPtr (SScalar (KInt (-2147483648) 2147483647))))]));
  ("status"%string, true, (SStruct [("observedGeneration"%string, true, (SScalar (KInt (-9223372036854775808) 9223372036854775807)));
  ("replicas"%string, false, (SScalar (KInt (-2147483648) 2147483647)));
  ("readyReplicas"%string, true, (SScalar (KInt (-2147483648) 2147483647)));
  ("currentReplicas"%string, true, (SScalar (KInt (-2147483648) 2147483647)));
  ("updatedReplicas"%string, true, (SScalar (KInt (-2147483648) 2147483647)));
  ("currentRevision"%string, true, (SScalar KString));
  ("updateRevision"%string, true, (SScalar KString));
  ("collisionCount"%string, true, (SPtr (SScalar (KInt (-2147483648) 2147483647))));
  ("conditions"%string, true, (SSlice (SStruct [("type"%string, false, (SScalar KString));
  ("status"%string, false, (SScalar KString));
  ("lastTransitionTime"%string, true, (SOpaque "k8s.io/apimachinery/pkg/apis/meta/v1.Time"%string JNull));
  ("reason"%string, true, (SScalar KString));
  ("message"%string, true, (SScalar KString))])))]))])))]).
Definition schema_builtin_list : schema :=
  (SStruct [("kind"%string, true, (SScalar KString));
  ("apiVersion"%string, true, (SScalar KString));
  ("metadata"%string, true, (SOpaque "k8s.io/apimachinery/pkg/apis/meta/v1.ListMeta"%string (JObj [])));
  ("items"%string, false, (SSlice (SStruct [("kind"%string, true, (SScalar KString));
  ("apiVersion"%string, true, (SScalar KString));
  ("metadata"%string, true, (SOpaque "k8s.io/apimachinery/pkg/apis/meta/v1.ObjectMeta"%string (JObj [("creationTimestamp"%string, JNull)])));
  ("spec"%string, true, (SStruct [("replicas"%string, true, (SPtr (SScalar (KInt (-2147483648) 2147483647))));
  ("selector"%string, false, (SPtr (SOpaque "k8s.io/apimachinery/pkg/apis/meta/v1.LabelSelector"%string (JObj []))));
  ("template"%string, false, (SOpaque "k8s.io/api/core/v1.PodTemplateSpec"%string (JObj [("metadata"%string, (JObj [("creationTimestamp"%string, JNull)])); ("spec"%string, (JObj [("containers"%string, JNull)]))])));
  ("volumeClaimTemplates"%string, true, (SSlice (SOpaque "k8s.io/api/core/v1.PersistentVolumeClaim"%string (JObj [("metadata"%string, (JObj [("creationTimestamp"%string, JNull)])); ("spec"%string, (JObj [("resources"%string, (JObj []))])); ("status"%string, (JObj []))]))));
  ("serviceName"%string, false, (SScalar KString));
  ("podManagementPolicy"%string, true, (SScalar KString));
  ("updateStrategy"%string, true, (SStruct [("type"%string, true, (SScalar KString));
  ("rollingUpdate"%string, true, (SPtr (SStruct [("partition"%string, true, (SPtr (SScalar (KInt (-2147483648) 2147483647))));
  ("maxUnavailable"%string, true, (SPtr (SOpaque "k8s.io/apimachinery/pkg/util/intstr.IntOrString"%string (JNum 0))))])))]));
  ("revisionHistoryLimit"%string, true, (SPtr (SScalar (KInt (-2147483648) 2147483647))));
  ("minReadySeconds"%string, true, (SScalar (KInt (-2147483648) 2147483647)));
  ("persistentVolumeClaimRetentionPolicy"%string, true, (SPtr (SStruct [("whenDeleted"%string, true, (SScalar KString));
  ("whenScaled"%string, true, (SScalar KString))])));
  ("ordinals"%string, true, (SPtr (SStruct [("start"%string, false, (SScalar (KInt (-2147483648) 2147483647)))])))]));
  ("status"%string, true, (SStruct [("observedGeneration"%string, true, (SScalar (KInt (-9223372036854775808) 9223372036854775807)));
  ("replicas"%string, false, (SScalar (KInt (-2147483648) 2147483647)));
  ("readyReplicas"%string, true, (SScalar (KInt (-2147483648) 2147483647)));
  ("currentReplicas"%string, true, (SScalar (KInt (-2147483648) 2147483647)));
  ("updatedReplicas"%string, true, (SScalar (KInt (-2147483648) 2147483647)));
  ("currentRevision"%string, true, (SScalar KString));
  ("updateRevision"%string, true, (SScalar KString));
  ("collisionCount"%string, true, (SPtr (SScalar (KInt (-2147483648) 2147483647))));
  ("conditions"%string, true, (SSlice (SStruct [("type"%string, false, (SScalar KString));
  ("status"%string, false, (SScalar KString));
  ("lastTransitionTime"%string, true, (SOpaque "k8s.io/apimachinery/pkg/apis/meta/v1.Time"%string JNull));
  ("reason"%string, true, (SScalar KString));
  ("message"%string, true, (SScalar KString))])));
  ("availableReplicas"%string, false, (SScalar (KInt (-2147483648) 2147483647)))]))])))]).
