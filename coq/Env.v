(* Env.v — the environment of the controller for histories (C02, C09 recovery, C11 resume): informer caches
   that lag, the kubelet, user edits, reconciles with faults.  Definitions only. *)
From ASTS Require Import Base Slots Names World Reconcile ReconcileCheck.

Inductive kev := KRun | KReady | KUnready | KFail | KSucceed | KGone | KSettle.
Inductive edit := EReplicas (n : Z) | ESlots (v : option string) | EPause (v : option string) | ETmpl (k : Z)
                | EPartition (p : option Z) | EPolicy (v : string) | EStrategy (v : string) | EDelete.
Inductive hop :=
| HReconcile (faults : list fault)
| HRefresh                                   (* every cache catches up *)
| HRefreshPods (only : list string)          (* the pod cache catches up for these names only *)
| HRefreshSet
| HKubelet (pod : string) (ev : kev)
| HEdit (e : edit).

Record hworld := { hw_api : world; hw_cache : world }.

Definition set_ready (p : pod) (ph : string) (rd : bool) : pod :=
  {| p_name := p_name p; p_match := p_match p; p_owner := p_owner p; p_phase := ph; p_ready := rd; p_term := p_term p;
     p_rev := p_rev p; p_namelabel := p_namelabel p; p_vols := p_vols p; p_tmpl := p_tmpl p |}.

Definition kubelet (w : world) (n : string) (ev : kev) : world :=
  match find_pod n (w_pods w) with
  | None => w
  | Some p =>
      match ev with
      | KRun => with_pods w (replace_pod (set_ready p "Running" (p_ready p)) (w_pods w))
      | KReady => with_pods w (replace_pod (set_ready p "Running" true) (w_pods w))
      | KUnready => with_pods w (replace_pod (set_ready p (p_phase p) false) (w_pods w))
      | KFail => with_pods w (replace_pod (set_ready p "Failed" false) (w_pods w))
      | KSucceed => with_pods w (replace_pod (set_ready p "Succeeded" false) (w_pods w))
      | KGone => if p_term p then with_pods w (remove_pod n (w_pods w)) else w
      | KSettle => if p_term p || isFailed p || isSucceeded p then w
                   else with_pods w (replace_pod (set_ready p "Running" true) (w_pods w))
      end
  end.

Definition bump (s : sset) (spec_edit : bool) : sset :=
  {| s_name := s_name s; s_uid := s_uid s; s_gen := if spec_edit then s_gen s + 1 else s_gen s; s_deleting := s_deleting s;
     s_slots := s_slots s; s_pause := s_pause s; s_replicas := s_replicas s; s_selector := s_selector s; s_policy := s_policy s;
     s_strategy := s_strategy s; s_rolling := s_rolling s; s_tmpl := s_tmpl s; s_claims := s_claims s; s_service := s_service s;
     s_rhl := s_rhl s; s_status := s_status s; s_rv := s_rv s + 1 |}.
Definition apply_edit (s : sset) (e : edit) : sset :=
  let b := bump s (match e with ESlots _ | EPause _ | EDelete => false | _ => true end) in
  {| s_name := s_name b; s_uid := s_uid b; s_gen := s_gen b;
     s_deleting := match e with EDelete => true | _ => s_deleting b end;
     s_slots := match e with ESlots v => v | _ => s_slots b end;
     s_pause := match e with EPause v => v | _ => s_pause b end;
     s_replicas := match e with EReplicas n => Some n | _ => s_replicas b end;
     s_selector := s_selector b;
     s_policy := match e with EPolicy v => v | _ => s_policy b end;
     s_strategy := match e with EStrategy v => v | _ => s_strategy b end;
     s_rolling := match e with EPartition None => None | EPartition (Some p) => Some (Some p) | _ => s_rolling b end;
     s_tmpl := match e with ETmpl k => k | _ => s_tmpl b end;
     s_claims := s_claims b; s_service := s_service b; s_rhl := s_rhl b; s_status := s_status b; s_rv := s_rv b |}.

Definition refresh_pods (api cache : world) (only : list string) : world :=
  let keep := filter (fun p => negb (smemb (p_name p) only)) (w_pods cache) in
  let fresh := filter (fun p => smemb (p_name p) only) (w_pods api) in
  with_pods cache (keep ++ fresh).

Definition hstep (hashes : list ((Z * Z) * string)) (w : hworld) (op : hop) : hworld * option (outcome * list entry) :=
  match op with
  | HReconcile f =>
      let '(o, l, api') := reconcile hashes (hw_api w) (hw_cache w) f in
      ({| hw_api := api'; hw_cache := hw_cache w |}, Some (o, l))
  | HRefresh =>
      ({| hw_api := hw_api w;
          hw_cache := {| w_set := w_set (hw_api w); w_pods := w_pods (hw_api w); w_revs := []; w_claims := w_claims (hw_api w) |} |}, None)
  | HRefreshPods only => ({| hw_api := hw_api w; hw_cache := refresh_pods (hw_api w) (hw_cache w) only |}, None)
  | HRefreshSet => ({| hw_api := hw_api w; hw_cache := with_set (hw_cache w) (w_set (hw_api w)) |}, None)
  | HKubelet n ev => ({| hw_api := kubelet (hw_api w) n ev; hw_cache := hw_cache w |}, None)
  | HEdit e =>
      ({| hw_api := match w_set (hw_api w) with Some s => with_set (hw_api w) (Some (apply_edit s e)) | None => hw_api w end;
          hw_cache := hw_cache w |}, None)
  end.

Fixpoint hrun (hashes : list ((Z * Z) * string)) (w : hworld) (ops : list hop) : hworld :=
  match ops with
  | [] => w
  | op :: t => hrun hashes (fst (hstep hashes w op)) t
  end.

(* ---- correspondence: after every op the API side must look like the observed dump ---- *)
Definition set_digest_full (s : option sset) : string :=
  match s with
  | None => "set ~"
  | Some x => set_digest s +++ " gen" +++ dec (s_gen x) +++ " r" +++ match s_replicas x with Some r => dec r | None => "~" end
              +++ " sl" +++ ostr (s_slots x) +++ " pa" +++ ostr (s_pause x) +++ " tm" +++ dec (s_tmpl x)
  end.
Definition hdigest (w : world) : list string :=
  set_digest_full (w_set w) :: List.tl (world_digest w).

Record hist_case := { hc_hashes : list ((Z * Z) * string); hc_start : hworld; hc_ops : list (hop * world) }.
(* index of the first op after which model and implementation differ (None = agree throughout) *)
Fixpoint hist_first_diff (hashes : list ((Z * Z) * string)) (w : hworld) (ops : list (hop * world)) (i : nat) : option nat :=
  match ops with
  | [] => None
  | (op, obs) :: t =>
      let w' := fst (hstep hashes w op) in
      if list_eqb String.eqb (hdigest (hw_api w')) (hdigest obs) then hist_first_diff hashes w' t (S i) else Some i
  end.
Definition hist_check (c : hist_case) : bool :=
  match hist_first_diff (hc_hashes c) (hc_start c) (hc_ops c) 0 with None => true | Some _ => false end.
Definition hist_model (c : hist_case) :=
  match hist_first_diff (hc_hashes c) (hc_start c) (hc_ops c) 0 with
  | None => (None, [])
  | Some i => (Some i, hdigest (hw_api (hrun (hc_hashes c) (hc_start c) (map fst (firstn (S i) (hc_ops c))))))
  end.
