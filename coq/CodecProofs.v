(* CodecProofs.v — lemmas about Codec.v: decimal printer / parse_slots round trip, association
   list frame lemmas, set/add/pause read-back.  The property statements live in C19.v. *)
From ASTS Require Import Base Slots SlotsProofs Codec.
From Coq Require Import Sorting.Sorted.
Open Scope string_scope.
Open Scope Z_scope.

(* ====================================================================================== *)
(* 1. digits                                                                              *)
(* ====================================================================================== *)
Lemma digit_cases d : 0 <= d < 10 ->
  d = 0 \/ d = 1 \/ d = 2 \/ d = 3 \/ d = 4 \/ d = 5 \/ d = 6 \/ d = 7 \/ d = 8 \/ d = 9.
Proof. lia. Qed.

Ltac digits d H :=
  destruct (digit_cases d H) as [->|[->|[->|[->|[->|[->|[->|[->|[->| ->]]]]]]]]].

Lemma is_digit_digit_char d : 0 <= d < 10 -> is_digit (digit_char d) = true.
Proof. intros H. digits d H; reflexivity. Qed.
Lemma digit_val_digit_char d : 0 <= d < 10 -> digit_val (digit_char d) = d.
Proof. intros H. digits d H; reflexivity. Qed.
Lemma digit_char_zero d : 0 <= d < 10 -> d <> 0 -> Ascii.eqb (digit_char d) "0"%char = false.
Proof. intros H N. digits d H; try reflexivity. contradiction. Qed.

Lemma string_app_assoc (a b c : string) : (a ++ b) ++ c = a ++ (b ++ c).
Proof. induction a as [|x a IH]; cbn; [reflexivity | rewrite IH; reflexivity]. Qed.
Lemma string_length_app (a b : string) :
  String.length (a ++ b) = (String.length a + String.length b)%nat.
Proof. induction a as [|x a IH]; cbn; [reflexivity | rewrite IH; reflexivity]. Qed.

Lemma dec_pos_fuel_app f : forall n acc r,
  dec_pos_fuel f n acc ++ r = dec_pos_fuel f n (acc ++ r).
Proof.
  induction f as [|f IH]; intros n acc r; cbn [dec_pos_fuel]; [reflexivity|].
  destruct (n <? 10); [reflexivity|]. rewrite IH. reflexivity.
Qed.

Lemma pow10_succ f : 10 ^ Z.of_nat (S f) = 10 * 10 ^ Z.of_nat f.
Proof. rewrite Nat2Z.inj_succ, Z.pow_succ_r by lia. reflexivity. Qed.

(* reading back what the printer wrote: the digits of n are consumed and folded into the
   accumulator; d is the number of digits *)
Lemma read_digits_dec f : forall n acc, (0 < f)%nat -> 0 <= n < 10 ^ Z.of_nat f ->
  exists d, (1 <= d)%nat /\ (n < 10 -> d = 1%nat) /\
    forall a k, read_digits (dec_pos_fuel f n acc) a k
                = read_digits acc (a * 10 ^ Z.of_nat d + n) (k + d)%nat.
Proof.
  induction f as [|f IH]; intros n acc Hf Hn; [lia|].
  cbn [dec_pos_fuel]. rewrite pow10_succ in Hn.
  assert (Hm : 0 <= n mod 10 < 10) by (apply Z.mod_pos_bound; lia).
  destruct (Z.ltb_spec n 10) as [Hlt|Hge].
  - exists 1%nat. split; [lia|]. split; [reflexivity|]. intros a k.
    cbn [read_digits]. rewrite is_digit_digit_char by exact Hm. rewrite digit_val_digit_char by exact Hm.
    rewrite Z.mod_small by lia. change (10 ^ Z.of_nat 1) with 10. f_equal; lia.
  - assert (Hq : 1 <= n / 10 < 10 ^ Z.of_nat f).
    { split; [apply Z.div_le_lower_bound; lia | apply Z.div_lt_upper_bound; lia]. }
    assert (Hf' : (0 < f)%nat).
    { destruct f; [|lia]. cbn in Hq. lia. }
    destruct (IH (n / 10) (String (digit_char (n mod 10)) acc) Hf' ltac:(lia)) as (d & Hd1 & _ & Hrd).
    exists (S d). split; [lia|]. split; [lia|]. intros a k.
    rewrite Hrd. cbn [read_digits].
    rewrite is_digit_digit_char by exact Hm. rewrite digit_val_digit_char by exact Hm.
    rewrite pow10_succ. f_equal; [|lia].
    pose proof (Z.div_mod n 10 ltac:(lia)) as E.
    set (P := 10 ^ Z.of_nat d). set (q := n / 10) in *. set (r := n mod 10) in *.
    rewrite E. ring.
Qed.

(* the first character written is a digit, and it is 0 only for the number 0 *)
Lemma dec_first f : forall n acc, (0 < f)%nat -> 0 <= n < 10 ^ Z.of_nat f ->
  exists d r, 0 <= d < 10 /\ dec_pos_fuel f n acc = String (digit_char d) r /\ (d = 0 -> n = 0).
Proof.
  induction f as [|f IH]; intros n acc Hf Hn; [lia|].
  cbn [dec_pos_fuel]. rewrite pow10_succ in Hn.
  assert (Hm : 0 <= n mod 10 < 10) by (apply Z.mod_pos_bound; lia).
  destruct (Z.ltb_spec n 10) as [Hlt|Hge].
  - exists (n mod 10), acc. split; [exact Hm|]. split; [reflexivity|].
    rewrite Z.mod_small by lia. auto.
  - assert (Hq : 1 <= n / 10 < 10 ^ Z.of_nat f).
    { split; [apply Z.div_le_lower_bound; lia | apply Z.div_lt_upper_bound; lia]. }
    assert (Hf' : (0 < f)%nat).
    { destruct f; [|lia]. cbn in Hq. lia. }
    destruct (IH (n / 10) (String (digit_char (n mod 10)) acc) Hf' ltac:(lia)) as (d & r & Hd & E & H0).
    exists d, r. split; [exact Hd|]. split; [exact E|]. intros ->. specialize (H0 eq_refl). lia.
Qed.

(* ====================================================================================== *)
(* 2. one element                                                                         *)
(* ====================================================================================== *)
(* what follows an element in the printed list *)
Definition sep (rest : string) : Prop :=
  exists r, rest = String ","%char r \/ rest = String "]"%char r.

Lemma read_digits_stop rest a k : sep rest -> read_digits rest a k = (a, k, rest).
Proof. intros [r [->| ->]]; reflexivity. Qed.

(* the part of read_int after the optional sign *)
Definition read_unsigned (neg : bool) (s1 : string) : option (Z * string) :=
  match s1 with
  | String c _ =>
      if is_digit c then
        let '(v, n, rest) := read_digits s1 0 0%nat in
        if (Ascii.eqb c "0"%char) && negb (Nat.eqb n 1) then None
        else if starts_with "."%char rest || starts_with "e"%char rest || starts_with "E"%char rest
        then None
        else let z := if neg then - v else v in
             if in_i32 z then Some (z, rest) else None
      else None
  | EmptyString => None
  end.

Lemma read_int_minus t : read_int (String "-"%char t) = read_unsigned true t.
Proof. reflexivity. Qed.
Lemma read_int_digit d r : 0 <= d < 10 ->
  read_int (String (digit_char d) r) = read_unsigned false (String (digit_char d) r).
Proof. intros H. digits d H; reflexivity. Qed.

Definition pow20 : Z := 100000000000000000000.
Lemma pow20_eq : 10 ^ Z.of_nat 20 = pow20.
Proof. reflexivity. Qed.

Lemma read_unsigned_dec neg m rest : 0 <= m < pow20 -> sep rest ->
  read_unsigned neg (dec_pos_fuel 20 m rest)
  = let z := if neg then - m else m in if in_i32 z then Some (z, rest) else None.
Proof.
  intros Hm Hsep. rewrite <- pow20_eq in Hm.
  destruct (dec_first 20 m rest ltac:(lia) Hm) as (d & r & Hd & E & H0).
  destruct (read_digits_dec 20 m rest ltac:(lia) Hm) as (k & Hk1 & Hk2 & Hrd).
  unfold read_unsigned. rewrite E. cbv beta iota.
  rewrite is_digit_digit_char by exact Hd.
  rewrite <- E, Hrd, (read_digits_stop _ _ _ Hsep). cbv beta iota.
  replace (Ascii.eqb (digit_char d) "0"%char && negb (Nat.eqb (0 + k) 1)) with false.
  2:{ destruct (Z.eq_dec d 0) as [->|Hne].
      - rewrite (Hk2 ltac:(specialize (H0 eq_refl); lia)). reflexivity.
      - rewrite (digit_char_zero d Hd Hne). reflexivity. }
  replace (starts_with "."%char rest || starts_with "e"%char rest || starts_with "E"%char rest) with false.
  2:{ destruct Hsep as [r' [->| ->]]; reflexivity. }
  cbv zeta. replace (0 * 10 ^ Z.of_nat k + m) with m by lia. reflexivity.
Qed.

(* the characters a printed integer can start with *)
Definition head_chars : list ascii :=
  ["-"; "0"; "1"; "2"; "3"; "4"; "5"; "6"; "7"; "8"; "9"]%char.

Lemma in_i32_bounds z : in_i32 z = true -> -2147483648 <= z <= 2147483647.
Proof.
  unfold in_i32, min_i32, max_i32. intros H. apply andb_true_iff in H. destruct H as [H1 H2].
  apply Z.leb_le in H1. apply Z.leb_le in H2. lia.
Qed.

Lemma dec_head z : in_i32 z = true -> exists c r, dec z = String c r /\ In c head_chars.
Proof.
  intros Hz. apply in_i32_bounds in Hz. unfold dec, dec_nonneg.
  destruct (Z.ltb_spec z 0) as [Hneg|Hpos].
  - eexists _, _. split; [reflexivity|]. left; reflexivity.
  - destruct (dec_first 20 z EmptyString ltac:(lia)) as (d & r & Hd & E & _).
    { rewrite pow20_eq. unfold pow20. lia. }
    exists (digit_char d), r. split; [exact E|]. right.
    digits d Hd; cbn; tauto.
Qed.

Lemma read_int_dec z rest : in_i32 z = true -> sep rest ->
  read_int (dec z ++ rest) = Some (z, rest).
Proof.
  intros Hz Hsep. pose proof (in_i32_bounds z Hz) as Hb. unfold dec, dec_nonneg.
  destruct (Z.ltb_spec z 0) as [Hneg|Hpos].
  - cbn [append]. rewrite read_int_minus, dec_pos_fuel_app. cbn [append].
    rewrite read_unsigned_dec by (unfold pow20; lia || exact Hsep). cbv zeta.
    replace (- - z) with z by lia. rewrite Hz. reflexivity.
  - rewrite dec_pos_fuel_app. cbn [append].
    destruct (dec_first 20 z rest ltac:(lia)) as (d & r & Hd & E & _).
    { rewrite pow20_eq. unfold pow20. lia. }
    rewrite E, read_int_digit by exact Hd. rewrite <- E.
    rewrite read_unsigned_dec by (unfold pow20; lia || exact Hsep). cbv zeta.
    rewrite Hz. reflexivity.
Qed.

Lemma head_skip_ws c r : In c head_chars -> skip_ws (String c r) = String c r.
Proof. intros H. repeat (destruct H as [<-|H]; [reflexivity|]). destruct H. Qed.
Lemma head_read_null c r : In c head_chars -> read_null (String c r) = None.
Proof. intros H. repeat (destruct H as [<-|H]; [reflexivity|]). destruct H. Qed.

Lemma read_elem_dec z rest : in_i32 z = true -> sep rest ->
  read_elem (skip_ws (dec z ++ rest)) = Some (z, rest).
Proof.
  intros Hz Hsep. destruct (dec_head z Hz) as (c & r & E & Hc).
  assert (E' : dec z ++ rest = String c (r ++ rest)) by (rewrite E; reflexivity).
  rewrite E', (head_skip_ws _ _ Hc). unfold read_elem. rewrite (head_read_null _ _ Hc).
  rewrite <- E'. apply read_int_dec; assumption.
Qed.

(* ====================================================================================== *)
(* 3. the list                                                                            *)
(* ====================================================================================== *)
Definition tail_of (t : list Z) : string :=
  match t with [] => "]" | _ :: _ => String ","%char (print_elems t) end.

Lemma print_elems_cons z t : print_elems (z :: t) = dec z ++ tail_of t.
Proof. destruct t; reflexivity. Qed.
Lemma sep_tail_of t : sep (tail_of t).
Proof. destruct t; eexists; [right|left]; reflexivity. Qed.

Definition all_i32 (l : list Z) : Prop := Forall (fun z => in_i32 z = true) l.

Lemma skip_ws_comma s : skip_ws (String ","%char s) = String ","%char s.
Proof. reflexivity. Qed.

Lemma read_elems_print l : forall fuel acc, l <> [] -> all_i32 l -> (length l <= fuel)%nat ->
  read_elems fuel (print_elems l) acc = Some ((rev acc ++ l)%list, EmptyString).
Proof.
  induction l as [|z t IH]; intros fuel acc Hne Hall Hfuel; [contradiction|].
  inversion Hall as [|? ? Hz Ht]; subst.
  destruct fuel as [|f]; [cbn in Hfuel; lia|]. cbn [length] in Hfuel.
  cbn [read_elems]. rewrite print_elems_cons, (read_elem_dec z _ Hz (sep_tail_of t)).
  destruct t as [|y t'].
  - reflexivity.
  - cbn [tail_of]. rewrite skip_ws_comma. cbv beta iota.
    rewrite IH by (try discriminate; try assumption; cbn [length] in *; lia).
    cbn [rev]. rewrite <- app_assoc. reflexivity.
Qed.

Lemma dec_length z : in_i32 z = true -> (1 <= String.length (dec z))%nat.
Proof. intros Hz. destruct (dec_head z Hz) as (c & r & E & _). rewrite E. cbn. lia. Qed.

Lemma print_elems_length l : all_i32 l -> (length l <= String.length (print_elems l))%nat.
Proof.
  induction l as [|z t IH]; intros Hall; [cbn; lia|].
  inversion Hall as [|? ? Hz Ht]; subst.
  rewrite print_elems_cons, string_length_app. pose proof (dec_length z Hz).
  destruct t as [|y t']; [cbn; lia|].
  specialize (IH Ht). cbn [tail_of String.length length] in *. lia.
Qed.

(* parse_slots on "[" followed by a string that starts with a head character *)
Lemma parse_slots_open c r : In c head_chars ->
  parse_slots (String "["%char (String c r))
  = match read_elems (S (String.length (String c r))) (String c r) [] with
    | Some (l, rest) => match skip_ws rest with EmptyString => Some l | _ => None end
    | None => None
    end.
Proof. intros H. repeat (destruct H as [<-|H]; [reflexivity|]). destruct H. Qed.

(* the round trip: every list of int32 values printed by json.Marshal is read back by
   json.Unmarshal as the same list *)
Lemma parse_print_slots l : all_i32 l -> parse_slots (print_slots l) = Some l.
Proof.
  intros Hall. destruct l as [|z t]; [reflexivity|].
  inversion Hall as [|? ? Hz Ht]; subst.
  unfold print_slots.
  destruct (dec_head z Hz) as (c & r & E & Hc).
  assert (E' : print_elems (z :: t) = String c (r ++ tail_of t)).
  { rewrite print_elems_cons, E. reflexivity. }
  rewrite E', (parse_slots_open _ _ Hc), <- E'.
  rewrite read_elems_print; [reflexivity | discriminate | exact Hall |].
  pose proof (print_elems_length (z :: t) Hall). lia.
Qed.

(* ====================================================================================== *)
(* 4. normalisation                                                                       *)
(* ====================================================================================== *)
Lemma insert_sorted_head x l : Forall (Z.lt x) l -> insert_sorted x l = x :: l.
Proof.
  intros H. destruct l as [|y t]; [reflexivity|]. inversion H; subst. cbn [insert_sorted].
  destruct (Z.ltb_spec x y); [reflexivity | lia].
Qed.

Lemma norm_sorted_id l : StronglySorted Z.lt l -> norm l = l.
Proof.
  induction 1 as [|a t Hs IH Hall]; [reflexivity|].
  cbn [norm fold_right]. fold (norm t). rewrite IH. apply insert_sorted_head. exact Hall.
Qed.

Lemma norm_idem l : norm (norm l) = norm l.
Proof. apply norm_sorted_id, norm_sorted. Qed.

Lemma norm_all_i32 l : all_i32 l -> all_i32 (norm l).
Proof.
  unfold all_i32. rewrite !Forall_forall. intros H x Hx. apply H. apply norm_In. exact Hx.
Qed.

Lemma norm_nil_iff l : norm l = [] <-> l = [].
Proof.
  split; [|intros ->; reflexivity]. intros H. destruct l as [|a t]; [reflexivity|].
  exfalso. assert (Hin : In a (norm (a :: t))) by (apply norm_In; left; reflexivity).
  rewrite H in Hin. destruct Hin.
Qed.

Lemma get_slots_all_i32 a : all_i32 (get_slots a).
Proof.
  (* every element accepted by read_int / read_null is an int32 *)
  assert (Hri : forall s z r, read_int s = Some (z, r) -> in_i32 z = true).
  { intros s z r. unfold read_int.
    destruct (match s with String "-"%char t => (true, t) | _ => (false, s) end) as [neg s1].
    destruct s1 as [|c s1']; [discriminate|].
    destruct (is_digit c); [|discriminate].
    destruct (read_digits (String c s1') 0 0%nat) as [[v n] rest].
    destruct (Ascii.eqb c "0"%char && negb (Nat.eqb n 1)); [discriminate|].
    destruct (starts_with "."%char rest || starts_with "e"%char rest || starts_with "E"%char rest); [discriminate|].
    destruct (in_i32 (if neg then - v else v)) eqn:E; [|discriminate].
    intros H. inversion H; subst. exact E. }
  assert (Hre : forall s z r, read_elem s = Some (z, r) -> in_i32 z = true).
  { intros s z r. unfold read_elem. destruct (read_null s).
    - intros H. inversion H; subst. reflexivity.
    - apply Hri. }
  assert (Hrs : forall fuel s acc l r, all_i32 acc -> read_elems fuel s acc = Some (l, r) -> all_i32 l).
  { induction fuel as [|f IH]; intros s acc l r Hacc; cbn [read_elems]; [discriminate|].
    destruct (read_elem (skip_ws s)) as [[z rest]|] eqn:E; [|discriminate].
    apply Hre in E.
    destruct (skip_ws rest) as [|c t]; [discriminate|].
    assert (Hacc' : all_i32 (z :: acc)) by (constructor; assumption).
    destruct (Ascii.eqb c ","%char) eqn:Ec.
    - apply Ascii.eqb_eq in Ec. subst c. apply IH. exact Hacc'.
    - destruct (Ascii.eqb c "]"%char) eqn:Ec2.
      + apply Ascii.eqb_eq in Ec2. subst c. intros H. inversion H; subst.
        unfold all_i32. change (rev acc ++ [z])%list with (rev (z :: acc)). apply Forall_rev. exact Hacc'.
      + (* neither separator: the match yields None *)
        intros H. exfalso. revert H Ec Ec2.
        destruct c as [[] [] [] [] [] [] [] []]; cbn; try discriminate; intros; discriminate. }
  unfold get_slots. destruct a as [v|]; [|constructor].
  destruct (parse_slots v) as [l|] eqn:E; [|constructor].
  apply norm_all_i32. revert E. unfold parse_slots.
  destruct (read_null (skip_ws v)).
  - destruct (skip_ws s); [|discriminate]. intros H; inversion H; constructor.
  - destruct (skip_ws v) as [|c t]; [discriminate|].
    destruct (Ascii.eqb c "["%char) eqn:Ec.
    + apply Ascii.eqb_eq in Ec. subst c.
      destruct (skip_ws t) as [|c2 t2] eqn:Et.
      * destruct (read_elems (S (String.length t)) t []) as [[l' rest]|] eqn:Er; [|discriminate].
        destruct (skip_ws rest); [|discriminate]. intros H; inversion H; subst.
        eapply Hrs; [|exact Er]. constructor.
      * destruct (Ascii.eqb c2 "]"%char) eqn:Ec2.
        -- apply Ascii.eqb_eq in Ec2. subst c2.
           destruct (skip_ws t2); [|discriminate]. intros H; inversion H; constructor.
        -- assert (Hgen : match read_elems (S (String.length t)) t [] with
                          | Some (l0, rest) => match skip_ws rest with EmptyString => Some l0 | _ => None end
                          | None => None end = Some l -> all_i32 l).
           { destruct (read_elems (S (String.length t)) t []) as [[l' rest]|] eqn:Er; [|discriminate].
             destruct (skip_ws rest); [|discriminate]. intros H; inversion H; subst.
             eapply Hrs; [|exact Er]. constructor. }
           intros H. apply Hgen. revert H Ec2.
           destruct c2 as [[] [] [] [] [] [] [] []]; cbn; try discriminate; intros H _; exact H.
    + intros H. exfalso. revert H Ec.
      destruct c as [[] [] [] [] [] [] [] []]; cbn; try discriminate; intros; discriminate.
Qed.

(* ====================================================================================== *)
(* 5. association lists                                                                   *)
(* ====================================================================================== *)
Lemma alookup_aset_same k v l : alookup k (aset k v l) = Some v.
Proof.
  induction l as [|[k' v'] t IH]; cbn [aset alookup].
  - rewrite String.eqb_refl. reflexivity.
  - destruct (String.eqb k k') eqn:E; cbn [alookup]; [rewrite String.eqb_refl; reflexivity|].
    rewrite E. exact IH.
Qed.

Lemma alookup_aset_other k v l k2 : k2 <> k -> alookup k2 (aset k v l) = alookup k2 l.
Proof.
  intros Hne. induction l as [|[k' v'] t IH]; cbn [aset alookup].
  - destruct (String.eqb_spec k2 k); [contradiction | reflexivity].
  - destruct (String.eqb_spec k k') as [<-|Hk]; cbn [alookup].
    + destruct (String.eqb_spec k2 k); [contradiction | reflexivity].
    + rewrite IH. reflexivity.
Qed.

Lemma alookup_aremove_same k l : alookup k (aremove k l) = None.
Proof.
  induction l as [|[k' v'] t IH]; cbn [aremove alookup]; [reflexivity|].
  destruct (String.eqb k k') eqn:E; [exact IH|]. cbn [alookup]. rewrite E. exact IH.
Qed.

Lemma alookup_aremove_other k l k2 : k2 <> k -> alookup k2 (aremove k l) = alookup k2 l.
Proof.
  intros Hne. induction l as [|[k' v'] t IH]; cbn [aremove alookup]; [reflexivity|].
  destruct (String.eqb_spec k k') as [<-|Hk]; cbn [alookup].
  - destruct (String.eqb_spec k2 k); [contradiction | exact IH].
  - rewrite IH. reflexivity.
Qed.

Lemma alookup_None_iff k l : alookup k l = None <-> ~ In k (map fst l).
Proof.
  induction l as [|[k' v'] t IH]; cbn [alookup map fst In]; [tauto|].
  destruct (String.eqb_spec k k') as [<-|Hk].
  - split; [discriminate | intros H; exfalso; apply H; left; reflexivity].
  - rewrite IH. split; [intros H [E|E]; [congruence | contradiction] | tauto].
Qed.

Lemma aset_keys_in k v l x : In x (map fst (aset k v l)) <-> x = k \/ In x (map fst l).
Proof.
  induction l as [|[k' v'] t IH]; cbn [aset map fst In].
  - intuition.
  - destruct (String.eqb_spec k k') as [<-|Hk]; cbn [map fst In]; [intuition|].
    rewrite IH. intuition.
Qed.

Lemma aremove_keys_in k l x : In x (map fst (aremove k l)) <-> x <> k /\ In x (map fst l).
Proof.
  induction l as [|[k' v'] t IH]; cbn [aremove map fst In]; [tauto|].
  destruct (String.eqb_spec k k') as [<-|Hk]; cbn [map fst In]; rewrite IH.
  - split; [tauto|]. intros [H1 [H2|H2]]; [congruence | tauto].
  - split; [intros [<-|H]; [split; [congruence | tauto] | tauto] | tauto].
Qed.

Lemma aset_NoDup k v l : NoDup (map fst l) -> NoDup (map fst (aset k v l)).
Proof.
  induction l as [|[k' v'] t IH]; intros H; cbn [aset map fst].
  - constructor; [intros [] | constructor].
  - inversion H as [|? ? Hn Ht]; subst.
    destruct (String.eqb_spec k k') as [<-|Hk]; cbn [map fst].
    + constructor; assumption.
    + constructor; [|apply IH; exact Ht]. intros Hin. apply aset_keys_in in Hin.
      destruct Hin as [E|Hin]; [congruence | contradiction].
Qed.

Lemma aremove_NoDup k l : NoDup (map fst l) -> NoDup (map fst (aremove k l)).
Proof.
  induction l as [|[k' v'] t IH]; intros H; cbn [aremove map fst]; [constructor|].
  inversion H as [|? ? Hn Ht]; subst.
  destruct (String.eqb_spec k k'); cbn [map fst]; [apply IH; exact Ht|].
  constructor; [|apply IH; exact Ht]. intros Hin. apply aremove_keys_in in Hin. tauto.
Qed.

(* ====================================================================================== *)
(* 6. the codecs                                                                          *)
(* ====================================================================================== *)
Definition wf_amap (a : amap) : Prop := NoDup (keys a).

Lemma lookup_entries k a : alookup k (entries a) = lookup k a.
Proof. destruct a; reflexivity. Qed.

(* --- SetDeleteSlots --- *)
Lemma set_slots_read a s : all_i32 (set_of s) -> set_of s <> [] ->
  lookup slots_key (set_slots a s) = Some (print_slots (set_of s))
  /\ get_slots (lookup slots_key (set_slots a s)) = set_of s.
Proof.
  intros Hall Hne. unfold set_slots.
  destruct (set_of s) as [|z t] eqn:E; [contradiction|].
  cbn [lookup]. rewrite alookup_aset_same. split; [reflexivity|].
  cbn [get_slots]. rewrite (parse_print_slots _ Hall).
  rewrite <- E. destruct s as [l|]; cbn [set_of]; [apply norm_idem | reflexivity].
Qed.

Lemma set_of_sorted s : StronglySorted Z.lt (set_of s).
Proof. destruct s; cbn [set_of]; [apply norm_sorted | constructor]. Qed.

Lemma set_slots_empty a s : set_of s = [] ->
  lookup slots_key (set_slots a s) = None
  /\ get_slots (lookup slots_key (set_slots a s)) = []
  /\ (a = None <-> set_slots a s = None).
Proof.
  intros E. unfold set_slots. rewrite E. destruct a as [l|]; cbn [lookup].
  - rewrite alookup_aremove_same. repeat split; discriminate.
  - repeat split; reflexivity.
Qed.

Lemma set_slots_frame a s k : k <> slots_key -> lookup k (set_slots a s) = lookup k a.
Proof.
  intros Hne. unfold set_slots. destruct (set_of s) as [|z t].
  - destruct a as [l|]; cbn [lookup]; [apply alookup_aremove_other; exact Hne | reflexivity].
  - cbn [lookup]. rewrite alookup_aset_other by exact Hne. apply lookup_entries.
Qed.

Lemma set_slots_wf a s : wf_amap a -> wf_amap (set_slots a s).
Proof.
  unfold wf_amap, set_slots. intros H. destruct (set_of s) as [|z t].
  - destruct a as [l|]; cbn [keys] in *; [apply aremove_NoDup; exact H | constructor].
  - cbn [keys]. apply aset_NoDup. destruct a; cbn [entries keys] in *; [exact H | constructor].
Qed.

(* --- AddDeleteSlots --- *)
Definition arg_list (s : option (list Z)) : list Z := match s with None => [] | Some l => l end.

Lemma add_slots_eq a s :
  add_slots a s = set_slots a (Some (get_slots (lookup slots_key a) ++ arg_list s)%list).
Proof. reflexivity. Qed.

Lemma all_i32_app l1 l2 : all_i32 l1 -> all_i32 l2 -> all_i32 (l1 ++ l2).
Proof. unfold all_i32. intros. apply Forall_app. split; assumption. Qed.

Lemma add_slots_read a s : all_i32 (arg_list s) ->
  let u := norm (get_slots (lookup slots_key a) ++ arg_list s) in
  get_slots (lookup slots_key (add_slots a s)) = u
  /\ (forall x, In x u <-> In x (get_slots (lookup slots_key a)) \/ In x (arg_list s)).
Proof.
  intros Hall u. split.
  - rewrite add_slots_eq.
    destruct u as [|z t] eqn:E.
    + apply set_slots_empty. exact E.
    + rewrite <- E. apply set_slots_read; cbn [set_of]; fold u.
      * apply norm_all_i32, all_i32_app; [apply get_slots_all_i32 | exact Hall].
      * rewrite E. discriminate.
  - intros x. unfold u. rewrite norm_In, in_app_iff. reflexivity.
Qed.

Lemma add_slots_frame a s k : k <> slots_key -> lookup k (add_slots a s) = lookup k a.
Proof. intros H. rewrite add_slots_eq. apply set_slots_frame. exact H. Qed.

Lemma add_slots_wf a s : wf_amap a -> wf_amap (add_slots a s).
Proof. rewrite add_slots_eq. apply set_slots_wf. Qed.

(* --- SetPausedReconcile --- *)
Lemma set_paused_read a b :
  get_paused (lookup pause_key (set_paused a b)) = b
  /\ lookup pause_key (set_paused a b) = (if b then Some "true" else None)
  /\ set_paused a b <> None.
Proof.
  unfold set_paused. destruct b; cbn [lookup].
  - rewrite alookup_aset_same. repeat split; discriminate.
  - rewrite alookup_aremove_same. repeat split; discriminate.
Qed.

Lemma set_paused_frame a b k : k <> pause_key -> lookup k (set_paused a b) = lookup k a.
Proof.
  intros Hne. unfold set_paused. destruct b; cbn [lookup].
  - rewrite alookup_aset_other by exact Hne. apply lookup_entries.
  - rewrite alookup_aremove_other by exact Hne. apply lookup_entries.
Qed.

Lemma set_paused_wf a b : wf_amap a -> wf_amap (set_paused a b).
Proof.
  unfold wf_amap, set_paused. intros H.
  assert (He : NoDup (map fst (entries a))) by (destruct a; cbn [entries keys] in *; [exact H | constructor]).
  destruct b; cbn [keys]; [apply aset_NoDup | apply aremove_NoDup]; exact He.
Qed.

(* the keys of the result: nothing added or dropped except the codec's own key *)
Lemma lookup_None_iff k a : lookup k a = None <-> ~ In k (keys a).
Proof. destruct a as [l|]; cbn [lookup keys]; [apply alookup_None_iff | tauto]. Qed.

Lemma frame_keys (a a' : amap) key :
  (forall k, k <> key -> lookup k a' = lookup k a) ->
  forall k, k <> key -> (In k (keys a') <-> In k (keys a)).
Proof.
  intros H k Hne. specialize (H k Hne).
  destruct (in_dec string_dec k (keys a')) as [H1|H1]; destruct (in_dec string_dec k (keys a)) as [H2|H2]; try tauto.
  - apply lookup_None_iff in H2. rewrite <- H in H2. apply lookup_None_iff in H2. contradiction.
  - apply lookup_None_iff in H1. rewrite H in H1. apply lookup_None_iff in H1. contradiction.
Qed.

(* the slot codec does not touch the pause flag and vice versa *)
Lemma keys_distinct : slots_key <> pause_key.
Proof. discriminate. Qed.

(* ---------- statements in the form used by C19.v ------------------------------------------ *)
Lemma set_then_get a l : all_i32 l -> l <> [] ->
  get_slots (lookup slots_key (set_slots a (Some l))) = norm l
  /\ lookup slots_key (set_slots a (Some l)) = Some (print_slots (norm l)).
Proof.
  intros Hall Hne.
  assert (H1 : all_i32 (set_of (Some l))) by (cbn [set_of]; apply norm_all_i32; exact Hall).
  assert (H2 : set_of (Some l) <> []).
  { cbn [set_of]. intros E. apply Hne. apply (proj1 (norm_nil_iff l)). exact E. }
  destruct (set_slots_read a (Some l) H1 H2) as [H3 H4]. cbn [set_of] in *. split; assumption.
Qed.

Lemma slots_frame a s k : k <> slots_key ->
  lookup k (set_slots a s) = lookup k a /\ lookup k (add_slots a s) = lookup k a.
Proof. intros H. split; [apply set_slots_frame | apply add_slots_frame]; exact H. Qed.

Lemma slots_keys a s : wf_amap a ->
  wf_amap (set_slots a s) /\ wf_amap (add_slots a s)
  /\ (forall k, k <> slots_key -> (In k (keys (set_slots a s)) <-> In k (keys a)))
  /\ (forall k, k <> slots_key -> (In k (keys (add_slots a s)) <-> In k (keys a))).
Proof.
  intros H. split; [apply set_slots_wf; exact H|]. split; [apply add_slots_wf; exact H|].
  split; apply frame_keys; intros k Hk; [apply set_slots_frame | apply add_slots_frame]; exact Hk.
Qed.

Lemma pause_frame_keys a b : wf_amap a ->
  wf_amap (set_paused a b)
  /\ (forall k, k <> pause_key -> lookup k (set_paused a b) = lookup k a)
  /\ (forall k, k <> pause_key -> (In k (keys (set_paused a b)) <-> In k (keys a))).
Proof.
  intros H. split; [apply set_paused_wf; exact H|].
  split; [intros k Hk; apply set_paused_frame; exact Hk|].
  apply frame_keys. intros k Hk. apply set_paused_frame. exact Hk.
Qed.

(* the two codecs commute with each other's reading *)
Lemma codecs_independent a s b :
  get_paused (lookup pause_key (set_slots a s)) = get_paused (lookup pause_key a)
  /\ get_paused (lookup pause_key (add_slots a s)) = get_paused (lookup pause_key a)
  /\ get_slots (lookup slots_key (set_paused a b)) = get_slots (lookup slots_key a).
Proof.
  assert (H1 : pause_key <> slots_key) by discriminate.
  assert (H2 : slots_key <> pause_key) by discriminate.
  rewrite set_slots_frame, add_slots_frame, set_paused_frame by assumption. repeat split.
Qed.
