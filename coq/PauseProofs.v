(* PauseProofs.v — a pause is lossless, over histories of the environment model (Env.v: reconciles with any fault
   oracle, kubelet events, cache refreshes of any kind, edits of the set).  Every reconcile that runs while the CACHED
   set carries the pause annotation can be struck from the history: the API state and the caches evolve exactly as
   if it had never been scheduled.  So a run with a paused window is the run in which no reconcile happened during
   the window, and what happens after the annotation is removed is C02 applied to the state at that moment. *)
From ASTS Require Import Base Slots Names World Reconcile ReconcileCheck MonadProofs PlanProofs ReconcileProofs Env.

Definition is_reconcile (op : hop) : bool := match op with HReconcile _ => true | _ => false end.

Definition cache_paused (w : hworld) : Prop :=
  exists s, w_set (hw_cache w) = Some s /\ get_paused (s_pause s) = true.

Lemma hstep_paused hashes w f : cache_paused w -> fst (hstep hashes w (HReconcile f)) = w.
Proof.
  intros (s & Hs & Hp). cbn [hstep]. rewrite (reconcile_paused hashes (hw_api w) (hw_cache w) f s Hs Hp).
  cbn [fst]. destruct w; reflexivity.
Qed.

Lemma hrun_app hashes : forall a w b, hrun hashes w (a ++ b) = hrun hashes (hrun hashes w a) b.
Proof. induction a as [|op a IH]; intros w b; [reflexivity|]. cbn [app hrun]. apply IH. Qed.

(* every reconcile of the history runs on a paused cached set *)
Fixpoint reconciles_paused (hashes : list ((Z * Z) * string)) (w : hworld) (ops : list hop) : Prop :=
  match ops with
  | [] => True
  | op :: t => (is_reconcile op = true -> cache_paused w) /\ reconciles_paused hashes (fst (hstep hashes w op)) t
  end.

Theorem paused_reconciles_can_be_struck hashes : forall ops w,
  reconciles_paused hashes w ops ->
  hrun hashes w ops = hrun hashes w (filter (fun op => negb (is_reconcile op)) ops).
Proof.
  induction ops as [|op t IH]; intros w H; [reflexivity|].
  destruct H as [Hop Ht]. cbn [filter].
  destruct op as [f| |only| |n ev|e]; cbn [is_reconcile negb hrun];
    try (apply IH; exact Ht).
  rewrite (hstep_paused hashes w f (Hop eq_refl)) in *. apply IH. exact Ht.
Qed.

(* the window inside a longer history: before it anything, after it anything *)
Theorem pause_window_is_lossless hashes before window after w :
  reconciles_paused hashes (hrun hashes w before) window ->
  hrun hashes w (before ++ window ++ after)
  = hrun hashes w (before ++ filter (fun op => negb (is_reconcile op)) window ++ after).
Proof.
  intros H. rewrite !hrun_app. rewrite (paused_reconciles_can_be_struck hashes window _ H). reflexivity.
Qed.

(* and nothing is written during the window: every reconcile of it returns OOk with an empty call log *)
Theorem paused_reconcile_logs_nothing hashes w f : cache_paused w ->
  snd (hstep hashes w (HReconcile f)) = Some (OOk, []).
Proof.
  intros (s & Hs & Hp). cbn [hstep]. rewrite (reconcile_paused hashes (hw_api w) (hw_cache w) f s Hs Hp). reflexivity.
Qed.
