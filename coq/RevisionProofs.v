(* RevisionProofs.v — history truncation (C13), ownership of listed revisions (C10), revision
   resolution (C08).  Statements of the properties are in C08.v C10.v C13.v. *)
From ASTS Require Import Base Slots Names World Reconcile MonadProofs PlanProofs ReconcileProofs.
From Coq Require Import Sorting.Permutation.

(* ------------------------------------------------------------------ what ListRevisions returns --- *)
Definition listable (s : sset) (r : rev) : Prop :=
  r_labels_nil r = false /\ (r_match r = true \/ opt_str_is (r_marker r) (s_name s) = true)
  /\ (r_owner r = None \/ owner_uid_is s (r_owner r) = true).

Lemma dedupe_revs_spec : forall l seen,
  (forall r, In r (dedupe_revs seen l) -> In r l /\ ~ In (r_name r) seen)
  /\ NoDup (map r_name (dedupe_revs seen l)).
Proof.
  induction l as [|r t IH]; intros seen; cbn [dedupe_revs].
  - split; [intros r [] | constructor].
  - destruct (smemb (r_name r) seen) eqn:M.
    + destruct (IH seen) as [H1 H2]. split; [|exact H2]. intros q Hq. destruct (H1 q Hq). split; [right; assumption | assumption].
    + destruct (IH (r_name r :: seen)) as [H1 H2]. split.
      * intros q [<-|Hq].
        -- split; [left; reflexivity|]. intros Hin. unfold smemb in M.
           assert (existsb (String.eqb (r_name r)) seen = true).
           { apply existsb_exists. exists (r_name r). split; [exact Hin | apply String.eqb_refl]. }
           congruence.
        -- destruct (H1 q Hq) as [Ha Hb]. split; [right; exact Ha|]. intros Hin. apply Hb. right. exact Hin.
      * cbn [map]. constructor; [|exact H2]. intros Hin. apply in_map_iff in Hin. destruct Hin as (q & Hn & Hq).
        destruct (H1 q Hq) as [_ Hb]. apply Hb. left. symmetry. exact Hn.
Qed.

Lemma insert_by_name_In r q l : In q (insert_by_name r l) <-> q = r \/ In q l.
Proof.
  induction l as [|a t IH]; cbn [insert_by_name]; [cbn; intuition|].
  destruct (String.ltb (r_name r) (r_name a)); cbn [In]; [intuition|]. rewrite IH. intuition.
Qed.
Lemma sort_by_name_In q l : In q (sort_by_name l) <-> In q l.
Proof.
  induction l as [|a t IH]; cbn [sort_by_name fold_right]; [tauto|].
  rewrite insert_by_name_In. fold (sort_by_name t). rewrite IH. cbn. intuition.
Qed.

Definition revs_ok (s : sset) (revs : list rev) : Prop :=
  (forall r, In r revs -> listable s r) /\ NoDup (map r_name revs).

Lemma mspec_list_revisions (L : call -> Prop) s :
  (forall m, L (CListRevs m)) -> mspec L (revs_ok s) (list_revisions s).
Proof.
  intros HL. unfold list_revisions.
  eapply mspec_bind with (Q := fun l => forall r, In r l -> r_labels_nil r = false /\ r_match r = true).
  { unfold api_list_revs. apply mspec_call; [apply HL|]. intros w a w' E. inversion E; subst.
    intros r Hr. apply (proj1 (sort_by_name_In _ _)) in Hr. apply filter_In in Hr. destruct Hr as [_ Hr].
    apply andb_true_iff in Hr. destruct Hr as [H1 H2]. apply negb_true_iff in H1. split; assumption. }
  intros l1 H1.
  eapply mspec_bind with (Q := fun l => forall r, In r l -> r_labels_nil r = false /\ opt_str_is (r_marker r) (s_name s) = true).
  { unfold api_list_revs. apply mspec_call; [apply HL|]. intros w a w' E. inversion E; subst.
    intros r Hr. apply (proj1 (sort_by_name_In _ _)) in Hr. apply filter_In in Hr. destruct Hr as [_ Hr].
    apply andb_true_iff in Hr. destruct Hr as [Ha Hb]. apply negb_true_iff in Ha. split; assumption. }
  intros l2 H2. apply mspec_ret.
  destruct (dedupe_revs_spec (filter (fun r => is_orphan (r_owner r) || owner_uid_is s (r_owner r)) (l1 ++ l2)) []) as [Hd Hn].
  split; [|exact Hn]. intros r Hr. destruct (Hd r Hr) as [Hin _]. apply filter_In in Hin. destruct Hin as [Hin Ho].
  assert (Hown : r_owner r = None \/ owner_uid_is s (r_owner r) = true).
  { apply orb_true_iff in Ho. destruct Ho as [Ho|Ho]; [left|right; exact Ho]. destruct (r_owner r); [discriminate | reflexivity]. }
  apply in_app_or in Hin. destruct Hin as [Hin|Hin].
  - destruct (H1 r Hin) as [Ha Hb]. repeat split; auto.
  - destruct (H2 r Hin) as [Ha Hb]. repeat split; auto.
Qed.

(* sort.Stable(byRevision) is a permutation *)
Lemma insert_rev_perm r l : Permutation (insert_rev r l) (r :: l).
Proof.
  induction l as [|a t IH]; cbn [insert_rev]; [apply Permutation_refl|].
  destruct (rev_lt r a); [apply Permutation_refl|].
  eapply Permutation_trans; [apply perm_skip; exact IH | apply perm_swap].
Qed.
Lemma sort_revs_perm l : Permutation (sort_revs l) l.
Proof.
  induction l as [|a t IH]; cbn [sort_revs fold_right]; [apply Permutation_refl|].
  eapply Permutation_trans; [apply insert_rev_perm | apply perm_skip; exact IH].
Qed.
Lemma revs_ok_sort s revs : revs_ok s revs -> revs_ok s (sort_revs revs).
Proof.
  intros [H1 H2]. split.
  - intros r Hr. apply H1. eapply Permutation_in; [apply sort_revs_perm | exact Hr].
  - eapply Permutation_NoDup; [|exact H2]. apply Permutation_map. apply Permutation_sym. apply sort_revs_perm.
Qed.

(* ------------------------------------------------------------------ truncateHistory (C13) ------- *)
Definition live_names (pods : list pod) (cur upd : rev) : list string := r_name cur :: r_name upd :: map p_rev pods.
Definition history_of (pods : list pod) (revs : list rev) (cur upd : rev) : list rev :=
  filter (fun r => negb (smemb (r_name r) (live_names pods cur upd))) revs.
Definition to_delete (limit : Z) (pods : list pod) (revs : list rev) (cur upd : rev) : list rev :=
  let h := history_of pods revs cur upd in
  if Z.of_nat (length h) <=? limit then [] else firstn (Z.to_nat (Z.of_nat (length h) - limit)) h.

Lemma smemb_In x l : smemb x l = true <-> In x l.
Proof.
  unfold smemb. rewrite existsb_exists. split.
  - intros (y & Hy & E). apply String.eqb_eq in E. subst. exact Hy.
  - intros H. exists x. split; [exact H | apply String.eqb_refl].
Qed.

(* every revision selected for deletion: listed (so: this set's own or an orphan it may adopt), not
   the current, not the update revision, not named by any claimed pod; deletions happen only when more
   than `limit` unused revisions exist; the oldest unused ones (a prefix of the sorted history) go;
   afterwards at most `limit` unused ones remain *)
Lemma to_delete_spec limit pods revs cur upd : 0 <= limit ->
  let d := to_delete limit pods revs cur upd in
  let h := history_of pods revs cur upd in
  (forall r, In r d -> In r revs /\ r_name r <> r_name cur /\ r_name r <> r_name upd
                       /\ forall p, In p pods -> p_rev p <> r_name r)
  /\ (d <> [] -> limit < Z.of_nat (length h))
  /\ (exists rest, h = d ++ rest /\ Z.of_nat (length rest) <= limit)
  /\ (NoDup (map r_name revs) -> NoDup (map r_name d)).
Proof.
  intros Hl d h. unfold d, to_delete. fold h.
  assert (Hh : forall r, In r h -> In r revs /\ r_name r <> r_name cur /\ r_name r <> r_name upd
                                    /\ forall p, In p pods -> p_rev p <> r_name r).
  { intros r Hr. unfold h, history_of in Hr. apply filter_In in Hr. destruct Hr as [Hin Hn].
    apply negb_true_iff in Hn. split; [exact Hin|].
    assert (Hnot : ~ In (r_name r) (live_names pods cur upd)).
    { intros Hc. apply smemb_In in Hc. congruence. }
    unfold live_names in Hnot. cbn [In] in Hnot. repeat split.
    - intros E. apply Hnot. left. symmetry. exact E.
    - intros E. apply Hnot. right. left. symmetry. exact E.
    - intros p Hp E. apply Hnot. right. right. apply in_map_iff. exists p. split; assumption. }
  destruct (Z.of_nat (length h) <=? limit) eqn:E.
  - apply Z.leb_le in E. split; [|split; [|split]].
    + intros r [].
    + intros H. congruence.
    + exists h. split; [reflexivity | exact E].
    + intros _. constructor.
  - apply Z.leb_gt in E. set (k := Z.to_nat (Z.of_nat (length h) - limit)). split; [|split; [|split]].
    + intros r Hr. apply Hh. rewrite <- (firstn_skipn k h). apply in_or_app. left. exact Hr.
    + intros _. exact E.
    + exists (skipn k h). split; [symmetry; apply firstn_skipn|]. rewrite skipn_length. unfold k. lia.
    + intros Hnd. assert (Hndh : NoDup (map r_name h)).
      { unfold h, history_of. clear -Hnd. induction revs as [|a t IH]; cbn [filter map]; [constructor|].
        cbn [map] in Hnd. inversion Hnd as [|? ? Hna Hnt]; subst.
        destruct (negb _); [|apply IH; exact Hnt]. cbn [map]. constructor; [|apply IH; exact Hnt].
        intros Hin. apply Hna. apply in_map_iff in Hin. destruct Hin as (q & Hq1 & Hq2). apply filter_In in Hq2.
        apply in_map_iff. exists q. tauto. }
      rewrite <- (firstn_skipn k h) in Hndh. rewrite map_app in Hndh.
      clear -Hndh. induction (map r_name (firstn k h)) as [|x t IH]; [constructor|].
      cbn [app] in Hndh. inversion Hndh as [|? ? Hx Ht]; subst. constructor; [|apply IH; exact Ht].
      intros Hin. apply Hx. apply in_or_app. left. exact Hin.
Qed.

Lemma truncate_history_is_to_delete s pods revs cur upd limit :
  s_rhl s = Some limit ->
  truncate_history s pods revs cur upd = forM (to_delete limit pods revs cur upd) (fun r => api_delete_rev (r_name r)).
Proof.
  intros H. unfold truncate_history, to_delete, history_of, live_names. rewrite H.
  destruct (_ <=? limit); reflexivity.
Qed.

(* ------------------------------------------------------------------ phases of one reconcile ------- *)
Definition not_delrev (c : call) : Prop := match c with CDeleteRev _ => False | _ => True end.
Lemma resolve_not_delrev c : resolve_call c -> not_delrev c. Proof. destruct c; cbn; tauto. Qed.
Lemma adopt_not_delrev cache c : adopt_call cache c -> not_delrev c. Proof. destruct c; cbn; tauto. Qed.
Lemma claim_not_delrev cache c : claim_call cache c -> not_delrev c. Proof. destruct c; cbn; tauto. Qed.

Lemma filter_all_true {A} (f : A -> bool) l : Forall (fun e => f e = true) l -> filter f l = l.
Proof. induction 1 as [|x t Hx Ht IH]; [reflexivity|]. cbn [filter]. rewrite Hx, IH. reflexivity. Qed.

Section Phases.
Variable hashes : list ((Z * Z) * string).

(* UpdateStatefulSet: everything before truncateHistory issues no revision delete; truncateHistory runs on
   the sorted listing (own or orphan revisions, distinct names), the resolved current / update revisions and
   the claimed pods *)
Lemma uss_phases s cache pods st r st' :
  update_stateful_set hashes s cache pods st = (r, st') ->
  log_ext not_delrev st st'
  \/ exists revs cur upd s4, revs_ok s revs /\ log_ext not_delrev st s4
                              /\ truncate_history s pods revs cur upd s4 = (r, st').
Proof.
  intros E. unfold update_stateful_set in E.
  apply bind_inv in E. destruct E as [(revs0 & s1 & E1 & E)|[E1 _]].
  2:{ left. eapply log_ext_weaken; [apply resolve_not_delrev | eapply emits_run; [apply emits_list_revisions_r | exact E1]]. }
  assert (L1 : log_ext not_delrev st s1).
  { eapply log_ext_weaken; [apply resolve_not_delrev | eapply emits_run; [apply emits_list_revisions_r | exact E1]]. }
  assert (Hrev : revs_ok s (sort_revs revs0)).
  { apply revs_ok_sort. destruct (mspec_list_revisions (fun _ => True) s (fun _ => I) _ _ _ E1) as [_ H]. apply H. reflexivity. }
  apply bind_inv in E. destruct E as [([[cur upd] coll] & s2 & E2 & E)|[E2 _]].
  2:{ left. eapply log_ext_trans; [exact L1|].
      eapply log_ext_weaken; [apply resolve_not_delrev | eapply emits_run; [apply emits_get_set_revisions_r | exact E2]]. }
  assert (L2 : log_ext not_delrev s1 s2).
  { eapply log_ext_weaken; [apply resolve_not_delrev | eapply emits_run; [apply emits_get_set_revisions_r | exact E2]]. }
  destruct (plan_pods s _ _ coll pods) as [po|].
  2:{ left. inversion E; subst. eapply log_ext_trans; eassumption. }
  apply bind_inv in E. destruct E as [(u3 & s3 & E3 & E)|[E3 _]].
  2:{ left. eapply log_ext_trans; [exact L1|]. eapply log_ext_trans; [exact L2|].
      eapply emits_run; [|exact E3]. apply emits_forM. intros a _. apply emits_exec_act; intros; exact I. }
  assert (L3 : log_ext not_delrev s2 s3).
  { eapply emits_run; [|exact E3]. apply emits_forM. intros a _. apply emits_exec_act; intros; exact I. }
  apply bind_inv in E. destruct E as [(u4 & s4 & E4 & E)|[E4 _]].
  2:{ left. eapply log_ext_trans; [exact L1|]. eapply log_ext_trans; [exact L2|]. eapply log_ext_trans; [exact L3|].
      eapply emits_run; [|exact E4]. unfold update_set_status. destruct (inconsistent_status _ _); [|apply emits_ret].
      apply emits_update_status_retry. exact I. }
  right. exists (sort_revs revs0), cur, upd, s4. split; [exact Hrev|]. split; [|exact E].
  eapply log_ext_trans; [exact L1|]. eapply log_ext_trans; [exact L2|]. eapply log_ext_trans; [exact L3|].
  eapply emits_run; [|exact E4]. unfold update_set_status. destruct (inconsistent_status _ _); [|apply emits_ret].
  apply emits_update_status_retry. exact I.
Qed.

(* sync: either the control loop is not reached (no revision delete at all), or it runs on a claimed list *)
Lemma sync_phases cache st r st' :
  sync hashes cache st = (r, st') ->
  log_ext not_delrev st st'
  \/ exists s claimed s2, w_set cache = Some s /\ claimed_ok s cache claimed /\ log_ext not_delrev st s2
                          /\ update_stateful_set hashes s cache claimed s2 = (r, st').
Proof.
  intros E. unfold sync in E.
  destruct (w_set cache) as [s|] eqn:Hs; [|inversion E; subst; left; apply log_ext_refl].
  destruct (get_paused (s_pause s)); [inversion E; subst; left; apply log_ext_refl|].
  destruct (s_selector s); [|inversion E; subst; left; apply log_ext_refl].
  apply bind_inv in E. destruct E as [(u & s1 & E1 & E)|[E1 _]].
  2:{ left. eapply log_ext_weaken; [apply (adopt_not_delrev cache) | eapply emits_run; [apply (emits_adopt cache s Hs) | exact E1]]. }
  assert (L1 : log_ext not_delrev st s1).
  { eapply log_ext_weaken; [apply (adopt_not_delrev cache) | eapply emits_run; [apply (emits_adopt cache s Hs) | exact E1]]. }
  apply bind_inv in E. destruct E as [(x & s2 & E2 & E)|[E2 _]].
  2:{ left. eapply log_ext_trans; [exact L1|]. eapply log_ext_weaken; [apply (claim_not_delrev cache)|].
      destruct (mspec_claim_pods s cache Hs (w_pods cache) None false (incl_refl _) _ _ _ E2) as [H _]. exact H. }
  destruct (mspec_claim_pods s cache Hs (w_pods cache) None false (incl_refl _) _ _ _ E2) as [L2 Hx].
  specialize (Hx x eq_refl).
  assert (L12 : log_ext not_delrev st s2).
  { eapply log_ext_trans; [exact L1|]. eapply log_ext_weaken; [apply (claim_not_delrev cache) | exact L2]. }
  destruct (snd x); [inversion E; subst; left; exact L12|].
  right. exists s, (fst x), s2. split; [reflexivity|]. split; [exact Hx|]. split; [exact L12 | exact E].
Qed.

(* the log of the deletions: a prefix of the selected list, in order *)
Lemma forM_delete_calls : forall (l : list rev) st r st',
  forM l (fun q => api_delete_rev (r_name q)) st = (r, st') ->
  exists new k, rs_log st' = new ++ rs_log st /\ (k <= length l)%nat
                /\ map fst (List.rev new) = map (fun q => CDeleteRev (r_name q)) (firstn k l).
Proof.
  induction l as [|q t IH]; intros st r st' E; cbn [forM] in E.
  - inversion E; subst. exists [], 0%nat. repeat split; auto.
  - apply bind_inv in E.
    assert (Hone : forall rr s1, api_delete_rev (r_name q) st = (rr, s1) ->
                     exists e, rs_log s1 = (CDeleteRev (r_name q), e) :: rs_log st).
    { intros rr s1 H. unfold api_delete_rev, call_api in H.
      destruct (take_fault _ _ _) as [fo fs']. destruct fo as [f|].
      - destruct f; try (inversion H; subst; eexists; reflexivity).
        destruct (find_rev _ _); inversion H; subst; eexists; reflexivity.
      - destruct (find_rev _ _); inversion H; subst; eexists; reflexivity. }
    destruct E as [(u & s1 & E1 & E)|[E1 _]].
    + destruct (Hone _ _ E1) as [e He]. destruct (IH _ _ _ E) as (new & k & H1 & H2 & H3).
      exists (new ++ [(CDeleteRev (r_name q), e)]), (S k). split; [rewrite H1, He, <- app_assoc; reflexivity|].
      split; [cbn [length]; lia|]. rewrite rev_app_distr. cbn [List.rev app map firstn fst]. rewrite H3. reflexivity.
    + destruct (Hone _ _ E1) as [e He]. exists [(CDeleteRev (r_name q), e)], 1%nat.
      split; [exact He|]. split; [cbn [length]; lia | reflexivity].
Qed.

(* C13, lifted: the revision deletes of the log are, in order, a prefix of the list selected by
   truncateHistory on (own-or-orphan revisions with distinct names, resolved current / update, claimed pods) *)
Theorem reconcile_rev_deletes api cache faults o log w' :
  reconcile hashes api cache faults = (o, log, w') ->
  filter (fun e => match fst e with CDeleteRev _ => true | _ => false end) log = []
  \/ exists s claimed revs cur upd limit k,
       w_set cache = Some s /\ claimed_ok s cache claimed /\ revs_ok s revs /\ s_rhl s = Some limit
       /\ map fst (filter (fun e => match fst e with CDeleteRev _ => true | _ => false end) log)
          = map (fun q => CDeleteRev (r_name q)) (firstn k (to_delete limit claimed revs cur upd)).
Proof.
  set (isd := fun e : call * option errkind => match fst e with CDeleteRev _ => true | _ => false end).
  assert (Hnone : forall (a b : rstate), log_ext not_delrev a b -> exists new, rs_log b = new ++ rs_log a /\ filter isd (List.rev new) = []).
  { intros a b (new & E & F). exists new. split; [exact E|]. apply Forall_rev in F.
    induction (List.rev new) as [|x t IH]; [reflexivity|]. inversion F as [|? ? Hx Ht]; subst.
    cbn [filter]. unfold isd at 1. destruct (fst x); cbn in Hx; try contradiction; apply IH; exact Ht. }
  unfold reconcile. destruct (sync hashes cache _) as [r st] eqn:E. intros H. inversion H; subst. clear H.
  destruct (sync_phases _ _ _ _ E) as [L|(s & claimed & s2 & Hs & Hcl & L12 & E2)].
  { left. destruct (Hnone _ _ L) as (new & E1 & F). cbn in E1. rewrite app_nil_r in E1. rewrite E1. exact F. }
  destruct (uss_phases _ _ _ _ _ _ E2) as [L|(revs & cur & upd & s4 & Hrev & L34 & E4)].
  { left. destruct (Hnone _ _ (log_ext_trans _ _ _ _ L12 L)) as (new & E1 & F). cbn in E1. rewrite app_nil_r in E1. rewrite E1. exact F. }
  destruct (Hnone _ _ (log_ext_trans _ _ _ _ L12 L34)) as (new1 & E1 & F1). cbn in E1. rewrite app_nil_r in E1.
  destruct (s_rhl s) as [limit|] eqn:Hl.
  2:{ left. unfold truncate_history in E4. rewrite Hl in E4. inversion E4 as [[Hr Hst]]. rewrite <- Hst. rewrite E1. exact F1. }
  rewrite (truncate_history_is_to_delete s claimed revs cur upd limit Hl) in E4.
  destruct (forM_delete_calls _ _ _ _ E4) as (new2 & k & H1 & H2 & H3).
  right. exists s, claimed, revs, cur, upd, limit, k.
  split; [exact Hs|]. split; [exact Hcl|]. split; [exact Hrev|]. split; [exact Hl|].
  rewrite H1, E1, rev_app_distr, filter_app, F1. cbn [app].
  assert (Hall : filter isd (List.rev new2) = List.rev new2).
  { assert (G : Forall (fun e => isd e = true) (List.rev new2)).
    { apply Forall_forall. intros e He. apply (in_map fst) in He. rewrite H3 in He.
      apply in_map_iff in He. destruct He as (q & Hq & _). unfold isd. rewrite <- Hq. reflexivity. }
    apply filter_all_true. exact G. }
  rewrite Hall. exact H3.
Qed.

End Phases.

(* ------------------------------------------------------------------ revision resolution (C08) ---- *)
Section Resolve.
Variable hashes : list ((Z * Z) * string).

Definition create_only (c : call) : Prop := match c with CCreateRev _ _ _ | CGetRev _ => True | _ => False end.
Definition no_create (c : call) : Prop := match c with CCreateRev _ _ _ => False | _ => True end.

(* the collision loop only ever creates and reads: a colliding revision is never updated or deleted;
   what it returns carries the requested template *)
Lemma ccr_spec : forall fuel s r coll,
  mspec create_only (fun x => r_tmpl (fst x) = r_tmpl r) (create_controller_revision hashes fuel s r coll).
Proof.
  induction fuel as [|f IH]; intros s r coll; cbn [create_controller_revision]; [apply mspec_fuel|].
  destruct (hash_of hashes (r_tmpl r) coll) as [h|]; [|apply mspec_fuel].
  eapply mspec_bind.
  - apply mspec_try. unfold api_create_rev. apply (mspec_call _ (fun created => r_tmpl created = r_tmpl r)); [exact I|].
    intros w a w' E. destruct (find_rev _ _); inversion E; subst. reflexivity.
  - intros [created|e] Hc.
    + apply mspec_ret. exact Hc.
    + destruct e; try apply mspec_fail.
      eapply mspec_bind; [unfold api_get_rev; apply (mspec_call _ (fun _ => True)); [exact I | auto]|].
      intros ex _. cbn [r_tmpl]. destruct (r_tmpl ex =? r_tmpl r) eqn:E.
      * apply mspec_ret. apply Z.eqb_eq in E. exact E.
      * apply IH.
Qed.

Lemma equal_revision_tmpl a b : equal_revision a b = true -> r_tmpl a = r_tmpl b.
Proof.
  unfold equal_revision. destruct (hash_num a), (hash_num b); intros H;
    try (apply andb_true_iff in H; destruct H as [_ H]); apply Z.eqb_eq in H; exact H.
Qed.

Lemma last_opt_In {A} (l : list A) x : last_opt l = Some x -> In x l.
Proof.
  unfold last_opt. destruct (List.rev l) as [|y t] eqn:E; [discriminate|]. intros H. inversion H; subst.
  apply in_rev. rewrite E. left. reflexivity.
Qed.

(* an equal revision is listed => nothing is created (reuse or renumber) *)
Lemma gsr_no_create_when_equal_listed s revs fresh_hash :
  hash_of hashes (s_tmpl s) (match st_coll (s_status s) with Some c => c | None => 0 end) = Some fresh_hash ->
  (exists r, In r revs /\ r_tmpl r = s_tmpl s /\ hash_num r = None) ->
  emits no_create (get_set_revisions hashes s revs).
Proof.
  intros Hh (r & Hr & Ht & Hn). unfold get_set_revisions. rewrite Hh.
  set (fresh := {| r_name := rev_name s fresh_hash; r_revision := _; r_tmpl := s_tmpl s; r_owner := Some (me s); r_match := true;
                   r_marker := None; r_hash := Some fresh_hash; r_created := created_now; r_labels_nil := false |}).
  assert (Heq : In r (filter (fun q => equal_revision q fresh) revs)).
  { apply filter_In. split; [exact Hr|]. unfold equal_revision. rewrite Hn.
    destruct (hash_num fresh); apply Z.eqb_eq; exact Ht. }
  destruct (last_opt (filter (fun q => equal_revision q fresh) revs)) as [e|] eqn:El.
  2:{ exfalso. unfold last_opt in El. destruct (List.rev (filter _ revs)) as [|y t] eqn:Er; [|discriminate].
      apply in_rev in Heq. rewrite Er in Heq. destruct Heq. }
  destruct (last_opt revs) as [l|] eqn:Ell.
  2:{ exfalso. unfold last_opt in Ell. destruct (List.rev revs) as [|y t] eqn:Er; [|discriminate].
      apply in_rev in Hr. rewrite Er in Hr. destruct Hr. }
  apply emits_bind.
  - destruct (equal_revision l e); [apply emits_ret|].
    apply emits_bind; [|intros u; apply emits_ret].
    clear. generalize 4%nat as fuel, EConflict as last0. intros fuel. revert e.
    induction fuel as [|f IH]; intros e last0; cbn [update_controller_revision]; [apply mspec_fail|].
    destruct (r_revision e =? _); [apply emits_ret|].
    unfold api_put_rev, api_get_rev. msimp; try exact I; apply IH.
  - intros [upd coll]. apply emits_ret.
Qed.

(* scaling edits cannot change the update revision: the resolution reads nothing of the set but its
   name, UID, template and status *)
Lemma ccr_ext : forall fuel s1 s2 r coll st, s_name s1 = s_name s2 ->
  create_controller_revision hashes fuel s1 r coll st = create_controller_revision hashes fuel s2 r coll st.
Proof.
  induction fuel as [|f IH]; intros s1 s2 r coll st Hn; cbn [create_controller_revision]; [reflexivity|].
  destruct (hash_of hashes (r_tmpl r) coll) as [h|]; [|reflexivity].
  unfold rev_name. rewrite Hn. unfold bind.
  destruct (try _ st) as [[c|e|p|] s1']; try reflexivity.
  destruct c as [created|e]; [reflexivity|]. destruct e; try reflexivity.
  destruct (api_get_rev _ s1') as [[ex|e|p|] s2']; try reflexivity.
  destruct (r_tmpl ex =? _); [reflexivity|]. apply IH. exact Hn.
Qed.

Lemma gsr_ignores_non_template_fields s1 s2 revs st :
  s_name s1 = s_name s2 -> s_uid s1 = s_uid s2 -> s_tmpl s1 = s_tmpl s2 -> s_status s1 = s_status s2 ->
  get_set_revisions hashes s1 revs st = get_set_revisions hashes s2 revs st.
Proof.
  intros Hn Hu Ht Hs. unfold get_set_revisions, rev_name, me. rewrite Hn, Hu, Ht, Hs.
  destruct (hash_of hashes (s_tmpl s2) _); [|reflexivity].
  unfold bind.
  match goal with |- (match ?m1 st with _ => _ end) = (match ?m2 st with _ => _ end) => assert (Hm : m1 st = m2 st) end.
  { destruct (last_opt _); [destruct (last_opt revs)|]; try reflexivity; apply ccr_ext; exact Hn. }
  rewrite Hm. reflexivity.
Qed.

End Resolve.
