(* TruncExample.v — the hypotheses of full_model_converges_any_history are satisfiable on a world whose revision
   history is longer than its limit (revisionHistoryLimit 0, two unreferenced old revisions): truncateHistory
   deletes during the rollout and after it, and the theorem still gives convergence within mu = 6 rounds. *)
From ASTS Require Import Base Slots SlotsProofs Names World Reconcile ReconcileCheck PlanProofs ConvergeProofs Env
                         TerminationProofs TerminationEnv QuietProofs RoundExec RoundCheck RoundLift RoundChain ExampleWorld
                         RoundRevs RoundExample.
From ASTS Require Import SortFilter RoundTrunc.

Definition ty_set : sset :=
  {| s_name := s_name rx_set; s_uid := s_uid rx_set; s_gen := s_gen rx_set; s_deleting := false; s_slots := s_slots rx_set;
     s_pause := None; s_replicas := s_replicas rx_set; s_selector := SelOk; s_policy := s_policy rx_set;
     s_strategy := s_strategy rx_set; s_rolling := s_rolling rx_set; s_tmpl := s_tmpl rx_set; s_claims := s_claims rx_set;
     s_service := s_service rx_set; s_rhl := Some 0; s_status := s_status rx_set; s_rv := s_rv rx_set |}.
Definition ty_revs := [ex_rev "web-a" 1 7; ex_rev "web-b" 2 8; ex_rev "web-h1" 3 1; ex_rev "web-h2" 4 2].
Definition ty_w0 := ex_world ty_set rx_pods ty_revs.
Fixpoint ty_iter (k : nat) (w : world) : world := match k with O => w | S k => env_round ex_hashes (ty_iter k w) end.
Definition ty_W (k : nat) : world := ty_iter k ty_w0.

Lemma ty_wf : wf ty_set 4 [1] (w_pods (ty_W 0)) /\ NoDup (w_pods (ty_W 0)).
Proof.
  split.
  - constructor.
    + intros p q Hp Hq _ Ho.
      destruct Hp as [<-|[<-|[<-|[]]]]; destruct Hq as [<-|[<-|[<-|[]]]]; try reflexivity; vm_compute in Ho; discriminate.
    + intros p [<-|[<-|[<-|[]]]]; vm_compute; repeat split.
    + intros p [<-|[<-|[<-|[]]]]; vm_compute; intros H; try reflexivity; discriminate.
    + intros p [<-|[<-|[<-|[]]]]; vm_compute; split; discriminate.
    + intros p [<-|[<-|[<-|[]]]]; reflexivity.
  - repeat constructor; cbn; intros H; repeat (destruct H as [H|H]; [discriminate|]); exact H.
Qed.

Theorem ty_converges :
  exists k, Z.of_nat k <= 6
    /\ forall m, (k <= m)%nat -> pods_converged ty_set rx_upd 4 [1] (w_pods (ty_W m))
                                /\ forall cur, plan_acts ty_set cur rx_upd 4 [1] (w_pods (ty_W m)) = [].
Proof.
  destruct (full_model_converges_any_history ex_hashes ty_set rx_upd 4 3 [1]) with
      (Wd := ty_W) (st0 := s_status ty_set) (rv0 := s_rv ty_set)
      (rcur0 := ex_rev "web-h1" 3 1) (rupd := ex_rev "web-h2" 4 2) (coll := 0) as (k & K1 & K2).
  - vm_compute. split; discriminate.
  - reflexivity.
  - repeat constructor; intros [].
  - discriminate.
  - reflexivity.
  - reflexivity.
  - reflexivity.
  - reflexivity.
  - apply rx_names.
  - discriminate.
  - intros k. reflexivity.
  - reflexivity.
  - apply ty_wf.
  - apply ty_wf.
  - intros p [<-|[<-|[<-|[]]]]; vm_compute; repeat split.
  - reflexivity.
  - vm_compute. reflexivity.
  - reflexivity.
  - reflexivity.
  - exists k. split; [exact K1|]. intros m Hm. destruct (K2 m Hm) as (A & _ & B). split; assumption.
Qed.

(* and truncation does happen on the way: four revisions at the start, two after the first round (the unreferenced
   ones are deleted in mid-rollout), one at the end (web-h1 goes once no pod and no status field names it) *)
Example ty_truncates :
  map r_name (w_revs (ty_W 0)) = ["web-a"; "web-b"; "web-h1"; "web-h2"]%string
  /\ map r_name (w_revs (ty_W 1)) = ["web-h1"; "web-h2"]%string
  /\ map r_name (w_revs (ty_W 8)) = ["web-h2"]%string
  /\ Z.of_nat (length (sort_revs (lrevs (ty_W 0) ty_set))) > 0.
Proof. vm_compute. repeat split. Qed.

(* ... and goes quiet: the theorem gives quiet worlds from round mu + 2 = 8 on *)
Theorem ty_goes_quiet :
  exists k, Z.of_nat k <= 8
    /\ forall m, (k <= m)%nat -> pods_converged ty_set rx_upd 4 [1] (w_pods (ty_W m)) /\ quietb ex_hashes (ty_W m) (ty_W m) = true.
Proof.
  destruct (full_model_any_history_goes_quiet ex_hashes ty_set rx_upd 4 3 [1]) with
      (Wd := ty_W) (st0 := s_status ty_set) (rv0 := s_rv ty_set)
      (rcur0 := ex_rev "web-h1" 3 1) (rupd := ex_rev "web-h2" 4 2) (coll := 0) as (k & K1 & K2).
  - vm_compute. split; discriminate.
  - reflexivity.
  - repeat constructor; intros [].
  - discriminate.
  - reflexivity.
  - reflexivity.
  - reflexivity.
  - reflexivity.
  - apply rx_names.
  - discriminate.
  - intros k. reflexivity.
  - reflexivity.
  - apply ty_wf.
  - apply ty_wf.
  - intros p [<-|[<-|[<-|[]]]]; vm_compute; repeat split.
  - reflexivity.
  - vm_compute. reflexivity.
  - reflexivity.
  - reflexivity.
  - intros l H. inversion H. lia.
  - exists k. split; [exact K1|]. exact K2.
Qed.

(* the premise "the update revision carries no numeric hash label" of the any-history theorems is needed: with numeric
   labels EqualRevision is not transitive.  web-l (label 5) is the update revision only THROUGH web-e (no parsable
   label, same template), which nothing refers to; revisionHistoryLimit 0 truncates web-e away in the first round, and
   the second round finds no revision equal to the template (label 7 expected) and creates one. *)
Definition nh_hashes : list ((Z * Z) * string) := [((2, 0), "7"%string); ((2, 1), "8"%string)].
Definition nh_rev (name : string) (n : Z) (h : string) : rev :=
  {| r_name := name; r_revision := n; r_tmpl := 2; r_owner := Some ex_me; r_match := true; r_marker := None;
     r_hash := Some h; r_created := 0; r_labels_nil := false |}.
Definition nh_set : sset :=
  let s := ex_set 2 None "Parallel" 2 0 (ex_status 2 "web-l" "web-l") in
  {| s_name := s_name s; s_uid := s_uid s; s_gen := s_gen s; s_deleting := false; s_slots := None; s_pause := None;
     s_replicas := s_replicas s; s_selector := SelOk; s_policy := s_policy s; s_strategy := s_strategy s; s_rolling := s_rolling s;
     s_tmpl := 2; s_claims := s_claims s; s_service := s_service s; s_rhl := Some 0; s_status := s_status s; s_rv := s_rv s |}.
Definition nh_pod (i : Z) : pod :=
  let p := ex_pod i "web-l" "Running" true in
  {| p_name := p_name p; p_match := true; p_owner := p_owner p; p_phase := p_phase p; p_ready := true; p_term := false;
     p_rev := "web-l"; p_namelabel := p_namelabel p; p_vols := p_vols p; p_tmpl := 2 |}.
Definition nh_w0 := ex_world nh_set [nh_pod 0; nh_pod 1] [nh_rev "web-e" 1 "abc"; nh_rev "web-l" 2 "5"].
Definition nh_w1 := env_round nh_hashes nh_w0.
Definition nh_w2 := env_round nh_hashes nh_w1.
Example nh_premise_needed :
  (* round 0 resolves web-l as current and update revision, nothing to adopt, its label is numeric *)
  gsr_value nh_hashes nh_set (sort_revs (lrevs nh_w0 nh_set)) = Some (nh_rev "web-l" 2 "5", nh_rev "web-l" 2 "5", 0)
  /\ nothing_to_adopt nh_w0 nh_set = true
  /\ hash_num (nh_rev "web-l" 2 "5") = Some 5
  (* the first round truncates web-e, the second creates a revision for the unchanged template *)
  /\ map r_name (w_revs nh_w1) = ["web-l"]%string
  /\ map r_name (w_revs nh_w2) = ["web-l"; "web-7"]%string.
Proof. vm_compute. repeat split; reflexivity. Qed.
