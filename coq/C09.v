(* C09 — A failure or crash at any API call is reported, harmless, and recoverable.  Statements only. *)
From ASTS Require Import Base Slots Names World Reconcile MonadProofs PlanProofs ReconcileProofs OwnershipProofs FaultProofs
                         Handlers Queue QueueProofs ExampleWorld.

(* (1) REPORTED.  For every API state, cache and fault oracle (any number of faults, any kinds, any
   positions): a reconcile that reports success has met only errors of the enumerated benign kinds
   (benign, FaultProofs.v: NotFound on an ownership patch / Invalid on a release; AlreadyExists on a revision
   create, handled by the collision loop; Conflict on a status / pod / revision update, retried inside the
   reconcile; the ignored re-read after such a conflict).  Contrapositive: any other failing call — on pods,
   claims, revisions, the set or its status, reads included — makes the reconcile report failure. *)
Theorem C09_success_means_only_benign_errors :
  forall hashes api cache faults log w',
    reconcile hashes api cache faults = (OOk, log, w') -> Forall benign log.
Proof. exact reconcile_success_only_benign_errors. Qed.
Print Assumptions C09_success_means_only_benign_errors.

(* (2) ... and a reported failure is retried: over the work-queue contract, a failed reconcile puts the key
   back with one more recorded failure (back-off), a successful one clears it, Done is always called *)
Theorem C09_failed_reconcile_is_requeued : forall sync q k t, wq_wf q -> q_queue q = k :: t ->
  exists q', process_next sync q = Some q' /\ wq_wf q'
    /\ q_processing q' = q_processing q /\ ~ In k (q_processing q')
    /\ (sync k = false -> In k (q_queue q') /\ q_num_requeues k q' = S (q_num_requeues k q))
    /\ (sync k = true -> ~ In k (q_queue q') /\ q_num_requeues k q' = O)
    /\ (forall k', k' <> k -> q_num_requeues k' q' = q_num_requeues k' q
                              /\ (In k' (q_queue q') <-> In k' (q_queue q))).
Proof. exact process_next_spec. Qed.
Print Assumptions C09_failed_reconcile_is_requeued.

(* (3) HARMLESS.  The actions executed are a prefix of the plan — the executor stops at the first action
   that fails — and a crash at call k is the fault "timeout, applied or lost, then nothing": the log of a
   crashed reconcile is a prefix of a log the theorems below already cover.  The safety theorems C03 C04 C05
   C07 C10 C11 C13 are all stated for EVERY fault oracle, so partial work never violates them. *)
Theorem C09_executor_stops_at_first_failure : forall (A : Type) (f : A -> M unit) l st r st',
  forM l f st = (r, st') ->
  (r = Ok tt) \/ (exists pre x post, l = pre ++ x :: post /\ forall a, r <> Ok a).
Proof. exact (@forM_prefix). Qed.
Print Assumptions C09_executor_stops_at_first_failure.

Theorem C09_partial_work_follows_the_plan :
  forall hashes api cache faults o log w',
    reconcile hashes api cache faults = (o, log, w') ->
    exists oc, (forall c, oc = Some c -> ctx_valid cache c) /\ Forall (fun e => call_in cache oc (fst e)) log.
Proof. exact reconcile_ctx. Qed.
Print Assumptions C09_partial_work_follows_the_plan.

(* (4) RECOVERABLE: the controller keeps no state between reconciles, so recovery is convergence from the
   state the failure left behind — C02. *)

(* non-vacuity: a 500 on the pod delete is reported; a NotFound on a release patch is not an error *)
Example C09_ex_reported :
  fst (fst (reconcile ex_hashes
                     (ex_world (ex_set 3 (Some "[1]"%string) "Parallel" 1 0 (ex_status 3 "web-h1" "web-h1")) ex_healthy3 [ex_rev "web-h1" 1 1])
                     (ex_world (ex_set 3 (Some "[1]"%string) "Parallel" 1 0 (ex_status 3 "web-h1" "web-h1")) ex_healthy3 [ex_rev "web-h1" 1 1])
                     [(FOn "delete pods web-1"%string, F500)])) = OErr.
Proof. vm_compute. reflexivity. Qed.
