(* C17 — Upgrade from the built-in StatefulSet never loses pods and survives interruption.
   Statements only; every proof is `exact <lemma>` into UpgradeProofs.v (or a closed computation).

   Vocabulary (Upgrade.v):  run orc sts w  runs the model of helper.Upgrade on the built-in object
   sts against the API state w under the fault oracle orc (any function from call index to
   "no fault" / 500 / conflict / notfound / exists / timeout-lost / timeout-applied / the process
   dies before / after the call) and yields the outcome, the final API state and the log of the
   calls, each with the API state in which it arrived.  Every theorem below quantifies over ALL
   oracles (hence every call position, every error kind, every kill point, any number of faults
   per run), all built-in objects (selector with matchLabels and matchExpressions, or nil) and all
   API states (any revision population, labels possibly nil, Advanced set present or not). *)
From ASTS Require Import Base Upgrade UpgradeProofs.

(* (i) The helper talks to three kinds of object only — ControllerRevisions, the Advanced
   StatefulSet, the built-in StatefulSet; a call on anything else (pods, claims ...) would be a
   COther entry of the log.  Every call addresses the set's own name or a revision the selector
   listed at the start of the run; the only delete is the built-in set's, with Orphan. *)
Theorem C17_no_call_on_pods_or_claims : forall orc sts w e,
  In e (rr_log (run orc sts w)) ->
  call_ok sts w (ev_call e) /\ call_resource (ev_call e) <> ROtherResource.
Proof. exact run_calls_ok. Qed.
Print Assumptions C17_no_call_on_pods_or_claims.

(* ... and whatever happens (faults, death), no ControllerRevision is removed or loses its owner,
   and the set's pods are never handed to the garbage collector (no cascading delete). *)
Theorem C17_revisions_and_pods_survive : forall orc sts w,
  w_cascaded (rr_world (run orc sts w)) = w_cascaded w
  /\ map rv_name (w_revs (rr_world (run orc sts w))) = map rv_name (w_revs w)
  /\ map rv_owner (w_revs (rr_world (run orc sts w))) = map rv_owner (w_revs w).
Proof. exact run_frame. Qed.
Print Assumptions C17_revisions_and_pods_survive.

(* (ii) Wherever a delete of the built-in set occurs in the log, it is the LAST call, it carries
   Orphan propagation, and in the API state in which it arrives the Advanced set exists with the
   built-in object's (converted) spec and status, and every revision the selector listed at the
   start of THIS run carries the marker and none of the matchLabels keys
   (good: has_marker, and lookup k = None for every matchLabels key k other than the marker key). *)
Theorem C17_delete_last_orphan_after_copy : forall orc sts w evs1 e evs2,
  rr_log (run orc sts w) = evs1 ++ e :: evs2 -> is_delete (ev_call e) = true ->
  evs2 = []
  /\ ev_call e = CDeleteSts (b_name sts) POrphan
  /\ ((exists a, w_asts (ev_pre e) = Some a /\ a_spec a = b_spec sts /\ a_status a = b_status sts)
      /\ (forall rv, In rv (w_revs (ev_pre e)) -> In (rv_name rv) (listed_names sts w) -> good sts (rv_labels rv)))
  /\ Forall (fun e' => is_delete (ev_call e') = false) evs1.
Proof. exact delete_is_last. Qed.
Print Assumptions C17_delete_last_orphan_after_copy.

(* (iii) Crash-safety and idempotence.  Hypotheses, all visible in the statement:
     - the selector is present and valid (otherwise Upgrade returns an error before any call);
     - ControllerRevision names are unique in the initial API state (they are object names);
     - every attempt is handed the same built-in object sts, and between attempts nobody else
       writes the objects: run_attempts threads the API state from one attempt to the next.
   Then for EVERY list of attempts — each under an arbitrary oracle: failing or dying at any call,
   several faults per attempt, or even succeeding — a following clean run succeeds, returns the
   Advanced set, leaves the built-in set absent, and ends in the same state as one clean run
   from the initial state, on the projection (built-in absent, labels/owner of every revision,
   Advanced metadata + spec + status, no cascade) — whether or not the Advanced set pre-existed. *)
Theorem C17_crash_safe_idempotent : forall sts sel w0 atts,
  b_selector sts = Some sel -> selector_valid sel = true -> names_unique w0 ->
  rr_out (run no_faults sts (run_attempts sts atts w0)) = OOk (clean_asts sts (run_attempts sts atts w0))
  /\ proj (rr_world (run no_faults sts (run_attempts sts atts w0))) = proj (rr_world (run no_faults sts w0))
  /\ w_sts (rr_world (run no_faults sts (run_attempts sts atts w0))) = false
  /\ view_of (clean_asts sts (run_attempts sts atts w0)) = view_of (clean_asts sts w0).
Proof. exact crash_safe. Qed.
Print Assumptions C17_crash_safe_idempotent.

(* the final state of the uninterrupted run, in closed form: built-in gone; exactly the listed
   revisions relabelled; Advanced set = its old metadata (or the built-in's when created) with the
   built-in spec and status *)
Theorem C17_clean_run_final_state : forall sts sel w,
  b_selector sts = Some sel -> selector_valid sel = true -> names_unique w ->
  rr_out (run no_faults sts w) = OOk (clean_asts sts w) /\ rr_world (run no_faults sts w) = clean_final sts w.
Proof. exact clean_run. Qed.
Print Assumptions C17_clean_run_final_state.

(* (iv) No panic, for every oracle and API state, as soon as the built-in object has a selector
   (apps/v1 validation requires one).  The model's "ill-typed reply" branches are unreachable. *)
Theorem C17_no_panic : forall orc sts w site,
  b_selector sts <> None -> rr_out (run orc sts w) <> OPanic site.
Proof. exact run_no_panic. Qed.
Print Assumptions C17_no_panic.

(* the hypothesis of (iv) is needed: a nil selector lists every revision of the namespace and
   then dereferences sts.Spec.Selector.MatchLabels.  Outside the domain of the property. *)
Definition ex_rev (n : string) (l : option labels) : revision := {| rv_name := n; rv_labels := l; rv_owner := Some "web"%string |}.
Definition ex_world (revs : list revision) (a : option aset) : world :=
  {| w_sts := true; w_revs := revs; w_asts := a; w_cascaded := false |}.
Theorem C17_nil_selector_panics_outside_domain : exists sts w site,
  b_selector sts = None /\ rr_out (run no_faults sts w) = OPanic site.
Proof.
  exists {| b_name := "web"%string; b_selector := None; b_meta := 7; b_spec := 3; b_status := 5 |},
         (ex_world [ex_rev "web-1"%string (Some [("app"%string, "web"%string)])] None).
  eexists. split; [reflexivity | vm_compute; reflexivity].
Qed.
Print Assumptions C17_nil_selector_panics_outside_domain.

(* (v) "selector labels removed", read as its purpose (upgrade.go: "otherwise sts will adopt it
   again on delete event"): after the relabelling a listed revision must not match the built-in
   selector any more.
   Full statement (REFUTED by the code as it is):
     forall sts sel w, b_selector sts = Some sel -> selector_valid sel = true -> names_unique w ->
       sel is not the empty selector ->
       forall r, In r (w_revs (rr_world (run no_faults sts w))) -> In (rv_name r) (listed_names sts w) ->
       list_matches (b_selector sts) (rv_labels r) = false.
   The loop deletes only the keys of Selector.MatchLabels: for a selector made of matchExpressions
   nothing is removed.  Witness: selector `app In (web)`, one revision labelled app=web. *)
Definition ex_sel_expr : selector :=
  {| sel_labels := []; sel_exprs := [{| e_key := "app"%string; e_op := OpIn; e_vals := ["web"%string] |}] |}.
Definition ex_sts (sel : selector) : bset :=
  {| b_name := "web"%string; b_selector := Some sel; b_meta := 7; b_spec := 3; b_status := 5 |}.
Theorem C17_expression_selector_refuted : exists sts sel w r a,
  b_selector sts = Some sel /\ selector_valid sel = true /\ names_unique w
  /\ (sel_labels sel <> [] \/ sel_exprs sel <> [])
  /\ rr_out (run no_faults sts w) = OOk a
  /\ In r (w_revs (rr_world (run no_faults sts w))) /\ In (rv_name r) (listed_names sts w)
  /\ list_matches (b_selector sts) (rv_labels r) = true.
Proof.
  exists (ex_sts ex_sel_expr), ex_sel_expr,
         (ex_world [ex_rev "web-1"%string (Some [("app"%string, "web"%string)])] None).
  eexists. eexists.
  split; [reflexivity|]. split; [reflexivity|].
  split; [repeat constructor; simpl; tauto|].
  split; [right; discriminate|].
  split; [vm_compute; reflexivity|].
  split; [vm_compute; left; reflexivity|].
  split; [vm_compute; left; reflexivity | vm_compute; reflexivity].
Qed.
Print Assumptions C17_expression_selector_refuted.

(* the positive part: if the selector has a matchLabels key (other than the marker key) — with or
   without matchExpressions — then when the built-in delete arrives no listed revision matches the
   selector any more, for every oracle and every API state ... *)
Theorem C17_matchlabels_unmatched_at_delete : forall orc sts sel w evs1 e evs2,
  b_selector sts = Some sel -> (exists k v, In (k, v) (sel_labels sel) /\ k <> marker_key) ->
  rr_log (run orc sts w) = evs1 ++ e :: evs2 -> is_delete (ev_call e) = true ->
  forall rv, In rv (w_revs (ev_pre e)) -> In (rv_name rv) (listed_names sts w) ->
  list_matches (b_selector sts) (rv_labels rv) = false.
Proof. exact unmatched_at_delete. Qed.
Print Assumptions C17_matchlabels_unmatched_at_delete.

(* ... and after an uninterrupted run; in particular for selectors WITHOUT matchExpressions and
   with a non-empty matchLabels (the statement asked for is the instance sel_exprs sel = []) *)
Theorem C17_matchlabels_selector_unmatched : forall sts sel w r,
  b_selector sts = Some sel -> (exists k v, In (k, v) (sel_labels sel) /\ k <> marker_key) ->
  names_unique w -> In r (w_revs (clean_final sts w)) -> In (rv_name r) (listed_names sts w) ->
  list_matches (b_selector sts) (rv_labels r) = false.
Proof. exact clean_final_unmatched. Qed.
Print Assumptions C17_matchlabels_selector_unmatched.

Corollary C17_plain_selector_unmatched : forall sts sel w r a,
  b_selector sts = Some sel -> sel_exprs sel = [] -> sel_labels sel <> [] -> ~ In marker_key (ml_keys sel) ->
  names_unique w ->
  rr_out (run no_faults sts w) = OOk a ->
  In r (w_revs (rr_world (run no_faults sts w))) -> In (rv_name r) (listed_names sts w) ->
  list_matches (b_selector sts) (rv_labels r) = false.
Proof. exact plain_selector_unmatched. Qed.
Print Assumptions C17_plain_selector_unmatched.

(* the two elementary facts about the loop body the crash-safety proof rests on *)
Theorem C17_relabel_idempotent : forall n ks ol, relabel n ks (Some (relabel n ks ol)) = relabel n ks ol.
Proof. exact relabel_idem. Qed.
Print Assumptions C17_relabel_idempotent.

Theorem C17_relabel_marks_and_strips : forall sts s ol,
  b_selector sts = Some s -> good sts (Some (relabel (b_name sts) (ml_keys s) ol)).
Proof. exact relabel_good. Qed.
Print Assumptions C17_relabel_marks_and_strips.

(* ---------------- non-vacuity -------------------------------------------------------------- *)
Definition ex_sel_ml : selector :=
  {| sel_labels := [("app"%string, "web"%string)];
     sel_exprs := [{| e_key := "tier"%string; e_op := OpIn; e_vals := ["db"%string; "cache"%string] |}] |}.
Definition ex_w0 : world :=
  ex_world [ ex_rev "web-1"%string (Some [("app"%string, "web"%string); ("tier"%string, "db"%string)]);
             ex_rev "web-2"%string None;
             ex_rev "web-3"%string (Some [("app"%string, "web"%string); ("tier"%string, "cache"%string);
                                         (marker_key, "web"%string)]);
             {| rv_name := "zzz"%string; rv_labels := Some [("app"%string, "web"%string); ("tier"%string, "db"%string)];
                rv_owner := Some "other"%string |} ]
           (Some {| a_meta := 9; a_spec := 1; a_status := 2; a_rv := 4 |}).

(* the hypotheses of (iii) hold of a concrete, non-trivial input *)
Example C17_hypotheses_satisfiable :
  b_selector (ex_sts ex_sel_ml) = Some ex_sel_ml /\ selector_valid ex_sel_ml = true /\ names_unique ex_w0
  /\ (exists k v, In (k, v) (sel_labels ex_sel_ml) /\ k <> marker_key)
  /\ listed_names (ex_sts ex_sel_ml) ex_w0 = ["web-1"%string; "web-3"%string; "zzz"%string].
Proof.
  split; [reflexivity|]. split; [reflexivity|].
  split; [unfold names_unique; simpl; repeat (constructor; [simpl; intuition discriminate|]); constructor|].
  split; [exists "app"%string, "web"%string; split; [left; reflexivity | discriminate]|].
  vm_compute. reflexivity.
Qed.

(* three interrupted attempts (timeout after the second relabelling was applied; death right after
   the Advanced set's update; conflict on the status update) and then a clean run: same final
   projection as the uninterrupted run, which is not the initial one *)
Definition ex_atts : list oracle := [fault_at 2 FTimeoutApplied; fault_at 2 FKillAfter; fault_at 2 FConflict].
Example C17_ex_interrupted :
  map (fun o => rr_out (run o (ex_sts ex_sel_ml) ex_w0)) [fault_at 2 FTimeoutApplied] = [OErr ETimeout]
  /\ proj (rr_world (run no_faults (ex_sts ex_sel_ml) (run_attempts (ex_sts ex_sel_ml) ex_atts ex_w0)))
     = proj (rr_world (run no_faults (ex_sts ex_sel_ml) ex_w0))
  /\ proj (rr_world (run no_faults (ex_sts ex_sel_ml) ex_w0)) <> proj ex_w0
  /\ pr_asts (proj (rr_world (run no_faults (ex_sts ex_sel_ml) ex_w0)))
     = Some {| av_meta := 9; av_spec := 3; av_status := 5 |}.
Proof.
  split; [vm_compute; reflexivity|]. split; [vm_compute; reflexivity|].
  split; [vm_compute; discriminate | vm_compute; reflexivity].
Qed.

(* (ii) is not vacuous: the uninterrupted run does end with the built-in delete, after 3 + 3 calls *)
Example C17_ex_delete_event :
  map (fun e => is_delete (ev_call e)) (rr_log (run no_faults (ex_sts ex_sel_ml) ex_w0))
  = [false; false; false; false; false; false; false; true].
Proof. vm_compute. reflexivity. Qed.

(* a death before the delete leaves the built-in set in place, with the copy complete *)
Example C17_ex_killed_before_delete :
  let r := run (fault_at 7 FKillBefore) (ex_sts ex_sel_ml) ex_w0 in
  rr_out r = OKilled 7 /\ w_sts (rr_world r) = true
  /\ option_map view_of (w_asts (rr_world r)) = Some {| av_meta := 9; av_spec := 3; av_status := 5 |}.
Proof. vm_compute. repeat split; reflexivity. Qed.
