(* TerminationProofs.v — the pod phase converges (C02): under the fairness premise every round
     reconcile ; terminating pods finish ; created pods become Running and Ready ; caches catch up
   strictly decreases a non-negative measure as long as the planner finds something to do, and a
   snapshot for which it finds nothing is converged (ConvergeProofs.v).  Hence after at most mu(pods)
   rounds the pods are exactly the desired ones, Ready, at the revision their ordinal calls for.

   The round is defined on the list of pods the set claims: the actions of the plan are applied the way
   the API server and the kubelet apply them when nothing fails (a delete removes the pod of that name,
   an update stores the repaired copy, a create adds the pod, which then becomes Running and Ready). *)
From ASTS Require Import Base Slots SlotsProofs Names NamesProofs World Reconcile ReconcileCheck PlanProofs
                         ConvergeProofs PodControlProofs Env.

(* ---------------------------------------------------------------- generic list facts --------------- *)
Fixpoint sumz (f : Z -> Z) (l : list Z) : Z := match l with [] => 0 | i :: t => f i + sumz f t end.
Lemma sumz_le f g l : (forall i, In i l -> f i <= g i) -> sumz f l <= sumz g l.
Proof.
  induction l as [|x t IH]; intros H; cbn [sumz]; [lia|].
  pose proof (H x (or_introl eq_refl)). assert (sumz f t <= sumz g t) by (apply IH; intros i Hi; apply H; right; exact Hi). lia.
Qed.
Lemma sumz_lt f g l k : (forall i, In i l -> f i <= g i) -> In k l -> f k < g k -> sumz f l < sumz g l.
Proof.
  induction l as [|x t IH]; intros H Hk Hlt; [destruct Hk|]. cbn [sumz].
  pose proof (H x (or_introl eq_refl)) as Hx.
  assert (Ht : forall i, In i t -> f i <= g i) by (intros i Hi; apply H; right; exact Hi).
  destruct Hk as [->|Hk].
  - pose proof (sumz_le f g t Ht). lia.
  - pose proof (IH Ht Hk Hlt). lia.
Qed.
Lemma sumz_nonneg f l : (forall i, 0 <= f i) -> 0 <= sumz f l.
Proof. intros H. induction l as [|x t IH]; cbn [sumz]; [lia|]. specialize (H x). lia. Qed.

Lemma filter_filter_length {A} (c k : A -> bool) l : (length (filter c (filter k l)) <= length (filter c l))%nat.
Proof.
  induction l as [|x t IH]; cbn [filter]; [lia|].
  destruct (k x); cbn [filter]; destruct (c x); cbn [length]; lia.
Qed.
Lemma filter_filter_length_lt {A} (c k : A -> bool) l x :
  In x l -> c x = true -> k x = false -> (length (filter c (filter k l)) < length (filter c l))%nat.
Proof.
  induction l as [|y t IH]; intros Hin Hc Hk; [destruct Hin|]. cbn [filter].
  destruct Hin as [->|Hin].
  - rewrite Hk, Hc. cbn [length]. pose proof (filter_filter_length c k t). lia.
  - specialize (IH Hin Hc Hk). destruct (k y); cbn [filter]; destruct (c y); cbn [length]; lia.
Qed.
Lemma filter_map_length {A} (c : A -> bool) (g : A -> A) l :
  (forall x, In x l -> c (g x) = c x) -> length (filter c (map g l)) = length (filter c l).
Proof.
  induction l as [|x t IH]; intros H; cbn [map filter]; [reflexivity|].
  rewrite (H x (or_introl eq_refl)).
  assert (IH' : length (filter c (map g t)) = length (filter c t)) by (apply IH; intros y Hy; apply H; right; exact Hy).
  destruct (c x); cbn [length]; lia.
Qed.
Lemma filter_none {A} (c : A -> bool) l : (forall x, In x l -> c x = false) -> filter c l = [].
Proof.
  induction l as [|x t IH]; intros H; cbn [filter]; [reflexivity|].
  rewrite (H x (or_introl eq_refl)). apply IH. intros y Hy. apply H. right. exact Hy.
Qed.

Lemma NoDup_app_intro {A} (l1 l2 : list A) :
  NoDup l1 -> NoDup l2 -> (forall x, In x l1 -> In x l2 -> False) -> NoDup (l1 ++ l2).
Proof.
  induction l1 as [|a t IH]; intros H1 H2 Hd; cbn [app]; [exact H2|].
  inversion H1; subst. constructor.
  - intros Hin. apply in_app_or in Hin. destruct Hin as [Hin|Hin]; [contradiction | apply (Hd a); [left; reflexivity | exact Hin]].
  - apply IH; [assumption | assumption|]. intros x Hx. apply Hd. right. exact Hx.
Qed.

(* ---------------------------------------------------------------- lookup by ordinal ---------------- *)
Definition at_ord (i : Z) (pods : list pod) : option pod := find (fun q => getOrdinal q =? i) pods.

Lemma at_ord_Some i pods p : at_ord i pods = Some p -> In p pods /\ getOrdinal p = i.
Proof. unfold at_ord. intros H. apply find_some in H. destruct H as [H1 H2]. apply Z.eqb_eq in H2. tauto. Qed.
Lemma at_ord_None i pods : at_ord i pods = None -> forall q, In q pods -> getOrdinal q <> i.
Proof. unfold at_ord. intros H q Hq E. pose proof (find_none _ _ H q Hq) as N. cbn in N. apply Z.eqb_neq in N. contradiction. Qed.
Lemma at_ord_unique i pods p : distinct_ordinals pods -> In p pods -> getOrdinal p = i -> 0 <= i -> at_ord i pods = Some p.
Proof.
  intros Hd Hp Ho Hi. destruct (at_ord i pods) as [q|] eqn:E.
  - destruct (at_ord_Some _ _ _ E) as [Hq Hqo]. f_equal. apply Hd; try assumption; lia.
  - exfalso. apply (at_ord_None _ _ E p Hp Ho).
Qed.

(* ================================================================ the round ========================= *)
Section Rounds.
Variable s : sset.
Variable upd : rinfo.
Variable cnt : Z.
Variable slots : list Z.
Hypothesis Hcnt : 0 <= cnt <= max_i32 + 1.
Hypothesis Hdel : s_deleting s = false.
Hypothesis Hclaims : NoDup (s_claims s).
(* the revision of a (re)created pod does not depend on the stored status: below the partition the current
   revision, at or above it the update revision.  Holds for every defaulted spec (RollingUpdate carries a
   partition); see use_current_defaulted below. *)
Hypothesis Huc : forall i, use_current s i = true -> i < umin_of s.

Definition ready_of (p : pod) : pod := set_ready p "Running" true.
Definition fixpod (p : pod) : pod :=
  let p1 := if identityMatches s p then p else updateIdentity s p in
  if storageMatches s p1 then p1 else updateStorage s p1.

Definition same_name (a b : pod) : bool := String.eqb (p_name a) (p_name b).
Definition deleted (acts : list act) (q : pod) : bool :=
  existsb (fun a => match a with ADelete p => same_name q p | _ => false end) acts.
Definition updated (acts : list act) (q : pod) : bool :=
  existsb (fun a => match a with AUpdate p => same_name q p | _ => false end) acts.
Fixpoint creates (acts : list act) : list pod :=
  match acts with [] => [] | ACreate p :: t => p :: creates t | _ :: t => creates t end.

(* the pods after the actions took effect and the kubelet did its part *)
Definition after (acts : list act) (pods : list pod) : list pod :=
  map (fun q => if updated acts q then fixpod q else q) (filter (fun q => negb (deleted acts q)) pods)
  ++ map ready_of (creates acts).
Definition round (cur : rinfo) (pods : list pod) : list pod := after (plan_acts s cur upd cnt slots pods) pods.

(* what the fairness premise and the API server guarantee about the claimed pods of a snapshot *)
Record wf (pods : list pod) : Prop := {
  wf_dist : distinct_ordinals pods;
  wf_settled : settled pods;
  wf_nodead : no_dead_condemned cnt slots pods;
  wf_ord : forall p, In p pods -> 0 <= getOrdinal p <= max_i32;
  wf_name : forall p, In p pods -> p_name p = pod_name (s_name s) (getOrdinal p) }.

(* the measure: per desired ordinal, the number of rounds its entry still needs; plus the pods to scale in *)
Definition outdated (i : Z) (p : pod) : bool :=
  negb (String.eqb (s_strategy s) "OnDelete") && (umin_of s <=? i) && negb (rev_is p upd).
Definition wt (i : Z) (e : option pod) : Z :=
  match e with
  | None => 1
  | Some p => if isFailed p || isSucceeded p then 2
              else b2z (negb (identityMatches s p && storageMatches s p)) + (if outdated i p then 2 else 0)
  end.
Definition is_cond (p : pod) : bool := is_condemned cnt slots (getOrdinal p).
Definition mu (pods : list pod) : Z :=
  sumz (fun i => wt i (at_ord i pods)) (ordinals_of cnt slots) + Z.of_nat (length (filter is_cond pods)).

Lemma wt_nonneg i e : 0 <= wt i e.
Proof.
  unfold wt. destruct e as [p|]; [|lia]. destruct (isFailed p || isSucceeded p); [lia|].
  destruct (negb (identityMatches s p && storageMatches s p)), (outdated i p); cbn [b2z]; lia.
Qed.
Lemma mu_nonneg pods : 0 <= mu pods.
Proof. unfold mu. pose proof (sumz_nonneg (fun i => wt i (at_ord i pods)) (ordinals_of cnt slots) (fun i => wt_nonneg i _)). lia. Qed.

(* ---------------------------------------------------------------- the repaired / created pods ------- *)
Lemma fixpod_fields p :
  p_phase (fixpod p) = p_phase p /\ p_ready (fixpod p) = p_ready p /\ p_term (fixpod p) = p_term p /\ p_rev (fixpod p) = p_rev p.
Proof.
  unfold fixpod. destruct (identityMatches s p);
    match goal with |- context [storageMatches s ?x] => destruct (storageMatches s x) end; repeat split; reflexivity.
Qed.
Lemma fixpod_name p : p_name p = pod_name (s_name s) (getOrdinal p) -> p_name (fixpod p) = p_name p.
Proof.
  intros Hn. unfold fixpod. destruct (identityMatches s p);
    match goal with |- context [storageMatches s ?x] => destruct (storageMatches s x) end; cbn; congruence.
Qed.
Lemma updateStorage_matches p : 0 <= getOrdinal p -> storageMatches s (updateStorage s p) = true.
Proof.
  intros Ho. unfold storageMatches.
  assert (Hord : getOrdinal (updateStorage s p) = getOrdinal p) by reflexivity. rewrite Hord.
  replace (0 <=? getOrdinal p) with true by (symmetry; apply Z.leb_le; lia). cbn [andb].
  apply forallb_forall. intros t Ht. cbn [updateStorage p_vols].
  rewrite (lookup_vol_claim_vols s (getOrdinal p) t _ Ht Hclaims).
  - cbn [opt_str_is v_claim]. apply String.eqb_refl.
  - intros v Hv. apply filter_In in Hv. destruct Hv as [_ Hv]. apply negb_true_iff in Hv.
    intros E. rewrite E in Hv. assert (smemb t (s_claims s) = true) by (apply RevisionProofs.smemb_In; exact Ht). congruence.
Qed.
Lemma updateIdentity_matches p : 0 <= getOrdinal p <= max_i32 -> identityMatches s (updateIdentity s p) = true.
Proof.
  intros Ho. unfold identityMatches, updateIdentity. cbn [p_name p_namelabel].
  rewrite (parse_pod_name (s_name s) (getOrdinal p) Ho).
  replace (0 <=? getOrdinal p) with true by (symmetry; apply Z.leb_le; lia).
  rewrite !String.eqb_refl. cbn [opt_str_is andb]. apply String.eqb_refl.
Qed.
Lemma identityMatches_updateStorage p : identityMatches s (updateStorage s p) = identityMatches s p.
Proof. reflexivity. Qed.
Lemma fixpod_matches p : 0 <= getOrdinal p <= max_i32 -> p_name p = pod_name (s_name s) (getOrdinal p) ->
  (identityMatches s (fixpod p) && storageMatches s (fixpod p)) = true.
Proof.
  intros Ho Hn. unfold fixpod.
  set (p1 := if identityMatches s p then p else updateIdentity s p).
  assert (H1 : identityMatches s p1 = true).
  { unfold p1. destruct (identityMatches s p) eqn:E; [exact E | apply updateIdentity_matches; exact Ho]. }
  assert (Ho1 : getOrdinal p1 = getOrdinal p).
  { unfold p1. destruct (identityMatches s p); [reflexivity|].
    change (getOrdinal (updateIdentity s p)) with (ordinal_of (pod_name (s_name s) (getOrdinal p))).
    unfold ordinal_of at 1. rewrite (parse_pod_name _ _ Ho). reflexivity. }
  destruct (storageMatches s p1) eqn:E.
  - rewrite H1, E. reflexivity.
  - rewrite identityMatches_updateStorage, H1. cbn [andb]. apply updateStorage_matches. lia.
Qed.

Lemma nvp_is_new cur i : exists rn tm, new_versioned_pod s cur upd i = new_pod s i rn tm
  /\ (umin_of s <= i -> rn = ri_name upd).
Proof.
  unfold new_versioned_pod. destruct (use_current s i) eqn:U.
  - exists (ri_name cur), (ri_tmpl cur). split; [reflexivity|]. intros H. apply Huc in U. lia.
  - exists (ri_name upd), (ri_tmpl upd). split; [reflexivity|]. intros _. reflexivity.
Qed.

(* a created pod, once Running and Ready: steady, identity and storage in order, at the right revision *)
Lemma ready_nvp cur i : 0 <= i <= max_i32 ->
  let q := ready_of (new_versioned_pod s cur upd i) in
  getOrdinal q = i /\ p_name q = pod_name (s_name s) i /\ steady q = true /\ isTerminating q = false
  /\ isCreated q = true /\ (isFailed q || isSucceeded q) = false
  /\ (identityMatches s q && storageMatches s q) = true /\ outdated i q = false.
Proof.
  intros Hi q. destruct (nvp_is_new cur i) as (rn & tm & E & Hrev).
  destruct (new_pod_identity s i rn tm Hi Hclaims) as (N1 & N2 & N3 & _ & _ & N6 & _ & _ & N9 & N10).
  assert (Hq : q = ready_of (new_pod s i rn tm)) by (unfold q; rewrite E; reflexivity).
  assert (Hname : p_name q = pod_name (s_name s) i) by (rewrite Hq; exact N1).
  assert (Hord : getOrdinal q = i) by (unfold getOrdinal; rewrite Hname; unfold ordinal_of; rewrite (parse_pod_name _ _ Hi); reflexivity).
  split; [exact Hord|]. split; [exact Hname|].
  assert (Hst : steady q = true) by (rewrite Hq; reflexivity).
  split; [exact Hst|]. split; [rewrite Hq; reflexivity|]. split; [rewrite Hq; reflexivity|]. split; [rewrite Hq; reflexivity|].
  split.
  - assert (I : identityMatches s q = identityMatches s (new_pod s i rn tm)) by (rewrite Hq; reflexivity).
    assert (S : storageMatches s q = storageMatches s (new_pod s i rn tm)) by (rewrite Hq; reflexivity).
    rewrite I, S, N9, N10. reflexivity.
  - unfold outdated. destruct (umin_of s <=? i) eqn:U; [|rewrite andb_false_r; reflexivity].
    apply Z.leb_le in U. specialize (Hrev U).
    assert (R : rev_is q upd = true).
    { unfold rev_is. rewrite Hq. cbn [ready_of set_ready p_rev]. rewrite N3, Hrev. apply String.eqb_refl. }
    rewrite R. cbn [negb]. apply andb_false_r.
Qed.


(* ---------------------------------------------------------------- what the plan's actions are ------- *)
Lemma wf_created pods : wf pods -> forall q, In q pods -> isCreated q = true.
Proof. intros W q Hq. destruct (wf_settled _ W q Hq) as (_ & C & _). exact C. Qed.

Lemma cnt_nonneg : 0 <= cnt. Proof. lia. Qed.

Lemma in_range_i32 i : in_range cnt slots i = true -> 0 <= i <= max_i32.
Proof. intros H. apply in_range_bounds in H. lia. Qed.

Lemma plan_update_justified cur pods p :
  In (AUpdate p) (plan_acts s cur upd cnt slots pods) ->
  In p pods /\ in_range cnt slots (getOrdinal p) = true /\ (isFailed p || isSucceeded p) = false
  /\ (identityMatches s p && storageMatches s p) = false.
Proof.
  intros Hin. destruct (plan_acts_struct s cur upd cnt slots pods Hdel) as (a2 & a3 & Heq & H2 & H3). cbn zeta in *.
  rewrite Heq in Hin. apply in_app_or in Hin. destruct Hin as [Hin|Hin].
  - destruct (rl_acts_split _ _ _ _ _ _ _ Hin) as (k & p0 & pre & post & Hn & _ & Hin' & _).
    destruct (rs_acts_cases _ _ _ _ _ _ _ Hin') as [(E & _)|[(E & _)|[(E & _)|(E & F & C & M)]]]; try discriminate.
    inversion E; subst p0. clear E.
    pose proof (replicas_of_kind _ _ _ _ _ _ _ _ Hn) as Hk.
    inversion Hk as [Hs | q Hq Ho Hr | Hr Hv].
    + subst q. split; [exact Hq|]. split; [rewrite Ho; exact Hr|]. split; assumption.
    + exfalso. destruct (nvp_fresh s cur upd (Z.of_nat k)) as (C' & _).
      match goal with Hx : new_versioned_pod _ _ _ _ = p |- _ => rewrite Hx in C' end. congruence.
  - apply in_app_or in Hin. destruct Hin as [Hin|Hin].
    + destruct H2 as [->|(_ & ->)]; [destruct Hin|]. destruct (cl_acts_in _ _ _ _ Hin) as (q & E & _). discriminate.
    + destruct H3 as [->|(_ & _ & _ & ->)]; [destruct Hin|]. destruct (ul_acts_in _ _ _ _ _ Hin) as (q & E). discriminate.
Qed.

Lemma plan_delete_cases cur pods p : wf pods ->
  In (ADelete p) (plan_acts s cur upd cnt slots pods) ->
  In p pods /\ (is_cond p = true \/ (in_range cnt slots (getOrdinal p) = true /\ 2 <= wt (getOrdinal p) (Some p))).
Proof.
  intros W Hin. destruct (plan_delete_justified _ _ _ _ _ _ _ cnt_nonneg Hin)
    as [Hp C _ | Hp R F _ | i Hs R U [[Hp Ho]|Hfresh] Hrev _ _ _ _].
  - split; [exact Hp|]. left. exact C.
  - split; [exact Hp|]. right. split; [exact R|]. unfold wt. rewrite F. lia.
  - split; [exact Hp|]. right. rewrite Ho. split; [exact R|]. unfold wt.
    destruct (isFailed p || isSucceeded p); [lia|].
    assert (O : outdated i p = true).
    { unfold outdated. rewrite Hs, Hrev. replace (umin_of s <=? i) with true by (symmetry; apply Z.leb_le; exact U). reflexivity. }
    rewrite O. destruct (negb (identityMatches s p && storageMatches s p)); cbn [b2z]; lia.
  - exfalso. destruct (nvp_is_new cur i) as (rn & tm & E & Hr). specialize (Hr U).
    unfold rev_is in Hrev. rewrite Hfresh, E in Hrev. cbn [new_pod p_rev] in Hrev. rewrite Hr, String.eqb_refl in Hrev. discriminate.
Qed.

Lemma plan_create_cases cur pods f : wf pods ->
  In (ACreate f) (plan_acts s cur upd cnt slots pods) ->
  exists i, in_range cnt slots i = true /\ f = new_versioned_pod s cur upd i
    /\ (at_ord i pods = None
        \/ exists p0, In p0 pods /\ getOrdinal p0 = i /\ In (ADelete p0) (plan_acts s cur upd cnt slots pods)).
Proof.
  intros W Hin. destruct (plan_create_justified _ _ _ _ _ _ _ (wf_created _ W) Hin) as (_ & i & Hi & R & E & H).
  exists i. split; [exact R|]. split; [exact E|]. destruct H as [H|(p0 & pre & post & Hp0 & Ho & _ & Hacts)].
  - left. unfold at_ord. apply find_none_intro. intros q Hq. apply Z.eqb_neq. apply H. exact Hq.
  - right. exists p0. split; [exact Hp0|]. split; [exact Ho|]. rewrite Hacts. apply in_or_app. right. left. reflexivity.
Qed.

Lemma same_name_ord a b : same_name a b = true -> getOrdinal a = getOrdinal b.
Proof. unfold same_name, getOrdinal. intros H. apply String.eqb_eq in H. rewrite H. reflexivity. Qed.
Lemma same_name_refl a : same_name a a = true. Proof. apply String.eqb_refl. Qed.

Lemma deleted_intro acts p : In (ADelete p) acts -> deleted acts p = true.
Proof. intros H. unfold deleted. apply existsb_exists. exists (ADelete p). split; [exact H | apply same_name_refl]. Qed.
Lemma updated_intro acts p : In (AUpdate p) acts -> updated acts p = true.
Proof. intros H. unfold updated. apply existsb_exists. exists (AUpdate p). split; [exact H | apply same_name_refl]. Qed.

Lemma deleted_elim cur pods p : wf pods -> In p pods ->
  deleted (plan_acts s cur upd cnt slots pods) p = true -> In (ADelete p) (plan_acts s cur upd cnt slots pods).
Proof.
  intros W Hp H. unfold deleted in H. apply existsb_exists in H. destruct H as (a & Ha & Hm).
  destruct a as [x|p'|x]; try discriminate.
  destruct (plan_delete_cases cur pods p' W Ha) as [Hp' _].
  assert (p = p'); [|subst; exact Ha].
  apply (wf_dist _ W); try assumption; [apply (wf_ord _ W p Hp) | apply same_name_ord; exact Hm].
Qed.
Lemma updated_elim cur pods p : wf pods -> In p pods ->
  updated (plan_acts s cur upd cnt slots pods) p = true -> In (AUpdate p) (plan_acts s cur upd cnt slots pods).
Proof.
  intros W Hp H. unfold updated in H. apply existsb_exists in H. destruct H as (a & Ha & Hm).
  destruct a as [x|x|p']; try discriminate.
  destruct (plan_update_justified cur pods p' Ha) as [Hp' _].
  assert (p = p'); [|subst; exact Ha].
  apply (wf_dist _ W); try assumption; [apply (wf_ord _ W p Hp) | apply same_name_ord; exact Hm].
Qed.

Lemma creates_In acts f : In f (creates acts) <-> In (ACreate f) acts.
Proof.
  induction acts as [|a t IH]; cbn [creates]; [tauto|].
  destruct a as [x|x|x]; cbn [In]; rewrite ?IH; split; intros H.
  - destruct H as [->|H]; [left; reflexivity | right; exact H].
  - destruct H as [H|H]; [inversion H; left; reflexivity | right; exact H].
  - right; exact H.
  - destruct H as [H|H]; [discriminate | exact H].
  - right; exact H.
  - destruct H as [H|H]; [discriminate | exact H].
Qed.

(* membership in the pods after a round *)
Lemma after_In acts pods q :
  In q (after acts pods) <->
  (exists p, In p pods /\ deleted acts p = false /\ q = (if updated acts p then fixpod p else p))
  \/ (exists f, In (ACreate f) acts /\ q = ready_of f).
Proof.
  unfold after. rewrite in_app_iff, !in_map_iff. split.
  - intros [(p & E & Hp)|(f & E & Hf)].
    + left. apply filter_In in Hp. destruct Hp as [Hp Hk]. apply negb_true_iff in Hk. exists p. auto.
    + right. exists f. rewrite <- creates_In. auto.
  - intros [(p & Hp & Hk & E)|(f & Hf & E)].
    + left. exists p. split; [auto|]. apply filter_In. split; [exact Hp | rewrite Hk; reflexivity].
    + right. exists f. rewrite creates_In. auto.
Qed.


(* ---------------------------------------------------------------- the repaired copy keeps the rest --- *)
Lemma fixpod_preds p :
  isFailed (fixpod p) = isFailed p /\ isSucceeded (fixpod p) = isSucceeded p /\ isCreated (fixpod p) = isCreated p
  /\ isTerminating (fixpod p) = isTerminating p /\ isRunningAndReady (fixpod p) = isRunningAndReady p
  /\ steady (fixpod p) = steady p /\ settled_pod (fixpod p) = settled_pod p /\ (forall r, rev_is (fixpod p) r = rev_is p r).
Proof.
  destruct (fixpod_fields p) as (F1 & F2 & F3 & F4).
  unfold settled_pod, steady, isFailed, isSucceeded, isCreated, isTerminating, isRunningAndReady, rev_is.
  rewrite F1, F2, F3, F4. repeat split; reflexivity.
Qed.

Section OneRound.
Variable cur : rinfo.
Variable pods : list pod.
Hypothesis W : wf pods.
Let acts := plan_acts s cur upd cnt slots pods.
Let g (p : pod) : pod := if updated acts p then fixpod p else p.

Lemma g_name p : In p pods -> p_name (g p) = p_name p.
Proof. intros Hp. unfold g. destruct (updated acts p); [apply fixpod_name; apply (wf_name _ W p Hp) | reflexivity]. Qed.
Lemma g_ord p : In p pods -> getOrdinal (g p) = getOrdinal p.
Proof. intros Hp. unfold getOrdinal. rewrite (g_name p Hp). reflexivity. Qed.
Lemma g_preds p :
  isFailed (g p) = isFailed p /\ isSucceeded (g p) = isSucceeded p /\ isCreated (g p) = isCreated p
  /\ isTerminating (g p) = isTerminating p /\ steady (g p) = steady p /\ settled_pod (g p) = settled_pod p
  /\ (forall r, rev_is (g p) r = rev_is p r).
Proof.
  unfold g. destruct (updated acts p); [|repeat split; reflexivity].
  destruct (fixpod_preds p) as (A & B & C & D & _ & E & F & G). repeat split; assumption.
Qed.

(* the members of the next snapshot: a kept pod (repaired if the plan says so), or a created pod, Ready *)
Lemma round_members q : In q (round cur pods) ->
  (exists p, In p pods /\ deleted acts p = false /\ q = g p)
  \/ (exists i, in_range cnt slots i = true /\ q = ready_of (new_versioned_pod s cur upd i)
                /\ In (ACreate (new_versioned_pod s cur upd i)) acts
                /\ (at_ord i pods = None \/ exists p0, In p0 pods /\ getOrdinal p0 = i /\ In (ADelete p0) acts)).
Proof.
  unfold round. fold acts. intros H. apply after_In in H. destruct H as [(p & Hp & Hk & E)|(f & Hf & E)].
  - left. exists p. auto.
  - right. destruct (plan_create_cases cur pods f W Hf) as (i & R & Ef & Hc). exists i. subst f. auto.
Qed.

Lemma round_wf : wf (round cur pods).
Proof.
  constructor.
  - (* distinct ordinals *)
    intros q1 q2 H1 H2 H0 Ho.
    destruct (round_members _ H1) as [(p1 & Hp1 & Hk1 & E1)|(i1 & R1 & E1 & Hc1 & Hx1)];
    destruct (round_members _ H2) as [(p2 & Hp2 & Hk2 & E2)|(i2 & R2 & E2 & Hc2 & Hx2)].
    + assert (p1 = p2); [|subst; reflexivity].
      apply (wf_dist _ W); try assumption; [apply (wf_ord _ W p1 Hp1)|].
      rewrite <- (g_ord p1 Hp1), <- (g_ord p2 Hp2). subst. exact Ho.
    + exfalso. destruct (ready_nvp cur i2 (in_range_i32 _ R2)) as (O2 & _).
      assert (Hpo : getOrdinal p1 = i2) by (rewrite <- (g_ord p1 Hp1); subst; rewrite Ho; exact O2).
      destruct Hx2 as [Hn|(p0 & Hp0 & Ho0 & Hd0)].
      * apply (at_ord_None _ _ Hn p1 Hp1 Hpo).
      * assert (p1 = p0) by (apply (wf_dist _ W); try assumption; [apply (wf_ord _ W p1 Hp1) | congruence]).
        subst p0. rewrite (deleted_intro _ _ Hd0) in Hk1. discriminate.
    + exfalso. destruct (ready_nvp cur i1 (in_range_i32 _ R1)) as (O1 & _).
      assert (Hpo : getOrdinal p2 = i1) by (rewrite <- (g_ord p2 Hp2); subst; rewrite <- Ho; exact O1).
      destruct Hx1 as [Hn|(p0 & Hp0 & Ho0 & Hd0)].
      * apply (at_ord_None _ _ Hn p2 Hp2 Hpo).
      * assert (p2 = p0) by (apply (wf_dist _ W); try assumption; [apply (wf_ord _ W p2 Hp2) | congruence]).
        subst p0. rewrite (deleted_intro _ _ Hd0) in Hk2. discriminate.
    + destruct (ready_nvp cur i1 (in_range_i32 _ R1)) as (O1 & _). destruct (ready_nvp cur i2 (in_range_i32 _ R2)) as (O2 & _).
      assert (i1 = i2) by (subst; congruence). subst. reflexivity.
  - (* settled *)
    intros q Hq. destruct (round_members _ Hq) as [(p & Hp & Hk & E)|(i & R & E & _)]; subst q.
    + destruct (g_preds p) as (_ & _ & C & T & _ & S & _). rewrite C, T, S. apply (wf_settled _ W p Hp).
    + destruct (ready_nvp cur i (in_range_i32 _ R)) as (_ & _ & St & T & C & _).
      split; [exact T|]. split; [exact C|]. unfold settled_pod. rewrite St. reflexivity.
  - (* no dead pod outside the desired set *)
    intros q Hq Hc. destruct (round_members _ Hq) as [(p & Hp & Hk & E)|(i & R & E & _)]; subst q.
    + destruct (g_preds p) as (F & S & _). rewrite F, S. apply (wf_nodead _ W p Hp). rewrite <- (g_ord p Hp). exact Hc.
    + destruct (ready_nvp cur i (in_range_i32 _ R)) as (_ & _ & _ & _ & _ & F & _). exact F.
  - (* ordinals *)
    intros q Hq. destruct (round_members _ Hq) as [(p & Hp & Hk & E)|(i & R & E & _)]; subst q.
    + rewrite (g_ord p Hp). apply (wf_ord _ W p Hp).
    + destruct (ready_nvp cur i (in_range_i32 _ R)) as (O & _). rewrite O. apply in_range_i32. exact R.
  - (* names *)
    intros q Hq. destruct (round_members _ Hq) as [(p & Hp & Hk & E)|(i & R & E & _)]; subst q.
    + rewrite (g_ord p Hp), (g_name p Hp). apply (wf_name _ W p Hp).
    + destruct (ready_nvp cur i (in_range_i32 _ R)) as (O & N & _). rewrite O. exact N.
Qed.


Lemma in_range_not_cond p : in_range cnt slots (getOrdinal p) = true -> is_cond p = false.
Proof. intros H. unfold is_cond, is_condemned. rewrite H. reflexivity. Qed.

Lemma kept_in_round p : In p pods -> deleted acts p = false -> In (g p) (round cur pods).
Proof. intros Hp Hk. unfold round. fold acts. apply after_In. left. exists p. auto. Qed.
Lemma created_in_round f : In (ACreate f) acts -> In (ready_of f) (round cur pods).
Proof. intros Hf. unfold round. fold acts. apply after_In. right. exists f. auto. Qed.

Lemma wt_ready_nvp i : in_range cnt slots i = true -> wt i (Some (ready_of (new_versioned_pod s cur upd i))) = 0.
Proof.
  intros R. destruct (ready_nvp cur i (in_range_i32 _ R)) as (_ & _ & _ & _ & _ & F & M & O).
  unfold wt. rewrite F, M, O. reflexivity.
Qed.

(* the entry of a desired ordinal never gets heavier *)
Lemma wt_round_le i : in_range cnt slots i = true -> wt i (at_ord i (round cur pods)) <= wt i (at_ord i pods).
Proof.
  intros R. pose proof (in_range_i32 _ R) as Hi.
  destruct (at_ord i (round cur pods)) as [x|] eqn:E'.
  - destruct (at_ord_Some _ _ _ E') as [Hx Hxo].
    destruct (round_members x Hx) as [(p & Hp & Hk & E)|(i' & R' & E & _)]; subst x.
    + rewrite (g_ord p Hp) in Hxo.
      rewrite (at_ord_unique i pods p (wf_dist _ W) Hp Hxo (proj1 Hi)).
      destruct (g_preds p) as (F & S & _ & _ & _ & _ & Rv). unfold wt. rewrite F, S.
      destruct (isFailed p || isSucceeded p); [lia|].
      assert (O : outdated i (g p) = outdated i p) by (unfold outdated; rewrite Rv; reflexivity). rewrite O.
      unfold g. destruct (updated acts p).
      * rewrite (fixpod_matches p (wf_ord _ W p Hp) (wf_name _ W p Hp)). cbn [negb b2z].
        destruct (negb (identityMatches s p && storageMatches s p)); cbn [b2z]; lia.
      * lia.
    + destruct (ready_nvp cur i' (in_range_i32 _ R')) as (O' & _). assert (i' = i) by congruence. subst i'.
      rewrite (wt_ready_nvp i R). apply wt_nonneg.
  - cbn [wt]. destruct (at_ord i pods) as [p|] eqn:E; [|cbn [wt]; lia].
    destruct (at_ord_Some _ _ _ E) as [Hp Hpo].
    destruct (deleted acts p) eqn:D.
    + destruct (plan_delete_cases cur pods p W (deleted_elim cur pods p W Hp D)) as [_ [C|[_ H2]]].
      * rewrite in_range_not_cond in C by (rewrite Hpo; exact R). discriminate.
      * rewrite Hpo in H2. lia.
    + exfalso. apply (at_ord_None _ _ E' (g p) (kept_in_round p Hp D)). rewrite (g_ord p Hp). exact Hpo.
Qed.

(* the pods to scale in only get fewer *)
Lemma cond_round_split :
  length (filter is_cond (round cur pods)) = length (filter is_cond (filter (fun q => negb (deleted acts q)) pods)).
Proof.
  unfold round. fold acts. unfold after. rewrite filter_app, app_length.
  rewrite (filter_none is_cond (map ready_of (creates acts))).
  2:{ intros x Hx. apply in_map_iff in Hx. destruct Hx as (f & <- & Hf). apply creates_In in Hf.
      destruct (plan_create_cases cur pods f W Hf) as (i & R & -> & _).
      destruct (ready_nvp cur i (in_range_i32 _ R)) as (O & _). apply in_range_not_cond. rewrite O. exact R. }
  cbn [length]. rewrite Nat.add_0_r. apply filter_map_length.
  intros x Hx. apply filter_In in Hx. destruct Hx as [Hx _]. unfold is_cond.
  change (if updated acts x then fixpod x else x) with (g x). rewrite (g_ord x Hx). reflexivity.
Qed.
Lemma cond_round_le : (length (filter is_cond (round cur pods)) <= length (filter is_cond pods))%nat.
Proof. rewrite cond_round_split. apply filter_filter_length. Qed.
Lemma cond_round_lt p : In (ADelete p) acts -> is_cond p = true ->
  (length (filter is_cond (round cur pods)) < length (filter is_cond pods))%nat.
Proof.
  intros Ha Hc. rewrite cond_round_split. destruct (plan_delete_cases cur pods p W Ha) as [Hp _].
  apply (filter_filter_length_lt _ _ _ p Hp Hc). rewrite (deleted_intro _ _ Ha). reflexivity.
Qed.

Lemma mu_round_le : mu (round cur pods) <= mu pods.
Proof.
  unfold mu. pose proof cond_round_le.
  assert (sumz (fun i => wt i (at_ord i (round cur pods))) (ordinals_of cnt slots)
          <= sumz (fun i => wt i (at_ord i pods)) (ordinals_of cnt slots)).
  { apply sumz_le. intros i Hi. apply wt_round_le. apply in_range_iff_desired. exact Hi. }
  lia.
Qed.
Lemma mu_round_lt_at i : in_range cnt slots i = true -> wt i (at_ord i (round cur pods)) < wt i (at_ord i pods) ->
  mu (round cur pods) < mu pods.
Proof.
  intros R Hlt. unfold mu. pose proof cond_round_le.
  assert (sumz (fun i => wt i (at_ord i (round cur pods))) (ordinals_of cnt slots)
          < sumz (fun i => wt i (at_ord i pods)) (ordinals_of cnt slots)).
  { apply (sumz_lt _ _ _ i); [|apply in_range_iff_desired; exact R | exact Hlt].
    intros j Hj. apply wt_round_le. apply in_range_iff_desired. exact Hj. }
  lia.
Qed.

(* every action of the plan pays for itself *)
Lemma delete_pays p : In (ADelete p) acts -> mu (round cur pods) < mu pods.
Proof.
  intros Ha. destruct (plan_delete_cases cur pods p W Ha) as [Hp [C|[R H2]]].
  - unfold mu. pose proof (cond_round_lt p Ha C).
    assert (sumz (fun i => wt i (at_ord i (round cur pods))) (ordinals_of cnt slots)
            <= sumz (fun i => wt i (at_ord i pods)) (ordinals_of cnt slots)).
    { apply sumz_le. intros i Hi. apply wt_round_le. apply in_range_iff_desired. exact Hi. }
    lia.
  - apply (mu_round_lt_at (getOrdinal p) R). pose proof (in_range_i32 _ R) as Hi.
    rewrite (at_ord_unique _ pods p (wf_dist _ W) Hp eq_refl (proj1 Hi)).
    destruct (at_ord (getOrdinal p) (round cur pods)) as [x|] eqn:E'; [|cbn [wt] in *; lia].
    destruct (at_ord_Some _ _ _ E') as [Hx Hxo].
    destruct (round_members x Hx) as [(p' & Hp' & Hk & E)|(i' & R' & E & _)]; subst x.
    + exfalso. rewrite (g_ord p' Hp') in Hxo.
      assert (p' = p) by (apply (wf_dist _ W); try assumption; apply (wf_ord _ W p' Hp')). subst p'.
      rewrite (deleted_intro _ _ Ha) in Hk. discriminate.
    + destruct (ready_nvp cur i' (in_range_i32 _ R')) as (O' & _). assert (i' = getOrdinal p) by congruence. subst i'.
      rewrite (wt_ready_nvp _ R). lia.
Qed.
Lemma create_pays f : In (ACreate f) acts -> mu (round cur pods) < mu pods.
Proof.
  intros Ha. destruct (plan_create_cases cur pods f W Ha) as (i & R & -> & H).
  destruct H as [Hn|(p0 & Hp0 & Ho0 & Hd0)]; [|apply (delete_pays p0 Hd0)].
  apply (mu_round_lt_at i R). pose proof (in_range_i32 _ R) as Hi.
  destruct (ready_nvp cur i Hi) as (O & _).
  rewrite (at_ord_unique i (round cur pods) _ (wf_dist _ round_wf) (created_in_round _ Ha) O (proj1 Hi)).
  rewrite (wt_ready_nvp i R), Hn. cbn [wt]. lia.
Qed.
Lemma update_pays p : In (AUpdate p) acts -> mu (round cur pods) < mu pods.
Proof.
  intros Ha. destruct (plan_update_justified cur pods p Ha) as (Hp & R & F & M).
  destruct (deleted acts p) eqn:D; [apply (delete_pays p (deleted_elim cur pods p W Hp D))|].
  apply (mu_round_lt_at (getOrdinal p) R). pose proof (in_range_i32 _ R) as Hi.
  rewrite (at_ord_unique _ pods p (wf_dist _ W) Hp eq_refl (proj1 Hi)).
  rewrite (at_ord_unique _ (round cur pods) (g p) (wf_dist _ round_wf) (kept_in_round p Hp D) (g_ord p Hp) (proj1 Hi)).
  destruct (g_preds p) as (Fg & Sg & _ & _ & _ & _ & Rv). unfold wt. rewrite Fg, Sg, F.
  assert (O : outdated (getOrdinal p) (g p) = outdated (getOrdinal p) p) by (unfold outdated; rewrite Rv; reflexivity). rewrite O.
  unfold g. rewrite (updated_intro _ _ Ha), (fixpod_matches p (wf_ord _ W p Hp) (wf_name _ W p Hp)), M. cbn [negb b2z]. lia.
Qed.

(* PROGRESS: as long as the planner finds something to do, the round strictly decreases the measure *)
Theorem round_decreases : acts <> [] -> mu (round cur pods) < mu pods.
Proof.
  intros Hne.
  assert (Hin : exists a, In a acts).
  { unfold acts in *. destruct (plan_acts s cur upd cnt slots pods) as [|a t]; [congruence | exists a; left; reflexivity]. }
  destruct Hin as [a Hin].
  destruct a as [f|p|p]; [apply (create_pays f Hin) | apply (delete_pays p Hin) | apply (update_pays p Hin)].
Qed.

(* and a round of an empty plan changes nothing *)
Lemma round_quiet : acts = [] -> round cur pods = pods.
Proof.
  intros E. unfold round. fold acts. rewrite E. unfold after, deleted, updated. cbn [existsb creates map negb].
  rewrite app_nil_r. rewrite map_id. clear.
  induction pods as [|x t IH]; cbn [filter]; [reflexivity | f_equal; exact IH].
Qed.

End OneRound.

(* ---------------------------------------------------------------- finitely many rounds -------------- *)
(* the current revision the reconcile resolves may differ from round to round (it follows the stored status);
   curs k is the one of round k *)
Fixpoint run (curs : nat -> rinfo) (k : nat) (pods : list pod) : list pod :=
  match k with O => pods | S k' => run (fun n => curs (S n)) k' (round (curs O) pods) end.

Lemma run_wf : forall k curs pods, wf pods -> wf (run curs k pods).
Proof. induction k as [|k IH]; intros curs pods W; cbn [run]; [exact W | apply IH; apply round_wf; exact W]. Qed.

Lemma run_quiet : forall k curs pods, (forall cur, plan_acts s cur upd cnt slots pods = []) -> run curs k pods = pods.
Proof.
  induction k as [|k IH]; intros curs pods H; cbn [run]; [reflexivity|].
  rewrite (round_quiet (curs O) pods (H (curs O))). apply IH. exact H.
Qed.

Lemma run_stable : forall k m curs pods,
  (forall cur, plan_acts s cur upd cnt slots (run curs k pods) = []) -> run curs (k + m) pods = run curs k pods.
Proof.
  induction k as [|k IH]; intros m curs pods H; cbn [run Nat.add] in *.
  - apply run_quiet. exact H.
  - apply IH. exact H.
Qed.

(* C02, pod phase: from EVERY well-formed snapshot, whatever current revisions the rounds resolve, after at
   most mu(pods) rounds the pods are converged; from then on the planner finds nothing to do and further
   rounds change nothing. *)
Theorem rounds_converge : forall pods, wf pods -> forall curs,
  exists k, Z.of_nat k <= mu pods
    /\ pods_converged s upd cnt slots (run curs k pods)
    /\ (forall cur, plan_acts s cur upd cnt slots (run curs k pods) = [])
    /\ (forall m, run curs (k + m) pods = run curs k pods).
Proof.
  assert (G : forall n pods, wf pods -> mu pods <= Z.of_nat n -> forall curs,
            exists k, Z.of_nat k <= mu pods /\ pods_converged s upd cnt slots (run curs k pods)
                      /\ (forall cur, plan_acts s cur upd cnt slots (run curs k pods) = [])).
  { induction n as [|n IH]; intros pods W Hmu curs.
    - destruct (plan_acts s (curs O) upd cnt slots pods) as [|a t] eqn:E.
      + assert (C : pods_converged s upd cnt slots pods).
        { apply (empty_plan_means_converged s (curs O)); try assumption; [lia | apply (wf_settled _ W) | apply (wf_nodead _ W)]. }
        exists O. cbn [run]. split; [apply mu_nonneg|]. split; [exact C|].
        intros cur. apply converged_means_empty_plan; [lia | apply (wf_dist _ W) | exact C].
      + exfalso. assert (Hne : plan_acts s (curs O) upd cnt slots pods <> []) by (rewrite E; discriminate).
        pose proof (round_decreases (curs O) pods W Hne). pose proof (mu_nonneg (round (curs O) pods)). lia.
    - destruct (plan_acts s (curs O) upd cnt slots pods) as [|a t] eqn:E.
      + assert (C : pods_converged s upd cnt slots pods).
        { apply (empty_plan_means_converged s (curs O)); try assumption; [lia | apply (wf_settled _ W) | apply (wf_nodead _ W)]. }
        exists O. cbn [run]. split; [apply mu_nonneg|]. split; [exact C|].
        intros cur. apply converged_means_empty_plan; [lia | apply (wf_dist _ W) | exact C].
      + assert (Hne : plan_acts s (curs O) upd cnt slots pods <> []) by (rewrite E; discriminate).
        pose proof (round_decreases (curs O) pods W Hne) as Hlt.
        destruct (IH (round (curs O) pods) (round_wf (curs O) pods W) ltac:(lia) (fun n => curs (S n))) as (k & K1 & K2 & K3).
        exists (S k). cbn [run]. split; [lia|]. split; [exact K2 | exact K3]. }
  intros pods W curs.
  destruct (G (Z.to_nat (mu pods)) pods W ltac:(pose proof (mu_nonneg pods); lia) curs) as (k & K1 & K2 & K3).
  exists k. split; [exact K1|]. split; [exact K2|]. split; [exact K3|].
  intros m. apply run_stable. exact K3.
Qed.

(* ---------------------------------------------------------------- no pod is listed twice ------------- *)
Lemma creates_app a b : creates (a ++ b) = creates a ++ creates b.
Proof.
  induction a as [|x t IH]; cbn [app creates]; [reflexivity|]. destruct x; cbn [app]; rewrite IH; reflexivity.
Qed.
Lemma creates_deletes l : (forall a, In a l -> exists p, a = ADelete p) -> creates l = [].
Proof.
  induction l as [|x t IH]; intros H; cbn [creates]; [reflexivity|].
  destruct (H x (or_introl eq_refl)) as [p ->]. apply IH. intros a Ha. apply H. right. exact Ha.
Qed.

Lemma nvp_ordinal cur i : 0 <= i <= max_i32 -> getOrdinal (new_versioned_pod s cur upd i) = i.
Proof.
  intros Hi. destruct (ready_nvp cur i Hi) as (O & _). exact O.
Qed.

(* the creations of the replica loop, in order, are fresh pods at strictly increasing ordinals *)
Lemma rl_creates cur mono : forall l i,
  0 <= i -> i + Z.of_nat (length l) <= max_i32 + 1 ->
  (forall k p, nth_error l k = Some (Some p) -> isCreated p = true \/ p = new_versioned_pod s cur upd (i + Z.of_nat k)) ->
  NoDup (creates (rl_acts s cur upd mono i l))
  /\ forall f, In f (creates (rl_acts s cur upd mono i l)) -> exists j, i <= j <= max_i32 /\ f = new_versioned_pod s cur upd j.
Proof.
  induction l as [|[p0|] t IH]; intros i Hi Hb Hent; cbn [rl_acts creates length] in *.
  - split; [constructor | intros f []].
  - assert (Ht : forall k p, nth_error t k = Some (Some p) ->
                   isCreated p = true \/ p = new_versioned_pod s cur upd (i + 1 + Z.of_nat k)).
    { intros k p Hk. replace (i + 1 + Z.of_nat k) with (i + Z.of_nat (S k)) by lia. apply (Hent (S k)). exact Hk. }
    destruct (IH (i + 1) ltac:(lia) ltac:(lia) Ht) as [IH1 IH2].
    set (rest := if rs_go mono p0 then rl_acts s cur upd mono (i + 1) t else []).
    assert (R1 : NoDup (creates rest)) by (unfold rest; destruct (rs_go mono p0); [exact IH1 | constructor]).
    assert (R2 : forall f, In f (creates rest) -> exists j, i + 1 <= j <= max_i32 /\ f = new_versioned_pod s cur upd j).
    { unfold rest. destruct (rs_go mono p0); [exact IH2 | intros f []]. }
    rewrite creates_app.
    assert (Hhead : creates (rs_acts s cur upd mono i p0) = [] \/ creates (rs_acts s cur upd mono i p0) = [new_versioned_pod s cur upd i]).
    { unfold rs_acts. destruct (isFailed p0 || isSucceeded p0); [right; reflexivity|].
      destruct (isCreated p0) eqn:C; cbn [negb].
      - left. destruct (isTerminating p0 && mono); [reflexivity|]. destruct (negb (isRunningAndReady p0) && mono); [reflexivity|].
        destruct (identityMatches s p0 && storageMatches s p0); reflexivity.
      - right. destruct (Hent O p0 eq_refl) as [C'|E]; [congruence|]. rewrite Z.add_0_r in E. rewrite <- E. reflexivity. }
    destruct Hhead as [-> | ->]; cbn [app].
    + split; [exact R1|]. intros f Hf. destruct (R2 f Hf) as (j & Hj & E). exists j. split; [lia | exact E].
    + split.
      * constructor; [|exact R1]. intros Hin. destruct (R2 _ Hin) as (j & Hj & E).
        apply (f_equal getOrdinal) in E. rewrite !nvp_ordinal in E by lia. lia.
      * intros f [<-|Hf]; [exists i; split; [lia | reflexivity]|].
        destruct (R2 f Hf) as (j & Hj & E). exists j. split; [lia | exact E].
  - assert (Ht : forall k p, nth_error t k = Some (Some p) ->
                   isCreated p = true \/ p = new_versioned_pod s cur upd (i + 1 + Z.of_nat k)).
    { intros k p Hk. replace (i + 1 + Z.of_nat k) with (i + Z.of_nat (S k)) by lia. apply (Hent (S k)). exact Hk. }
    destruct (IH (i + 1) ltac:(lia) ltac:(lia) Ht) as [IH1 IH2]. split; [exact IH1|].
    intros f Hf. destruct (IH2 f Hf) as (j & Hj & E). exists j. split; [lia | exact E].
Qed.

Lemma plan_creates_nodup cur pods : wf pods -> NoDup (creates (plan_acts s cur upd cnt slots pods)).
Proof.
  intros W. destruct (plan_acts_struct s cur upd cnt slots pods Hdel) as (a2 & a3 & Heq & H2 & H3). cbn zeta in *.
  rewrite Heq, !creates_app.
  rewrite (creates_deletes a2), (creates_deletes a3), !app_nil_r.
  - apply (rl_creates cur (negb (allowsBurst s)) (replicas_of s cur upd cnt slots pods) 0); [lia | rewrite replicas_of_length; lia|].
    intros k p Hk. pose proof (replicas_of_kind _ _ _ _ _ _ _ _ Hk) as Hkind.
    inversion Hkind as [Hs | q Hq Ho Hr | Hr Hv]; subst.
    + left. apply (wf_created _ W). exact Hq.
    + right. rewrite Z.add_0_l. reflexivity.
  - destruct H3 as [->|(_ & _ & _ & ->)]; [intros a []|]. intros a Ha. apply (ul_acts_in _ _ _ _ _ Ha).
  - destruct H2 as [->|(_ & ->)]; [intros a []|]. intros a Ha. destruct (cl_acts_in _ _ _ _ Ha) as (q & E & _). exists q. exact E.
Qed.

Lemma NoDup_map_inj_on {A B} (f : A -> B) l : NoDup l -> (forall x y, In x l -> In y l -> f x = f y -> x = y) -> NoDup (map f l).
Proof.
  induction l as [|a t IH]; intros Hnd Hinj; cbn [map]; constructor.
  - intros Hin. apply in_map_iff in Hin. destruct Hin as (y & Hy & Hyt).
    assert (a = y) by (apply Hinj; [left; reflexivity | right; exact Hyt | symmetry; exact Hy]). subst y.
    inversion Hnd; contradiction.
  - inversion Hnd; subst. apply IH; [assumption|]. intros x y Hx Hy. apply Hinj; right; assumption.
Qed.

Lemma round_nodup cur pods : wf pods -> NoDup pods -> NoDup (round cur pods).
Proof.
  intros W Hnd. unfold round, after.
  set (acts := plan_acts s cur upd cnt slots pods).
  assert (Hg : forall x, In x pods -> getOrdinal (if updated acts x then fixpod x else x) = getOrdinal x).
  { intros x Hx. destruct (updated acts x); [|reflexivity]. unfold getOrdinal. rewrite (fixpod_name x (wf_name _ W x Hx)). reflexivity. }
  apply NoDup_app_intro.
  - apply NoDup_map_inj_on; [apply NoDup_filter; exact Hnd|].
    intros x y Hx Hy E. apply filter_In in Hx. apply filter_In in Hy. destruct Hx as [Hx _]. destruct Hy as [Hy _].
    apply (wf_dist _ W); try assumption; [apply (wf_ord _ W x Hx)|].
    rewrite <- (Hg x Hx), <- (Hg y Hy), E. reflexivity.
  - apply NoDup_map_inj_on; [apply plan_creates_nodup; exact W|].
    intros x y Hx Hy E. apply creates_In in Hx. apply creates_In in Hy.
    destruct (plan_create_cases cur pods x W Hx) as (i & Ri & -> & _).
    destruct (plan_create_cases cur pods y W Hy) as (j & Rj & -> & _).
    assert (i = j); [|subst; reflexivity].
    destruct (ready_nvp cur i (in_range_i32 _ Ri)) as (Oi & _). destruct (ready_nvp cur j (in_range_i32 _ Rj)) as (Oj & _).
    rewrite <- Oi, <- Oj, E. reflexivity.
  - intros q H1 H2. apply in_map_iff in H1. destruct H1 as (p & <- & Hp). apply filter_In in Hp. destruct Hp as [Hp Hk].
    apply negb_true_iff in Hk. apply in_map_iff in H2. destruct H2 as (f & E & Hf). apply creates_In in Hf.
    destruct (plan_create_cases cur pods f W Hf) as (i & Ri & -> & Hc).
    destruct (ready_nvp cur i (in_range_i32 _ Ri)) as (Oi & _).
    assert (Hpo : getOrdinal p = i) by (rewrite <- (Hg p Hp), <- E; exact Oi).
    destruct Hc as [Hn|(p0 & Hp0 & Ho0 & Hd0)].
    + apply (at_ord_None _ _ Hn p Hp Hpo).
    + assert (p = p0) by (apply (wf_dist _ W); try assumption; [apply (wf_ord _ W p Hp) | congruence]). subst p0.
      fold acts in Hd0. rewrite (deleted_intro _ _ Hd0) in Hk. discriminate.
Qed.

Lemma run_nodup : forall k curs pods, wf pods -> NoDup pods -> NoDup (run curs k pods).
Proof.
  induction k as [|k IH]; intros curs pods W Hnd; cbn [run]; [exact Hnd|].
  apply IH; [apply round_wf; exact W | apply round_nodup; assumption].
Qed.


End Rounds.

(* the hypothesis on use_current holds for every defaulted spec: the CRD defaulting gives a RollingUpdate
   strategy its rollingUpdate block with a partition *)
Lemma use_current_defaulted s :
  (String.eqb (s_strategy s) "RollingUpdate" = true -> s_rolling s <> None) ->
  forall i, use_current s i = true -> i < umin_of s.
Proof.
  intros Hd i H. unfold use_current in H. unfold umin_of. apply orb_true_iff in H. destruct H as [H|H].
  - apply andb_true_iff in H. destruct H as [H1 H2]. apply andb_true_iff in H2. destruct H2 as [H2 _].
    destruct (s_rolling s); [discriminate | exfalso; apply (Hd H1); reflexivity].
  - destruct (s_rolling s) as [[part|]|]; try discriminate. apply Z.ltb_lt in H. lia.
Qed.
