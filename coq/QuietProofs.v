(* QuietProofs.v — when a reconcile issues no write at all (C02, last clause).
   quietb api cache is a decidable condition on the API state (revisions) and the informer cache (set, pods);
   when it holds, a reconcile without injected faults succeeds, leaves the API state as it is, and its log
   holds nothing but list / get calls.  The condition says: nothing to adopt, every cached pod is either
   foreign or already claimed, the update revision exists and is the newest of its equals, the plan of the
   pod phase is empty, the stored status is the one the pod phase computes, the revision history is within
   its limit. *)
From ASTS Require Import Base Slots Names World Reconcile ReconcileCheck MonadProofs PlanProofs.

Definition is_read (c : call) : Prop := match c with CListRevs _ | CGetSet | CGetRev _ => True | _ => False end.

(* m, run on API state w with an empty fault oracle, returns v, leaves w as it is and logs only reads *)
Definition reads {A} (w : world) (m : M A) (v : A) : Prop :=
  forall st, rs_api st = w -> rs_faults st = [] ->
    exists st', m st = (Ok v, st') /\ rs_api st' = w /\ rs_faults st' = [] /\ log_ext is_read st st'.

Lemma reads_ret {A} w (v : A) : reads w (ret v) v.
Proof. intros st Hw Hf. exists st. repeat split; try assumption. apply log_ext_refl. Qed.

Lemma reads_bind {A B} w (m : M A) (f : A -> M B) v u : reads w m v -> reads w (f v) u -> reads w (bind m f) u.
Proof.
  intros Hm Hf st Hw Hfl. destruct (Hm st Hw Hfl) as (s1 & E1 & W1 & F1 & L1).
  destruct (Hf s1 W1 F1) as (s2 & E2 & W2 & F2 & L2).
  exists s2. unfold bind. rewrite E1. repeat split; try assumption. eapply log_ext_trans; eassumption.
Qed.

Lemma reads_call {A} w (c : call) (apply : world -> (A + errkind) * world) v :
  is_read c -> apply w = (inl v, w) -> reads w (call_api c apply) v.
Proof.
  intros Hc Ha st Hw Hf. unfold call_api. rewrite Hf. cbn [take_fault]. rewrite Hw, Ha.
  eexists. split; [reflexivity|]. cbn [rs_api rs_faults]. repeat split.
  exists [(c, None)]. split; [reflexivity | constructor; [exact Hc | constructor]].
Qed.

Section Quiet.
Variable hashes : list ((Z * Z) * string).

(* ---------------------------------------------------------------- the values of the read phases ------ *)
Definition lr1 (w : world) (s : sset) (marker : bool) : list rev :=
  sort_by_name (filter (fun r => negb (r_labels_nil r) &&
                                 (if marker then opt_str_is (r_marker r) (s_name s) else r_match r)) (w_revs w)).
Definition lrevs (w : world) (s : sset) : list rev :=
  dedupe_revs [] (filter (fun r => is_orphan (r_owner r) || owner_uid_is s (r_owner r)) (lr1 w s false ++ lr1 w s true)).

Lemma reads_list_revisions w s : reads w (list_revisions s) (lrevs w s).
Proof.
  unfold list_revisions. eapply reads_bind; [apply reads_call; [exact I | reflexivity]|].
  eapply reads_bind; [apply reads_call; [exact I | reflexivity]|]. apply reads_ret.
Qed.

Definition nothing_to_adopt (w : world) (s : sset) : bool :=
  negb (existsb (fun r => is_orphan (r_owner r)) (lrevs w s) && negb (s_deleting s)).

Lemma reads_adopt w s : nothing_to_adopt w s = true -> reads w (adopt_orphan_revisions s) tt.
Proof.
  unfold nothing_to_adopt. intros H. apply negb_true_iff in H. unfold adopt_orphan_revisions.
  eapply reads_bind; [apply reads_list_revisions|]. rewrite H. apply reads_ret.
Qed.

(* ClaimPods without a call: every cached pod is foreign, already ours and matching, or left alone *)
Definition claim_quiet (s : sset) (p : pod) : bool :=
  match p_owner p with
  | Some _ => negb (owner_uid_is s (p_owner p)) || (p_match p && isMemberOf s p) || s_deleting s
  | None => s_deleting s || negb (p_match p && isMemberOf s p) || p_term p
  end.
Definition claim_value (s : sset) (pods : list pod) : list pod :=
  filter (fun p => owner_uid_is s (p_owner p) && (p_match p && isMemberOf s p)) pods.

Lemma reads_claim_pods w s : forall pods memo failed,
  forallb (claim_quiet s) pods = true -> reads w (claim_pods s pods memo failed) (claim_value s pods, failed).
Proof.
  induction pods as [|p t IH]; intros memo failed H; cbn [claim_pods claim_value filter].
  - apply reads_ret.
  - cbn [forallb] in H. apply andb_true_iff in H. destruct H as [Hp Ht]. unfold claim_quiet in Hp.
    specialize (IH memo failed Ht). fold (claim_value s t).
    destruct (p_owner p) as [o|] eqn:Eo.
    + destruct (owner_uid_is s (Some o)) eqn:U; cbn [negb andb orb] in *.
      * destruct (p_match p && isMemberOf s p) eqn:Mt; cbn [orb] in Hp.
        -- eapply reads_bind; [exact IH|]. apply reads_ret.
        -- rewrite Hp. exact IH.
      * exact IH.
    + cbn [owner_uid_is andb].
      destruct (s_deleting s || negb (p_match p && isMemberOf s p)) eqn:D; [exact IH|].
      cbn [orb] in Hp. rewrite Hp. exact IH.
Qed.

(* getStatefulSetRevisions without a call: the update revision exists and is the newest *)
Definition gsr_value (s : sset) (revs : list rev) : option (rev * rev * Z) :=
  let coll0 := match st_coll (s_status s) with Some c => c | None => 0 end in
  let next := match last_opt revs with Some l => r_revision l + 1 | None => 1 end in
  match hash_of hashes (s_tmpl s) coll0 with
  | None => None
  | Some h0 =>
    let fresh := {| r_name := rev_name s h0; r_revision := next; r_tmpl := s_tmpl s; r_owner := Some (me s);
                    r_match := true; r_marker := None; r_hash := Some h0; r_created := created_now; r_labels_nil := false |} in
    let equal := filter (fun r => equal_revision r fresh) revs in
    match last_opt equal, last_opt revs with
    | Some e, Some l =>
        if equal_revision l e
        then Some (match find (fun r => String.eqb (r_name r) (st_currev (s_status s))) revs with Some c => c | None => l end, l, coll0)
        else None
    | _, _ => None
    end
  end.

Lemma reads_gsr w s revs x : gsr_value s revs = Some x -> reads w (get_set_revisions hashes s revs) x.
Proof.
  unfold gsr_value, get_set_revisions. destruct (hash_of hashes (s_tmpl s) _) as [h0|]; [|discriminate].
  cbv zeta.
  match goal with |- context [last_opt (filter ?f revs)] => destruct (last_opt (filter f revs)) as [e|]; [|discriminate] end.
  destruct (last_opt revs) as [l|]; [|discriminate].
  destruct (equal_revision l e); [|discriminate]. intros H. inversion H; subst x. clear H.
  eapply reads_bind; [apply reads_ret|]. cbv beta iota. apply reads_ret.
Qed.

(* truncateHistory without a call *)
Definition trunc_quiet (s : sset) (pods : list pod) (revs : list rev) (cur upd : rev) : bool :=
  let live := r_name cur :: r_name upd :: map p_rev pods in
  let history := filter (fun r => negb (smemb (r_name r) live)) revs in
  match s_rhl s with
  | None => false
  | Some limit => Z.of_nat (length history) <=? limit
  end.
Lemma reads_truncate w s pods revs cur upd : trunc_quiet s pods revs cur upd = true ->
  reads w (truncate_history s pods revs cur upd) tt.
Proof.
  unfold trunc_quiet, truncate_history. destruct (s_rhl s) as [limit|]; [|discriminate]. cbv zeta.
  intros H. rewrite H. apply reads_ret.
Qed.

(* ---------------------------------------------------------------- the condition ---------------------- *)
Definition quiet_pods (api : world) (s : sset) (pods : list pod) : bool :=
  let revs := sort_revs (lrevs api s) in
  match gsr_value s revs with
  | None => false
  | Some (cur, upd, coll) =>
      match plan_pods s {| ri_name := r_name cur; ri_tmpl := r_tmpl cur |} {| ri_name := r_name upd; ri_tmpl := r_tmpl upd |} coll pods with
      | None => false
      | Some po =>
          match po_acts po with
          | [] => negb (inconsistent_status s (complete_rolling_update s (po_status po))) && trunc_quiet s pods revs cur upd
          | _ :: _ => false
          end
      end
  end.

Definition quietb (api cache : world) : bool :=
  match w_set cache with
  | None => true
  | Some s =>
      get_paused (s_pause s)
      || match s_selector s with
         | SelInvalid => true
         | SelOk => nothing_to_adopt api s && forallb (claim_quiet s) (w_pods cache)
                    && quiet_pods api s (claim_value s (w_pods cache))
         end
  end.

Lemma reads_uss w s cache pods : quiet_pods w s pods = true -> reads w (update_stateful_set hashes s cache pods) tt.
Proof.
  unfold quiet_pods, update_stateful_set. intros H.
  eapply reads_bind; [apply reads_list_revisions|].
  destruct (gsr_value s (sort_revs (lrevs w s))) as [[[cur upd] coll]|] eqn:G; [|discriminate].
  eapply reads_bind; [apply (reads_gsr _ _ _ _ G)|]. cbv beta iota zeta.
  destruct (plan_pods s _ _ coll pods) as [po|]; [|discriminate].
  destruct (po_acts po); [|discriminate]. apply andb_true_iff in H. destruct H as [H1 H2]. apply negb_true_iff in H1.
  cbn [forM]. eapply reads_bind; [apply reads_ret|].
  eapply reads_bind; [unfold update_set_status; rewrite H1; apply reads_ret|].
  apply reads_truncate. exact H2.
Qed.

Lemma reads_sync api cache : quietb api cache = true -> reads api (sync hashes cache) tt.
Proof.
  unfold quietb, sync. destruct (w_set cache) as [s|]; [|intros _; apply reads_ret].
  destruct (get_paused (s_pause s)); [intros _; apply reads_ret|]. cbn [orb].
  destruct (s_selector s); [|intros _; apply reads_ret].
  intros H. apply andb_true_iff in H. destruct H as [H H3]. apply andb_true_iff in H. destruct H as [H1 H2].
  eapply reads_bind; [apply reads_adopt; exact H1|].
  eapply reads_bind; [apply reads_claim_pods; exact H2|]. cbn [fst snd].
  apply reads_uss. exact H3.
Qed.

(* C02, last clause: in a quiet world a reconcile issues no write at all — it succeeds, the API state is
   unchanged, and every call of its log is a list or a get *)
Theorem quiet_reconcile api cache :
  quietb api cache = true ->
  exists log, reconcile hashes api cache [] = (OOk, log, api) /\ forall c e, In (c, e) log -> is_read c.
Proof.
  intros H. unfold reconcile.
  destruct (reads_sync api cache H {| rs_api := api; rs_log := []; rs_n := 0; rs_faults := [] |} eq_refl eq_refl)
    as (st' & E & W & _ & (new & El & Fl)).
  rewrite E. cbn [outcome_of]. rewrite W. exists (List.rev (rs_log st')). split; [reflexivity|].
  intros c e Hin. apply in_rev in Hin. rewrite El in Hin. cbn [rs_log] in Hin. rewrite app_nil_r in Hin.
  rewrite Forall_forall in Fl. apply (Fl (c, e) Hin).
Qed.

End Quiet.
