(* C19 — Client-side helpers are lossless.  Statements only; every proof is `exact <lemma>`.
   Part B: annotation codecs (Codec.v / CodecProofs.v).
   Part A: conversion between the two StatefulSet APIs (Json.v / Convert.v / ConvertProofs.v).
   Part C: idempotence of client-side defaulting (Defaults.v / DefaultsProofs.v). *)
From ASTS Require Import Base Slots SlotsProofs Codec CodecProofs.
From ASTS Require Import Json Convert ConvertProofs ConvertPinned Defaults DefaultsProofs.
From Coq Require Import Sorting.Sorted.
Open Scope string_scope.
Open Scope Z_scope.

(* ========================================================================================== *)
(* Part B — annotation codecs                                                                 *)
(*   amap       = option (list (string * string)); None is the nil Go map                     *)
(*   wf_amap a  = the keys of a are pairwise distinct (it is a map)                            *)
(*   all_i32 l  = every member of l is an int32                                               *)
(*   a sets.Int32 argument is  None (nil set)  or  Some l (the set of the members of l);      *)
(*   set_of s is its ascending duplicate-free listing (what sets.Int32.List() returns)        *)
(* ========================================================================================== *)

(* (B1) json.Marshal([]int32) followed by json.Unmarshal is the identity, for EVERY list of
   int32 values (any length, any order, duplicates, extremes): decimal printer / parser round trip *)
Theorem C19_print_parse_roundtrip : forall l : list Z,
  all_i32 l -> parse_slots (print_slots l) = Some l.
Proof. exact parse_print_slots. Qed.
Print Assumptions C19_print_parse_roundtrip.

(* (B2) SetDeleteSlots then GetDeleteSlots yields the same set, for every non-empty finite set of
   int32 given by an arbitrary list, and every annotation map including nil *)
Theorem C19_set_then_get : forall (a : amap) (l : list Z),
  all_i32 l -> l <> [] ->
  get_slots (lookup slots_key (set_slots a (Some l))) = norm l
  /\ lookup slots_key (set_slots a (Some l)) = Some (print_slots (norm l)).
Proof. exact set_then_get. Qed.
Print Assumptions C19_set_then_get.

(* (B3) the empty set and the nil set remove the key; a nil map stays nil (and usable), a
   non-nil map stays non-nil *)
Theorem C19_set_empty_removes_key : forall (a : amap) (s : option (list Z)),
  set_of s = [] ->
  lookup slots_key (set_slots a s) = None
  /\ get_slots (lookup slots_key (set_slots a s)) = []
  /\ (a = None <-> set_slots a s = None).
Proof. exact set_slots_empty. Qed.
Print Assumptions C19_set_empty_removes_key.

(* (B4) AddDeleteSlots = union with what GetDeleteSlots reads (a malformed value reads as {}) *)
Theorem C19_add_is_union : forall (a : amap) (s : option (list Z)),
  all_i32 (arg_list s) ->
  let u := norm (get_slots (lookup slots_key a) ++ arg_list s) in
  get_slots (lookup slots_key (add_slots a s)) = u
  /\ (forall x, In x u <-> In x (get_slots (lookup slots_key a)) \/ In x (arg_list s)).
Proof. exact add_slots_read. Qed.
Print Assumptions C19_add_is_union.

(* (B5) no other annotation is disturbed: every other key keeps its value ... *)
Theorem C19_slots_frame : forall (a : amap) (s : option (list Z)) (k : string),
  k <> slots_key ->
  lookup k (set_slots a s) = lookup k a /\ lookup k (add_slots a s) = lookup k a.
Proof. exact slots_frame. Qed.
Print Assumptions C19_slots_frame.

(* ... and no key is added or dropped, the result is still a map *)
Theorem C19_slots_keys : forall (a : amap) (s : option (list Z)),
  wf_amap a ->
  wf_amap (set_slots a s) /\ wf_amap (add_slots a s)
  /\ (forall k, k <> slots_key -> (In k (keys (set_slots a s)) <-> In k (keys a)))
  /\ (forall k, k <> slots_key -> (In k (keys (add_slots a s)) <-> In k (keys a))).
Proof. exact slots_keys. Qed.
Print Assumptions C19_slots_keys.

(* (B6) the pause flag: read-back, only the literal "true" is written, false removes the key,
   the map is always materialised *)
Theorem C19_pause_roundtrip : forall (a : amap) (b : bool),
  get_paused (lookup pause_key (set_paused a b)) = b
  /\ lookup pause_key (set_paused a b) = (if b then Some "true" else None)
  /\ set_paused a b <> None.
Proof. exact set_paused_read. Qed.
Print Assumptions C19_pause_roundtrip.

Theorem C19_pause_frame : forall (a : amap) (b : bool),
  wf_amap a ->
  wf_amap (set_paused a b)
  /\ (forall k, k <> pause_key -> lookup k (set_paused a b) = lookup k a)
  /\ (forall k, k <> pause_key -> (In k (keys (set_paused a b)) <-> In k (keys a))).
Proof. exact pause_frame_keys. Qed.
Print Assumptions C19_pause_frame.

(* (B7) the two codecs do not interfere *)
Theorem C19_codecs_independent : forall (a : amap) (s : option (list Z)) (b : bool),
  get_paused (lookup pause_key (set_slots a s)) = get_paused (lookup pause_key a)
  /\ get_paused (lookup pause_key (add_slots a s)) = get_paused (lookup pause_key a)
  /\ get_slots (lookup slots_key (set_paused a b)) = get_slots (lookup slots_key a).
Proof. exact codecs_independent. Qed.
Print Assumptions C19_codecs_independent.

(* non-vacuity *)
Example C19_exB1 : all_i32 [2147483647; -2147483648; 0; 7; 7]
  /\ print_slots (norm [2147483647; -2147483648; 0; 7; 7]) = "[-2147483648,0,7,2147483647]"
  /\ get_slots (lookup slots_key (set_slots None (Some [2147483647; -2147483648; 0; 7; 7])))
     = [-2147483648; 0; 7; 2147483647].
Proof. split; [repeat constructor | split; vm_compute; reflexivity]. Qed.
Example C19_exB2 :
  add_slots (Some [("x", "y"); ("delete-slots", "[3, 1]")]) (Some [2; 3])
  = Some [("x", "y"); ("delete-slots", "[1,2,3]")]
  /\ set_slots (Some [("delete-slots", "[1]"); ("x", "y")]) (Some []) = Some [("x", "y")]
  /\ set_slots None None = None
  /\ set_paused None false = Some []
  /\ set_paused (Some [("x", "y")]) true = Some [("x", "y"); ("paused-reconcile", "true")].
Proof. vm_compute. repeat split. Qed.

(* ========================================================================================== *)
(* Part A — conversion between the built-in and the Advanced StatefulSet API                  *)
(*   conv S j     = Marshal (Unmarshal j into a fresh value of the Go type with schema S)      *)
(*                  (None = an error of json.Unmarshal)                                        *)
(*   canon S j    = j can be the output of json.Marshal of a value of that type                *)
(*   agree S x y  = x and y coincide on every field S models (recursively; lists pointwise,    *)
(*                  so same length and order; opaque leaves and scalars equal)                 *)
(*   compat A B   = every field of A exists in B with the same json name, omitempty flag and   *)
(*                  a compatible type (B may have more fields: A drops them)                   *)
(*   The schemas of the two Go types are regenerated on every run (build/gen/SchemaGen.v) and  *)
(*   these theorems are instantiated on them there (gen_compat, gen_roundtrip, gen_list).      *)
(* ========================================================================================== *)

(* (A1) generic round trip: for ALL schemas A (sub) and B (super) that are well-formed and
   compatible and for EVERY canonical B tree: neither conversion fails, both intermediate trees
   are canonical, and the result agrees with the original on every field A models *)
Theorem C19_roundtrip_generic : forall A B : schema,
  wf_schema A = true -> wf_schema B = true -> compat A B = true ->
  forall j, canon B j ->
  exists j1 j2, conv A j = Some j1 /\ conv B j1 = Some j2
    /\ canon A j1 /\ canon B j2 /\ agree A j1 j /\ agree A j2 j.
Proof. exact roundtrip. Qed.
Print Assumptions C19_roundtrip_generic.

(* (A2) FromBuiltinStatefulSet then ToBuiltinStatefulSet (conversion + apiVersion overwrite):
   never fails, the Advanced object is typed va, the result is typed vb (apps/v1) and agrees
   with the original (re-typed vb) on every field the Advanced schema models *)
Theorem C19_builtin_roundtrip : forall (A B : schema) (va vb : string),
  wf_schema A = true -> wf_schema B = true -> compat A B = true ->
  has_api A = true -> has_api B = true -> va <> "" -> vb <> "" ->
  forall j, canon B j ->
  exists j1 j2, convert_to A va j = Some j1 /\ convert_to B vb j1 = Some j2
    /\ canon A j1 /\ canon B j2
    /\ get_field api_key j1 = JStr va /\ get_field api_key j2 = JStr vb
    /\ agree A j2 (set_field api_key (JStr vb) j).
Proof. exact roundtrip_api. Qed.
Print Assumptions C19_builtin_roundtrip.

(* (A3) the other direction never fails either and loses nothing the Advanced API has *)
Theorem C19_advanced_to_builtin : forall A B : schema,
  wf_schema A = true -> wf_schema B = true -> compat A B = true ->
  forall j1, canon A j1 -> exists j2, conv B j1 = Some j2 /\ canon B j2 /\ agree A j2 j1.
Proof. intros A B HA HB HC j1. exact (conv_up A HA B j1 HB HC). Qed.
Print Assumptions C19_advanced_to_builtin.

(* (A4) ToBuiltinStetefulsetList: never fails, typed vb, same number of items in the same
   order, each item typed vb and agreeing with the item at the same index *)
Theorem C19_list_length_order : forall (AL BL A : schema) (vb : string),
  wf_schema AL = true -> wf_schema BL = true -> compat AL BL = true -> has_api BL = true ->
  (exists fl, AL = SStruct fl /\ flookup items_key fl = Some (items_key, false, SSlice A)) ->
  wf_schema A = true -> has_api A = true -> vb <> "" ->
  forall jl, canon AL jl ->
  exists out, convert_list_to BL vb jl = Some out
    /\ get_field api_key out = JStr vb
    /\ length (items_of out) = length (items_of jl)
    /\ forall i x y, nth_error (items_of out) i = Some x -> nth_error (items_of jl) i = Some y ->
         agree A x (set_field api_key (JStr vb) y) /\ get_field api_key x = JStr vb.
Proof. exact list_roundtrip. Qed.
Print Assumptions C19_list_length_order.

(* (A5) agreement is an equivalence-like relation on what it relates (used to chain the steps) *)
Theorem C19_agree_trans : forall S x y z, agree S x y -> agree S y z -> agree S x z.
Proof. exact agree_trans. Qed.
Print Assumptions C19_agree_trans.

(* (A6) the hypotheses hold for the schemas of the two Go types (pinned copy; the run re-proves
   this on the freshly generated schemas), and the fields dropped by design are exactly these *)
Theorem C19_pinned_schemas_compatible :
  wf_schema schema_as = true /\ wf_schema schema_builtin = true
  /\ wf_schema schema_as_list = true /\ wf_schema schema_builtin_list = true
  /\ compat schema_as schema_builtin = true /\ compat schema_as_list schema_builtin_list = true
  /\ has_api schema_as = true /\ has_api schema_builtin = true /\ has_api schema_builtin_list = true
  /\ dropped "" schema_as schema_builtin
     = ["spec.updateStrategy.rollingUpdate.maxUnavailable"; "spec.minReadySeconds";
        "spec.persistentVolumeClaimRetentionPolicy"; "spec.ordinals"; "status.availableReplicas"].
Proof. vm_compute. repeat split. Qed.
Print Assumptions C19_pinned_schemas_compatible.

(* non-vacuity: a concrete canonical built-in tree, with fields only the built-in API has *)
Definition exA_tree : json :=
  JObj [("kind", JStr "StatefulSet"); ("apiVersion", JStr "apps/v1beta2");
        ("metadata", JObj [("name", JStr "web"); ("creationTimestamp", JNull)]);
        ("spec", JObj [("replicas", JNum 3); ("selector", JNull);
                       ("template", JObj [("metadata", JObj []); ("spec", JObj [("containers", JNull)])]);
                       ("serviceName", JStr "svc");
                       ("updateStrategy", JObj [("rollingUpdate", JObj [("partition", JNum 2); ("maxUnavailable", JNum 1)])]);
                       ("minReadySeconds", JNum 5)]);
        ("status", JObj [("replicas", JNum 2); ("conditions", JArr [JObj [("type", JStr "Ready"); ("status", JStr "True"); ("lastTransitionTime", JNull)]]);
                         ("availableReplicas", JNum 1)])].
Example C19_exA1 :
  match convert_to schema_as as_version exA_tree with
  | Some j1 => match convert_to schema_builtin builtin_version j1 with
               | Some j2 => json_equivb j2
                   (JObj [("kind", JStr "StatefulSet"); ("apiVersion", JStr "apps/v1");
                          ("metadata", JObj [("name", JStr "web"); ("creationTimestamp", JNull)]);
                          ("spec", JObj [("replicas", JNum 3); ("selector", JNull);
                                         ("template", JObj [("metadata", JObj []); ("spec", JObj [("containers", JNull)])]);
                                         ("serviceName", JStr "svc");
                                         ("updateStrategy", JObj [("rollingUpdate", JObj [("partition", JNum 2)])])]);
                          ("status", JObj [("replicas", JNum 2);
                                           ("conditions", JArr [JObj [("type", JStr "Ready"); ("status", JStr "True"); ("lastTransitionTime", JNull)]]);
                                           ("availableReplicas", JNum 0)])])
               | None => false
               end
  | None => false
  end = true.
Proof. vm_compute. reflexivity. Qed.

(* ========================================================================================== *)
(* Part C — client-side defaulting is idempotent                                              *)
(*   sts_default L   = model of asv1.SetObjectDefaults_StatefulSet on the JSON tree of the     *)
(*                     object (set-level fields, pod template, claim templates), the code as   *)
(*                     it is;  sts_default_keep L = the same with the nil test on rollingUpdate *)
(*   L : libs        = the two library functions the leaves call into: the image tag parser    *)
(*                     (latest) and Quantity.RoundUp (roundq)                                  *)
(*   idem_lib L      = roundq L (roundq L q) = roundq L q for all q                            *)
(* ========================================================================================== *)

(* (C1) for EVERY JSON tree (no shape assumption at all) and every library instance whose
   quantity rounding is idempotent, defaulting twice equals defaulting once — whatever the image
   tag parser answers *)
Theorem C19_defaulting_idempotent : forall (L : libs), idem_lib L ->
  forall j, sts_default L (sts_default L j) = sts_default L j.
Proof. exact idem_sts_default. Qed.
Print Assumptions C19_defaulting_idempotent.

Theorem C19_defaulting_idempotent_keep : forall (L : libs), idem_lib L ->
  forall j, sts_default_keep L (sts_default_keep L j) = sts_default_keep L j.
Proof. exact idem_sts_default_keep. Qed.
Print Assumptions C19_defaulting_idempotent_keep.

(* (C2) the set-level defaulter of defaults.go alone, modelled exactly (no library function) *)
Theorem C19_set_level_idempotent : forall j,
  set_level_default us_default (set_level_default us_default j) = set_level_default us_default j.
Proof. exact (idem_set_level us_default idem_us_default nn_us_default). Qed.
Print Assumptions C19_set_level_idempotent.

(* (C3) hence the pod template of an object that was already defaulted (e.g. one read back
   through the hijack client) is not touched by another pass: no rollout is started *)
Theorem C19_resubmit_keeps_template : forall (L : libs), idem_lib L -> forall j,
  let d := sts_default L j in
  get_field "template" (get_field "spec" (sts_default L d)) = get_field "template" (get_field "spec" d).
Proof. intros L HL. exact (template_fixpoint us_default L idem_us_default nn_us_default HL). Qed.
Print Assumptions C19_resubmit_keeps_template.

(* (C4) the concrete library model the correspondence runs with (docker tag reading,
   RoundUp on canonical quantity strings) satisfies the hypothesis, so the statement holds
   without hypothesis for the evaluated model *)
Theorem C19_model_instance_idempotent : forall j,
  sts_default libs_model (sts_default libs_model j) = sts_default libs_model j.
Proof. exact idem_sts_default_model. Qed.
Print Assumptions C19_model_instance_idempotent.

(* (C5) every combinator the defaulter is built from preserves idempotence (the generic lemma):
   independent updates of distinct keys, optional / struct / list / map traversal *)
Theorem C19_combinators_idempotent :
  (forall c, idem (set_if_null c)) /\ (forall c, idem (set_if_zero c))
  /\ (forall g, idem g -> idem (opt g)) /\ (forall g, idem g -> idem (each g))
  /\ (forall g, idem g -> idem (map_values g)) /\ (forall g, idem g -> nn g -> idem (at_obj g))
  /\ (forall us, NoDup (map fst us) -> all_idem us -> idem (obj us)).
Proof. exact combinators_idempotent. Qed.
Print Assumptions C19_combinators_idempotent.

(* (C6) FINDING.  "Unchanged in every field the Advanced API models" fails for the defaulter as it
   is: a partition written without a strategy type is overwritten by 0 (the empty type makes
   SetDefaults_StatefulSet replace rollingUpdate by an empty struct).  With the nil test of
   upstream Kubernetes the partition is kept, for every input. *)
(* keeps_partition usd (DefaultsProofs.v): for every updateStrategy object whose rollingUpdate carries a
   non-null partition, the partition of (usd object) is that partition *)
Theorem C19_defaulting_keeps_partition_refuted : ~ keeps_partition us_default.
Proof. exact us_default_loses_partition. Qed.
Print Assumptions C19_defaulting_keeps_partition_refuted.

Theorem C19_defaulting_keeps_partition_with_nil_test : keeps_partition us_default_keep.
Proof. exact us_default_keep_partition. Qed.
Print Assumptions C19_defaulting_keeps_partition_with_nil_test.

(* non-vacuity *)
Example C19_exC1 :
  sts_default libs_model (JObj [("spec", JObj [("template", JObj [("spec", JObj [("containers",
      JArr [JObj [("name", JStr "c"); ("image", JStr "nginx"); ("resources", JObj [("limits", JObj [("cpu", JStr "500u")])])]])])])])])
  = JObj [("spec", JObj [("template", JObj [("spec", JObj [("containers",
      JArr [JObj [("name", JStr "c"); ("image", JStr "nginx"); ("resources", JObj [("limits", JObj [("cpu", JStr "1m")])]);
                  ("imagePullPolicy", JStr "Always"); ("terminationMessagePath", JStr "/dev/termination-log");
                  ("terminationMessagePolicy", JStr "File")]]);
        ("dnsPolicy", JStr "ClusterFirst"); ("restartPolicy", JStr "Always"); ("securityContext", JObj []);
        ("terminationGracePeriodSeconds", JNum 30); ("schedulerName", JStr "default-scheduler")])]);
      ("podManagementPolicy", JStr "OrderedReady");
      ("updateStrategy", JObj [("type", JStr "RollingUpdate"); ("rollingUpdate", JObj [("partition", JNum 0)])]);
      ("replicas", JNum 1); ("revisionHistoryLimit", JNum 10)])].
Proof. vm_compute. reflexivity. Qed.
