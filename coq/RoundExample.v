(* RoundExample.v — the hypotheses of full_model_rounds_converge are satisfiable: a concrete world (an outdated pod,
   a pod in a delete slot, a failed pod, ordinal 3 vacant) whose fair rounds are all regular; the theorem then
   gives convergence within mu = 6 rounds, and evaluation shows it takes five. *)
From ASTS Require Import Base Slots SlotsProofs Names World Reconcile ReconcileCheck PlanProofs ConvergeProofs Env
                         TerminationProofs TerminationEnv QuietProofs RoundExec RoundCheck RoundLift RoundChain ExampleWorld.

Definition rx_set := ex_set 3 (Some "[1]"%string) "OrderedReady" 2 0 (ex_status 3 "web-h1" "web-h1").
Definition rx_pods := [ex_pod 0 "web-h1" "Running" true; ex_pod 1 "web-h1" "Running" true; ex_pod 2 "web-h1" "Failed" false].
Definition rx_w0 := ex_world rx_set rx_pods [ex_rev "web-h1" 1 1; ex_rev "web-h2" 2 2].
Definition rx_upd := {| ri_name := "web-h2"; ri_tmpl := 2 |}.
Fixpoint rx_iter (k : nat) (w : world) : world := match k with O => w | S k => env_round ex_hashes (rx_iter k w) end.
Definition rx_W (k : nat) : world := rx_iter k rx_w0.
Definition rx_cur (k : nat) : rinfo := if Nat.leb k 5 then {| ri_name := "web-h1"; ri_tmpl := 1 |} else rx_upd.

(* witnesses, read off the world *)
Definition wit_set (w : world) : sset := match w_set w with Some s => s | None => rx_set end.
Definition wit_gsr (w : world) : rev * rev * Z :=
  match gsr_value ex_hashes (wit_set w) (sort_revs (lrevs w (wit_set w))) with
  | Some x => x | None => (ex_rev "" 0 0, ex_rev "" 0 0, 0) end.

Lemma rx_regular_at k : (k <= 7)%nat -> regular ex_hashes rx_set rx_upd 4 [1] (rx_W k) (rx_cur k).
Proof.
  intros Hk.
  assert (G : forall w cur,
            w_set w = Some (set_status rx_set (s_status (wit_set w)) (s_rv (wit_set w))) ->
            nothing_to_adopt w (wit_set w) = true ->
            forallb (claim_quiet (wit_set w)) (w_pods w) = true -> claim_value (wit_set w) (w_pods w) = w_pods w ->
            gsr_value ex_hashes (wit_set w) (sort_revs (lrevs w (wit_set w))) = Some (wit_gsr w) ->
            cur = rinfo_of (fst (fst (wit_gsr w))) -> rx_upd = rinfo_of (snd (fst (wit_gsr w))) ->
            regular ex_hashes rx_set rx_upd 4 [1] w cur).
  { intros w cur H1 H2 H3 H4 H5 H6 H7.
    assert (Es : wit_set w = set_status rx_set (s_status (wit_set w)) (s_rv (wit_set w))).
    { unfold wit_set at 1. rewrite H1. reflexivity. }
    exists (s_status (wit_set w)), (s_rv (wit_set w)), (fst (fst (wit_gsr w))), (snd (fst (wit_gsr w))), (snd (wit_gsr w)).
    cbv zeta. rewrite <- Es. split; [rewrite H1, <- Es; reflexivity|].
    split; [exact H2|]. split; [exact H3|]. split; [exact H4|].
    split; [rewrite H5; destruct (wit_gsr w) as [[a b] c]; reflexivity|]. split; [exact H6 | exact H7]. }
  do 8 (destruct k as [|k]; [apply G; vm_compute; reflexivity|]). lia.
Qed.

Lemma rx_fixpoint : env_round ex_hashes (rx_W 7) = rx_W 7.
Proof. vm_compute. reflexivity. Qed.

Lemma rx_stays : forall k, (7 <= k)%nat -> rx_W k = rx_W 7.
Proof.
  induction k as [|k IH]; intros Hk; [lia|]. destruct (Nat.eq_dec (S k) 7) as [E|N]; [rewrite E; reflexivity|].
  change (rx_W (S k)) with (env_round ex_hashes (rx_W k)). rewrite IH by lia. apply rx_fixpoint.
Qed.

Lemma rx_regular : forall k, regular ex_hashes rx_set rx_upd 4 [1] (rx_W k) (rx_cur k).
Proof.
  intros k. destruct (le_lt_dec k 7) as [H|H]; [apply rx_regular_at; exact H|].
  rewrite (rx_stays k ltac:(lia)). replace (rx_cur k) with (rx_cur 7); [apply rx_regular_at; lia|].
  unfold rx_cur. destruct (Nat.leb_spec k 5); [lia | reflexivity].
Qed.

Lemma rx_wf : wf rx_set 4 [1] (w_pods (rx_W 0)) /\ NoDup (w_pods (rx_W 0)).
Proof.
  split.
  - constructor.
    + intros p q Hp Hq _ Ho.
      destruct Hp as [<-|[<-|[<-|[]]]]; destruct Hq as [<-|[<-|[<-|[]]]]; try reflexivity; vm_compute in Ho; discriminate.
    + intros p [<-|[<-|[<-|[]]]]; vm_compute; repeat split.
    + intros p [<-|[<-|[<-|[]]]]; vm_compute; intros H; try reflexivity; discriminate.
    + intros p [<-|[<-|[<-|[]]]]; vm_compute; split; discriminate.
    + intros p [<-|[<-|[<-|[]]]]; reflexivity.
  - repeat constructor; cbn; intros H; repeat (destruct H as [H|H]; [discriminate|]); exact H.
Qed.

Lemma rx_names : NoDup (flat_map (fun j => map (fun t => claim_name t (s_name rx_set) j) (s_claims rx_set)) (ordinals_of 4 [1])).
Proof. vm_compute. repeat (constructor; [intros H; cbn in H; repeat (destruct H as [H|H]; [discriminate|]); exact H|]). constructor. Qed.

(* the theorem applies: the pods of the full model's API state converge within mu = 6 fair rounds *)
Theorem rx_converges :
  exists k, Z.of_nat k <= 6
    /\ forall m, (k <= m)%nat -> pods_converged rx_set rx_upd 4 [1] (w_pods (rx_W m))
                                /\ forall cur, plan_acts rx_set cur rx_upd 4 [1] (w_pods (rx_W m)) = [].
Proof.
  destruct (full_model_rounds_converge ex_hashes rx_set rx_upd 4 3 [1]) with (Wd := rx_W) (curs := rx_cur) as (k & K1 & K2).
  - vm_compute. split; discriminate.
  - reflexivity.
  - repeat constructor; intros [].
  - discriminate.
  - reflexivity.
  - reflexivity.
  - reflexivity.
  - reflexivity.
  - apply rx_names.
  - intros k. reflexivity.
  - apply rx_regular.
  - apply rx_wf.
  - apply rx_wf.
  - exists k. split; [exact K1|]. intros m Hm. destruct (K2 m Hm) as (A & _ & B). split; assumption.
Qed.

(* the same from hypotheses on the INITIAL world only (RoundRevs.v): no per-round condition to discharge *)
From ASTS Require Import RoundRevs.
Theorem rx_converges_closed :
  exists k, Z.of_nat k <= 6
    /\ forall m, (k <= m)%nat -> pods_converged rx_set rx_upd 4 [1] (w_pods (rx_W m))
                                /\ forall cur, plan_acts rx_set cur rx_upd 4 [1] (w_pods (rx_W m)) = [].
Proof.
  destruct (full_model_converges_closed ex_hashes rx_set rx_upd 4 3 10 [1]) with
      (Wd := rx_W) (st0 := s_status rx_set) (rv0 := s_rv rx_set)
      (rcur0 := ex_rev "web-h1" 1 1) (rupd := ex_rev "web-h2" 2 2) (coll := 0) as (k & K1 & K2).
  - vm_compute. split; discriminate.
  - reflexivity.
  - repeat constructor; intros [].
  - discriminate.
  - reflexivity.
  - reflexivity.
  - reflexivity.
  - reflexivity.
  - apply rx_names.
  - reflexivity.
  - intros k. reflexivity.
  - reflexivity.
  - apply rx_wf.
  - apply rx_wf.
  - intros p [<-|[<-|[<-|[]]]]; vm_compute; repeat split.
  - reflexivity.
  - vm_compute. reflexivity.
  - reflexivity.
  - vm_compute. discriminate.
  - exists k. split; [exact K1|]. intros m Hm. destruct (K2 m Hm) as (A & _ & B). split; assumption.
Qed.

(* ... and goes quiet: from round 7 on, every world of the example satisfies quietb *)
Theorem rx_goes_quiet :
  exists k, Z.of_nat k <= 7
    /\ forall m, (k <= m)%nat -> pods_converged rx_set rx_upd 4 [1] (w_pods (rx_W m)) /\ quietb ex_hashes (rx_W m) (rx_W m) = true.
Proof.
  destruct (full_model_converges_and_goes_quiet ex_hashes rx_set rx_upd 4 3 10 [1]) with
      (Wd := rx_W) (st0 := s_status rx_set) (rv0 := s_rv rx_set)
      (rcur0 := ex_rev "web-h1" 1 1) (rupd := ex_rev "web-h2" 2 2) (coll := 0) as (k & K1 & K2).
  - vm_compute. split; discriminate.
  - reflexivity.
  - repeat constructor; intros [].
  - discriminate.
  - reflexivity.
  - reflexivity.
  - reflexivity.
  - reflexivity.
  - apply rx_names.
  - reflexivity.
  - intros k. reflexivity.
  - reflexivity.
  - apply rx_wf.
  - apply rx_wf.
  - intros p [<-|[<-|[<-|[]]]]; vm_compute; repeat split.
  - reflexivity.
  - vm_compute. reflexivity.
  - reflexivity.
  - vm_compute. discriminate.
  - exists k. split; [exact K1 | exact K2].
Qed.
