(* RoundRevs.v — what a fair round of the full model does to the revisions and to the stored set, when the revision
   history is within its limit: the revisions stay as they are, the stored status is the old one or the one the pod
   phase computed, and the revision phase of the next round resolves the same update revision without a write.
   With RoundChain.v this removes every per-round hypothesis from the convergence theorem of the full model. *)
From ASTS Require Import Base Slots SlotsProofs Names NamesProofs World Reconcile ReconcileCheck MonadProofs PlanProofs
                         StatusProofs ConvergeProofs PodControlProofs Env QuietProofs TerminationProofs TerminationEnv
                         RoundExec RoundCheck RoundLift RoundChain KeepsSet.

Lemma filter_length_le' {A} (f : A -> bool) l : (length (filter f l) <= length l)%nat.
Proof. induction l as [|x t IH]; cbn [filter length]; [lia|]. destruct (f x); cbn [length]; lia. Qed.

(* the collision count the revision phase starts from *)
Definition coll0_of (st : status) : Z := match st_coll st with Some c => c | None => 0 end.

(* the revision phase does not care about the stored status beyond its collision count and its currentRevision *)
Lemma gsr_value_status hashes s revs c u k st' rv' :
  gsr_value hashes s revs = Some (c, u, k) -> coll0_of st' = k ->
  exists c', gsr_value hashes (set_status s st' rv') revs = Some (c', u, k).
Proof.
  unfold gsr_value. cbn [set_status s_status s_tmpl]. fold (coll0_of (s_status s)). fold (coll0_of st').
  intros H Hk.
  destruct (hash_of hashes (s_tmpl s) (coll0_of (s_status s))) as [h0|] eqn:Eh; [|discriminate].
  cbv zeta in H.
  assert (Hk0 : coll0_of (s_status s) = k).
  { destruct (last_opt (filter _ revs)); [|discriminate]. destruct (last_opt revs); [|discriminate].
    destruct (equal_revision _ _); [|discriminate]. inversion H. reflexivity. }
  rewrite Hk, <- Hk0, Eh. cbv zeta.
  change (rev_name (set_status s st' rv') h0) with (rev_name s h0). change (me (set_status s st' rv')) with (me s).
  destruct (last_opt (filter _ revs)) as [e|]; [|discriminate]. destruct (last_opt revs) as [l|]; [|discriminate].
  destruct (equal_revision l e); [|discriminate]. inversion H; subst. eexists. reflexivity.
Qed.

Lemma lrevs_status w s st rv : lrevs w (set_status s st rv) = lrevs w s.
Proof. reflexivity. Qed.
Lemma nothing_to_adopt_status w s st rv : nothing_to_adopt w (set_status s st rv) = nothing_to_adopt w s.
Proof. reflexivity. Qed.

Definition same_revs (a b : world) : Prop := w_revs a = w_revs b.
Lemma same_revs_refl a : same_revs a a. Proof. reflexivity. Qed.
Lemma same_revs_trans a b c : same_revs a b -> same_revs b c -> same_revs a c.
Proof. unfold same_revs. congruence. Qed.

Lemma kubelet_revs w n ev : w_revs (kubelet w n ev) = w_revs w.
Proof.
  unfold kubelet. destruct (find_pod n (w_pods w)) as [p|]; [|reflexivity].
  destruct ev; cbn; try reflexivity.
  - destruct (p_term p); reflexivity.
  - destruct (p_term p || isFailed p || isSucceeded p); reflexivity.
Qed.
Lemma kubelet_fold_revs ev : forall names w, w_revs (fold_left (fun a m => kubelet a m ev) names w) = w_revs w.
Proof.
  induction names as [|m t IH]; intros w; cbn [fold_left]; [reflexivity|]. rewrite IH. apply kubelet_revs.
Qed.

Lemma reads_hk {A} w (m : M A) v (Post : world -> Prop) : reads w m v -> Post w -> hk (fun x => x = w) m Post.
Proof.
  intros Hr HP st Hw Hf r st' E. destruct (Hr st Hw Hf) as (s1 & E1 & W1 & _ & _). rewrite E1 in E. inversion E; subst. rewrite W1. exact HP.
Qed.

Section RevsAndSet.
Variable hashes : list ((Z * Z) * string).
Variable s : sset.
Variable upd : rinfo.
Variables (cnt : Z) (slots : list Z).
Hypothesis Hcnt : 0 <= cnt <= max_i32 + 1.
Hypothesis Hdel : s_deleting s = false.
Hypothesis Hclaims : NoDup (s_claims s).
Hypothesis Huc : forall i, use_current s i = true -> i < umin_of s.
Variable cur : rinfo.
Variable w : world.
Variables (rcur rupd : rev) (coll r limit : Z).
Hypothesis Hset : w_set w = Some s.
Hypothesis Hpause : get_paused (s_pause s) = false.
Hypothesis Hsel : s_selector s = SelOk.
Hypothesis Hadopt : nothing_to_adopt w s = true.
Hypothesis Hclaimq : forallb (claim_quiet s) (w_pods w) = true.
Hypothesis Hclaimv : claim_value s (w_pods w) = w_pods w.
Hypothesis Hgsr : gsr_value hashes s (sort_revs (lrevs w s)) = Some (rcur, rupd, coll).
Hypothesis Hcur : cur = {| ri_name := r_name rcur; ri_tmpl := r_tmpl rcur |}.
Hypothesis Hupd : upd = {| ri_name := r_name rupd; ri_tmpl := r_tmpl rupd |}.
Hypothesis Hrep : s_replicas s = Some r.
Hypothesis Hext : extend r (get_slots (s_slots s)) = (cnt, slots).
Hypothesis W : wf s cnt slots (w_pods w).
Hypothesis Hnd : NoDup (w_pods w).
Hypothesis Hnames : NoDup (flat_map (fun j => map (fun t => claim_name t (s_name s) j) (s_claims s)) (ordinals_of cnt slots)).
Hypothesis Hrhl : s_rhl s = Some limit.
Hypothesis Hsmall : Z.of_nat (length (sort_revs (lrevs w s))) <= limit.

Let pods := w_pods w.
Let acts := plan_acts s cur upd cnt slots pods.
Let cache := {| w_set := w_set w; w_pods := w_pods w; w_revs := []; w_claims := w_claims w |}.

(* what the reconcile leaves: the revisions as they were, the set with its old status or with the computed one *)
Definition after_ok (x : world) : Prop :=
  w_revs x = w_revs w
  /\ exists po, plan_pods s cur upd coll pods = Some po /\ po_acts po = acts
      /\ let st' := complete_rolling_update s (po_status po) in
         ((w_set x = Some s /\ inconsistent_status s st' = false)
          \/ (w_set x = Some (set_status s st' (s_rv s + 1)) /\ inconsistent_status s st' = true)).

Lemma tail_ok po wL : plan_pods s cur upd coll pods = Some po -> po_acts po = acts -> w_set wL = Some s -> w_revs wL = w_revs w ->
  hk (fun x => x = wL)
     (update_set_status s (po_status po) ;;; truncate_history s pods (sort_revs (lrevs w s)) rcur rupd) after_ok.
Proof.
  intros Hpo Hac HsL HrL.
  assert (Htr : trunc_quiet s pods (sort_revs (lrevs w s)) rcur rupd = true).
  { unfold trunc_quiet. rewrite Hrhl. apply Z.leb_le.
    pose proof (filter_length_le' (fun r0 => negb (smemb (r_name r0) (r_name rcur :: r_name rupd :: map p_rev pods))) (sort_revs (lrevs w s))). lia. }
  set (st' := complete_rolling_update s (po_status po)).
  apply (hk_bind_hoare _ _ _ (fun _ x => (x = wL /\ inconsistent_status s st' = false)
                                         \/ (x = with_set wL (Some (set_status s st' (s_rv s + 1))) /\ inconsistent_status s st' = true))).
  - unfold update_set_status. fold st'. destruct (inconsistent_status s st') eqn:Inc.
    + cbn [update_status_retry]. intros st HP Hf. unfold bind, try, api_update_status, call_api. rewrite Hf. cbn [take_fault].
      rewrite HP, HsL, Z.eqb_refl. eexists. eexists. split; [reflexivity|]. cbn [rs_faults rs_api]. split; [reflexivity|]. right. split; reflexivity.
    + intros st HP Hf. exists tt, st. split; [reflexivity|]. split; [exact Hf|]. left. split; [exact HP | reflexivity].
  - intros u. intros st HP Hf r0 stf E.
    assert (Hx : after_ok (rs_api st)).
    { destruct HP as [[-> Inc] | [-> Inc]].
      - split; [exact HrL|]. exists po. split; [exact Hpo|]. split; [exact Hac|]. left. split; [exact HsL | exact Inc].
      - split; [exact HrL|]. exists po. split; [exact Hpo|]. split; [exact Hac|]. right. split; [reflexivity | exact Inc]. }
    destruct (reads_truncate (rs_api st) s pods (sort_revs (lrevs w s)) rcur rupd Htr st eq_refl Hf) as (s1 & E1 & W1 & _ & _).
    rewrite E1 in E. inversion E; subst. rewrite W1. exact Hx.
Qed.

Lemma sync_revs_set : hk (fun x => x = w) (sync hashes cache) after_ok.
Proof.
  unfold sync. cbn [cache w_set]. rewrite Hset, Hpause, Hsel.
  eapply hk_bind_hoare; [apply reads_hoare; apply reads_adopt; exact Hadopt|]. intros u. cbv beta.
  eapply hk_bind_hoare.
  { eapply hoare_conseq; [| |apply (reads_hoare w); apply (reads_claim_pods w s (w_pods w) None false Hclaimq)].
    - intros x [_ Hx]. exact Hx.
    - intros v x Hx. exact Hx. }
  intros x. cbv beta.
  intros st [Hx HP] Hf. subst x. cbn [fst snd]. rewrite Hclaimv. revert st HP Hf.
  change (hk (fun x => x = w) (update_stateful_set hashes s cache (w_pods w)) after_ok).
  unfold update_stateful_set.
  eapply hk_bind_hoare; [apply reads_hoare; apply reads_list_revisions|]. intros revs0. cbv beta.
  intros st [Hr HP] Hf. subst revs0. revert st HP Hf.
  match goal with |- forall st, _ -> _ -> forall r0 st', ?m st = _ -> _ => change (hk (fun x => x = w) m after_ok) end.
  eapply hk_bind_hoare; [apply reads_hoare; apply (reads_gsr hashes w s _ _ Hgsr)|]. intros y. cbv beta.
  intros st [Hy HP] Hf. subst y. cbv beta iota zeta. rewrite <- Hcur, <- Hupd.
  destruct (plan_some s upd cnt slots Hcnt Hdel cur w rcur rupd coll r Hcur Hupd Hrep Hext W Hnames) as (po & Hpo & Hacts). rewrite Hpo, Hacts. revert st HP Hf.
  match goal with |- forall st, _ -> _ -> forall r0 st', ?m st = _ -> _ => change (hk (fun x => x = w) m after_ok) end.
  eapply hk_bind_hoare.
  { apply (exec_acts_ok s cache acts w). apply (plan_all_ok s upd cnt slots Hcnt Hdel Hclaims Huc cur pods W cache Hnames). }
  intros u'. cbv beta.
  apply (tail_ok po _ Hpo Hacts); cbn; [exact Hset | reflexivity].
Qed.

(* the fair round: revisions untouched, the set keeps its spec and holds the old or the computed status *)
Lemma env_round_revs_set : after_ok (env_round hashes w).
Proof.
  unfold env_round. cbn [hrun hstep fst hw_api hw_cache]. fold cache.
  destruct (reconcile hashes w cache []) as [[o lg] w1] eqn:Er. cbn [fst hw_api].
  assert (H1 : after_ok w1).
  { unfold reconcile in Er.
    destruct (sync hashes cache {| rs_api := w; rs_log := []; rs_n := 0; rs_faults := [] |}) as [r0 st'] eqn:Es.
    inversion Er as [[Eo El Ew]]. exact (sync_revs_set {| rs_api := w; rs_log := []; rs_n := 0; rs_faults := [] |} eq_refl eq_refl r0 st' Es). }
  unfold after_ok in *.
  rewrite !kubelet_fold_revs.
  destruct (kubelet_fold_set KSettle (map p_name (w_pods w1)) (fold_left (fun a m => kubelet a m KGone) (map p_name (w_pods w1)) w1)) as [A _].
  destruct (kubelet_fold_set KGone (map p_name (w_pods w1)) w1) as [B _]. rewrite A, B. exact H1.
Qed.

End RevsAndSet.

(* ================================================================ no per-round hypothesis ================= *)
Lemma lrevs_revs a b s : w_revs a = w_revs b -> lrevs a s = lrevs b s.
Proof. intros H. unfold lrevs, lr1. rewrite H. reflexivity. Qed.
Lemma nothing_to_adopt_revs a b s : w_revs a = w_revs b -> nothing_to_adopt a s = nothing_to_adopt b s.
Proof. intros H. unfold nothing_to_adopt. rewrite (lrevs_revs a b s H). reflexivity. Qed.

Lemma complete_coll s st : st_coll (complete_rolling_update s st) = st_coll st.
Proof.
  unfold complete_rolling_update.
  destruct (String.eqb (s_strategy s) "RollingUpdate" && (st_updated st =? st_replicas st) && (st_ready st =? st_replicas st)); reflexivity.
Qed.

(* ---------------------------------------------------------------- order does not matter to the census ---- *)
From Coq Require Import Permutation.
From ASTS Require Import CounterProofs ConvergedStatus.

Lemma sumf_perm f a b : Permutation a b -> sumf f a = sumf f b.
Proof. induction 1; cbn [sumf]; lia. Qed.
Lemma census_members f a b : NoDup a -> NoDup b -> same_members a b -> sumf f a = sumf f b /\ length a = length b.
Proof.
  intros Na Nb H. assert (P : Permutation a b) by (apply NoDup_Permutation; assumption).
  split; [apply sumf_perm; exact P | apply Permutation_length; exact P].
Qed.

Lemma cc_name c1 c2 p : ri_name c1 = ri_name c2 -> cc c1 p = cc c2 p.
Proof. intros H. unfold cc, rev_is. rewrite H. reflexivity. Qed.
Lemma sumf_ext_cc c1 c2 l : ri_name c1 = ri_name c2 -> sumf (cc c1) l = sumf (cc c2) l.
Proof. intros H. induction l as [|x t IH]; cbn [sumf]; [reflexivity|]. rewrite IH, (cc_name c1 c2 x H). reflexivity. Qed.

(* the status the pod phase computes when its plan is empty, as a function of the name of the current revision *)
Definition census_status (s : sset) (curname updname : string) (cur upd : rinfo) (coll : Z) (pods : list pod) : status :=
  {| st_replicas := Z.of_nat (length pods); st_ready := sumf rr pods; st_current := sumf (cc cur) pods;
     st_updated := sumf (cc upd) pods; st_currev := curname; st_updrev := updname; st_obsgen := s_gen s; st_coll := Some coll |}.

Lemma empty_plan_status s cur upd coll pods po :
  plan_pods s cur upd coll pods = Some po -> po_acts po = [] ->
  po_status po = census_status s (ri_name cur) (ri_name upd) cur upd coll pods.
Proof.
  intros Hp Ha. destruct (plan_census _ _ _ _ _ _ Hp Ha) as (N1 & N2 & N3 & N4).
  destruct (plan_status_meta _ _ _ _ _ _ Hp) as (M1 & M2 & M3 & M4).
  unfold census_status. destruct (po_status po). cbn in *. subst. reflexivity.
Qed.

Lemma consistent_refl s st rv : inconsistent_status (set_status s st rv) st = false.
Proof.
  unfold inconsistent_status. cbn [set_status s_status]. rewrite Z.ltb_irrefl, !Z.eqb_refl, !String.eqb_refl. reflexivity.
Qed.

Lemma last_opt_In {A} (l : list A) x : last_opt l = Some x -> In x l.
Proof.
  unfold last_opt. intros H. apply in_rev. destruct (List.rev l) as [|y t]; [discriminate|]. inversion H; subst. left. reflexivity.
Qed.

(* the current revision the revision phase resolves: the revision named by status.currentRevision if there is one,
   the update revision otherwise; the update revision is the last of the list *)
Lemma gsr_value_cur hashes s revs c u k : gsr_value hashes s revs = Some (c, u, k) ->
  In u revs
  /\ ((exists c', find (fun r0 => String.eqb (r_name r0) (st_currev (s_status s))) revs = Some c' /\ c = c')
      \/ (find (fun r0 => String.eqb (r_name r0) (st_currev (s_status s))) revs = None /\ c = u)).
Proof.
  unfold gsr_value. destruct (hash_of hashes (s_tmpl s) _) as [h0|]; [|discriminate]. cbv zeta.
  destruct (last_opt (filter _ revs)) as [e|]; [|discriminate]. destruct (last_opt revs) as [l|] eqn:El; [|discriminate].
  destruct (equal_revision l e); [|discriminate]. intros H. inversion H; subst. split; [apply last_opt_In; exact El|].
  destruct (find _ revs) as [c'|]; [left; exists c'; split; reflexivity | right; split; reflexivity].
Qed.
Lemma gsr_value_cur_name hashes s revs c u k x : gsr_value hashes s revs = Some (c, u, k) ->
  In x revs -> st_currev (s_status s) = r_name x -> r_name c = r_name x.
Proof.
  intros H Hx Hn. destruct (gsr_value_cur _ _ _ _ _ _ H) as (_ & [(c' & Hf & ->)|(Hf & ->)]).
  - apply find_some in Hf. destruct Hf as [_ Hf]. apply String.eqb_eq in Hf. rewrite Hf. exact Hn.
  - exfalso. pose proof (find_none _ _ Hf x Hx) as N. cbn in N. rewrite Hn, String.eqb_refl in N. discriminate.
Qed.

Section Closed.
Variable hashes : list ((Z * Z) * string).
Variable s0 : sset.
Variable upd : rinfo.
Variables (cnt r limit : Z) (slots : list Z).
Hypothesis Hcnt : 0 <= cnt <= max_i32 + 1.
Hypothesis Hdel : s_deleting s0 = false.
Hypothesis Hclaims : NoDup (s_claims s0).
Hypothesis Hroll : s_rolling s0 <> None.
Hypothesis Hpause : get_paused (s_pause s0) = false.
Hypothesis Hsel : s_selector s0 = SelOk.
Hypothesis Hrep : s_replicas s0 = Some r.
Hypothesis Hext : extend r (get_slots (s_slots s0)) = (cnt, slots).
Hypothesis Hnames : NoDup (flat_map (fun j => map (fun t => claim_name t (s_name s0) j) (s_claims s0)) (ordinals_of cnt slots)).
Hypothesis Hrhl : s_rhl s0 = Some limit.

Variable Wd : nat -> world.
Hypothesis Hstep : forall k, Wd (S k) = env_round hashes (Wd k).

(* the initial world *)
Variables (st0 : status) (rv0 : Z) (rcur0 rupd : rev) (coll : Z).
Hypothesis Hset0 : w_set (Wd O) = Some (set_status s0 st0 rv0).
Hypothesis W0 : wf s0 cnt slots (w_pods (Wd O)).
Hypothesis N0 : NoDup (w_pods (Wd O)).
Hypothesis C0 : all_claimed s0 (w_pods (Wd O)).
Hypothesis A0 : nothing_to_adopt (Wd O) s0 = true.
Hypothesis G0 : gsr_value hashes (set_status s0 st0 rv0) (sort_revs (lrevs (Wd O) s0)) = Some (rcur0, rupd, coll).
Hypothesis Hupd0 : upd = rinfo_of rupd.
Hypothesis Hsmall : Z.of_nat (length (sort_revs (lrevs (Wd O) s0))) <= limit.

(* the current revision the reconcile of a world resolves *)
Definition cur_fun (w : world) : rinfo :=
  match w_set w with
  | Some s => match gsr_value hashes s (sort_revs (lrevs w s)) with Some (c, _, _) => rinfo_of c | None => upd end
  | None => upd
  end.

Definition J (k : nat) : Prop :=
  inv s0 cnt slots Wd k
  /\ w_revs (Wd k) = w_revs (Wd O)
  /\ exists st rv c, w_set (Wd k) = Some (set_status s0 st rv)
                     /\ gsr_value hashes (set_status s0 st rv) (sort_revs (lrevs (Wd O) s0)) = Some (c, rupd, coll).

Lemma J_all : forall k, J k.
Proof.
  induction k as [|k IH].
  - split; [|split; [reflexivity | exists st0, rv0, rcur0; split; [exact Hset0 | exact G0]]].
    split; [exists st0, rv0; exact Hset0|]. split; [exact W0|]. split; [exact N0 | exact C0].
  - destruct IH as (((stx & rvx & Hsx) & Wk & Nk & Ck) & Rk & (st & rv & c & Hs & Hg)).
    set (s := set_status s0 st rv) in *.
    assert (Hl : lrevs (Wd k) s = lrevs (Wd O) s0) by (rewrite (lrevs_revs _ _ s Rk); reflexivity).
    assert (Hucs : forall i, use_current s i = true -> i < umin_of s).
    { intros i Hi. unfold s in Hi. rewrite (use_current_status s0 st rv Hroll) in Hi. apply (Huc0 s0 Hroll). exact Hi. }
    assert (Had : nothing_to_adopt (Wd k) s = true) by (rewrite (nothing_to_adopt_revs _ _ s Rk); exact A0).
    destruct (all_claimed_quiet s _ Ck) as [Q1 Q2].
    assert (Hgk : gsr_value hashes s (sort_revs (lrevs (Wd k) s)) = Some (c, rupd, coll)) by (rewrite Hl; exact Hg).
    assert (Wk' : wf s cnt slots (w_pods (Wd k))) by (apply (proj1 (wf_status s0 st rv cnt slots _)); exact Wk).
    assert (Hsm : Z.of_nat (length (sort_revs (lrevs (Wd k) s))) <= limit) by (rewrite Hl; exact Hsmall).
    (* the pods *)
    pose proof (lift_round s upd cnt slots Hcnt Hdel Hclaims Hucs (rinfo_of c) hashes (Wd k) c rupd coll r
                  Hs Hpause Hsel Had Q1 Q2 Hgk eq_refl Hupd0 Hrep Hext Wk' Nk Hnames) as [L1 L2].
    unfold s in L2. rewrite (round_status s0 st rv Hroll) in L2. rewrite <- Hstep in L1, L2.
    (* the revisions and the set *)
    pose proof (env_round_revs_set hashes s upd cnt slots Hcnt Hdel Hclaims Hucs (rinfo_of c) (Wd k) c rupd coll r limit
                  Hs Hpause Hsel Had Q1 Q2 Hgk eq_refl Hupd0 Hrep Hext Wk' Hnames Hrhl Hsm) as [E1 E2].
    rewrite <- Hstep in E1, E2.
    split; [|split; [rewrite E1; exact Rk|]].
    + split; [rewrite Hstep; apply (env_round_set hashes s0 cnt r slots Hdel Hclaims Hroll Hpause Hsel Hrep Hext Hnames (Wd k) st rv Hs)|].
      split; [apply (wf_members s0 cnt slots (round s0 upd cnt slots (rinfo_of c) (w_pods (Wd k)))); [apply (round_wf s0 upd cnt slots Hcnt Hclaims (Huc0 s0 Hroll)); exact Wk | exact L2]|].
      split; [exact L1|]. apply (all_claimed_round s0 upd cnt slots Hcnt Hclaims Hroll (rinfo_of c) (w_pods (Wd k))); assumption.
    + destruct E2 as (po & Hpo & _ & [[E2 _]|[E2 _]]); cbv zeta in E2.
      * exists st, rv, c. split; [exact E2 | exact Hg].
      * set (st' := complete_rolling_update s (po_status po)) in *.
        assert (Hc : coll0_of st' = coll).
        { unfold coll0_of, st'. rewrite complete_coll. destruct (plan_status_meta _ _ _ _ _ _ Hpo) as (_ & _ & _ & M4). rewrite M4. reflexivity. }
        destruct (gsr_value_status hashes s (sort_revs (lrevs (Wd O) s0)) c rupd coll st' (s_rv s + 1) Hg Hc) as (c' & Hg').
        exists st', (s_rv s + 1), c'. split; [exact E2 | exact Hg'].
Qed.

Lemma J_rev_quiet k : rev_quiet hashes upd (Wd k) (cur_fun (Wd k)).
Proof.
  destruct (J_all k) as (_ & Rk & (st & rv & c & Hs & Hg)).
  intros s Hs'. rewrite Hs in Hs'. inversion Hs'; subst s.
  assert (Hl : lrevs (Wd k) (set_status s0 st rv) = lrevs (Wd O) s0) by (rewrite (lrevs_revs _ _ _ Rk); reflexivity).
  split; [rewrite (nothing_to_adopt_revs _ _ _ Rk); exact A0|].
  exists c, rupd, coll. split; [rewrite Hl; exact Hg|]. split; [|exact Hupd0].
  unfold cur_fun. rewrite Hs, Hl, Hg. reflexivity.
Qed.

(* C02 over the full model, with hypotheses on the INITIAL world only: a regular world whose revision history is
   within revisionHistoryLimit.  The fair rounds of the reconcile + environment model bring the pods of the API
   state to the converged set within mu rounds and keep them there. *)
Theorem full_model_converges_closed :
  exists k, Z.of_nat k <= mu s0 upd cnt slots (w_pods (Wd O))
    /\ forall m, (k <= m)%nat ->
         pods_converged s0 upd cnt slots (w_pods (Wd m)) /\ same_members (w_pods (Wd m)) (w_pods (Wd k))
         /\ forall cur, plan_acts s0 cur upd cnt slots (w_pods (Wd m)) = [].
Proof.
  apply (full_model_converges_rev_quiet hashes s0 upd cnt r slots Hcnt Hdel Hclaims Hroll Hpause Hsel Hrep Hext Hnames
           Wd (fun k => cur_fun (Wd k)) Hstep J_rev_quiet (ex_intro _ st0 (ex_intro _ rv0 Hset0)) W0 N0 C0).
Qed.


(* ================================================================ and then quiet ======================== *)
(* everything one round is known to do, in one place *)
Lemma round_facts k :
  exists st rv c po,
    let s := set_status s0 st rv in
    let pk := w_pods (Wd k) in
    w_set (Wd k) = Some s
    /\ gsr_value hashes s (sort_revs (lrevs (Wd O) s0)) = Some (c, rupd, coll)
    /\ lrevs (Wd k) s = lrevs (Wd O) s0
    /\ nothing_to_adopt (Wd k) s = true
    /\ plan_pods s (rinfo_of c) upd coll pk = Some po
    /\ po_acts po = plan_acts s0 (rinfo_of c) upd cnt slots pk
    /\ wf s0 cnt slots pk /\ NoDup pk /\ all_claimed s0 pk
    /\ NoDup (w_pods (Wd (S k))) /\ same_members (w_pods (Wd (S k))) (round s0 upd cnt slots (rinfo_of c) pk)
    /\ (let st' := complete_rolling_update s (po_status po) in
        (w_set (Wd (S k)) = Some s /\ inconsistent_status s st' = false)
        \/ (w_set (Wd (S k)) = Some (set_status s st' (s_rv s + 1)) /\ inconsistent_status s st' = true)).
Proof.
  destruct (J_all k) as (((stx & rvx & Hsx) & Wk & Nk & Ck) & Rk & (st & rv & c & Hs & Hg)).
  set (s := set_status s0 st rv) in *.
  assert (Hl : lrevs (Wd k) s = lrevs (Wd O) s0) by (rewrite (lrevs_revs _ _ s Rk); reflexivity).
  assert (Hucs : forall i, use_current s i = true -> i < umin_of s).
  { intros i Hi. unfold s in Hi. rewrite (use_current_status s0 st rv Hroll) in Hi. apply (Huc0 s0 Hroll). exact Hi. }
  assert (Had : nothing_to_adopt (Wd k) s = true) by (rewrite (nothing_to_adopt_revs _ _ s Rk); exact A0).
  destruct (all_claimed_quiet s _ Ck) as [Q1 Q2].
  assert (Hgk : gsr_value hashes s (sort_revs (lrevs (Wd k) s)) = Some (c, rupd, coll)) by (rewrite Hl; exact Hg).
  assert (Wk' : wf s cnt slots (w_pods (Wd k))) by (apply (proj1 (wf_status s0 st rv cnt slots _)); exact Wk).
  assert (Hsm : Z.of_nat (length (sort_revs (lrevs (Wd k) s))) <= limit) by (rewrite Hl; exact Hsmall).
  pose proof (lift_round s upd cnt slots Hcnt Hdel Hclaims Hucs (rinfo_of c) hashes (Wd k) c rupd coll r
                Hs Hpause Hsel Had Q1 Q2 Hgk eq_refl Hupd0 Hrep Hext Wk' Nk Hnames) as [L1 L2].
  unfold s in L2. rewrite (round_status s0 st rv Hroll) in L2. rewrite <- Hstep in L1, L2.
  pose proof (env_round_revs_set hashes s upd cnt slots Hcnt Hdel Hclaims Hucs (rinfo_of c) (Wd k) c rupd coll r limit
                Hs Hpause Hsel Had Q1 Q2 Hgk eq_refl Hupd0 Hrep Hext Wk' Hnames Hrhl Hsm) as [_ (po & Hpo & Hac & E2)].
  rewrite <- Hstep in E2. unfold s in Hac. rewrite (plan_acts_status s0 st rv Hroll) in Hac.
  exists st, rv, c, po. cbv zeta. fold s.
  split; [exact Hs|]. split; [exact Hg|]. split; [exact Hl|]. split; [exact Had|]. split; [exact Hpo|]. split; [exact Hac|].
  split; [exact Wk|]. split; [exact Nk|]. split; [exact Ck|]. split; [exact L1|]. split; [exact L2|]. exact E2.
Qed.

(* the status the completion rule makes of a census *)
Lemma complete_census_eq s s' c1 c2 coll' pods pods' :
  ri_name c1 = ri_name c2 -> s_strategy s = s_strategy s' -> s_gen s = s_gen s' ->
  NoDup pods -> NoDup pods' -> same_members pods' pods ->
  complete_rolling_update s' (census_status s' (ri_name c2) (ri_name upd) c2 upd coll' pods')
  = complete_rolling_update s (census_status s (ri_name c1) (ri_name upd) c1 upd coll' pods).
Proof.
  intros Hn Hst Hg Na Nb Hm.
  destruct (census_members rr pods' pods Nb Na Hm) as [E1 E0].
  destruct (census_members (cc c2) pods' pods Nb Na Hm) as [E2 _].
  destruct (census_members (cc upd) pods' pods Nb Na Hm) as [E3 _].
  assert (E : census_status s' (ri_name c2) (ri_name upd) c2 upd coll' pods' = census_status s (ri_name c1) (ri_name upd) c1 upd coll' pods).
  { unfold census_status. rewrite E0, E1, E2, E3, <- Hg, <- Hn, (sumf_ext_cc c2 c1 pods (eq_sym Hn)). reflexivity. }
  rewrite E. unfold complete_rolling_update. rewrite Hst. reflexivity.
Qed.

(* a census whose current revision is named like the update revision *)
Lemma complete_census_done s c coll' pods :
  let F := census_status s (ri_name c) (ri_name upd) c upd coll' pods in
  st_currev (complete_rolling_update s F) = ri_name upd ->
  forall c2, ri_name c2 = ri_name upd ->
  complete_rolling_update s (census_status s (ri_name c2) (ri_name upd) c2 upd coll' pods) = complete_rolling_update s F.
Proof.
  intros F Hdone c2 Hn. unfold complete_rolling_update in *.
  change (st_updated (census_status s (ri_name c2) (ri_name upd) c2 upd coll' pods)) with (st_updated F).
  change (st_replicas (census_status s (ri_name c2) (ri_name upd) c2 upd coll' pods)) with (st_replicas F).
  change (st_ready (census_status s (ri_name c2) (ri_name upd) c2 upd coll' pods)) with (st_ready F).
  destruct (String.eqb (s_strategy s) "RollingUpdate" && (st_updated F =? st_replicas F) && (st_ready F =? st_replicas F)) eqn:Cnd.
  - reflexivity.
  - (* no completion, yet the current revision is named like the update revision *)
    cbn [F census_status st_currev] in Hdone. unfold F, census_status. rewrite Hn, <- Hdone.
    rewrite (sumf_ext_cc c2 c pods) by (rewrite Hn, Hdone; reflexivity). reflexivity.
Qed.

Lemma consistent_next k :
  (forall cur, plan_acts s0 cur upd cnt slots (w_pods (Wd k)) = []) ->
  forall st1 rv1 c1 po1,
    w_set (Wd (S k)) = Some (set_status s0 st1 rv1) ->
    gsr_value hashes (set_status s0 st1 rv1) (sort_revs (lrevs (Wd O) s0)) = Some (c1, rupd, coll) ->
    plan_pods (set_status s0 st1 rv1) (rinfo_of c1) upd coll (w_pods (Wd (S k))) = Some po1 -> po_acts po1 = [] ->
    inconsistent_status (set_status s0 st1 rv1) (complete_rolling_update (set_status s0 st1 rv1) (po_status po1)) = false.
Proof.
  intros Hnil st1 rv1 c1 po1 Hs1 Hg1 Hp1 Ha1.
  destruct (round_facts k) as (st & rv & c & po & Hs & Hg & Hl & Had & Hpo & Hac & Wk & Nk & Ck & Nk' & Mk' & Hcase). cbv zeta in *.
  set (s := set_status s0 st rv) in *. set (s1 := set_status s0 st1 rv1) in *.
  rewrite (Hnil (rinfo_of c)) in Hac.
  rewrite (round_quiet s0 upd cnt slots (rinfo_of c) _ (Hnil (rinfo_of c))) in Mk'.
  rewrite (empty_plan_status _ _ _ _ _ _ Hpo Hac) in Hcase.
  rewrite (empty_plan_status _ _ _ _ _ _ Hp1 Ha1).
  destruct Hcase as [[Hset Hinc]|[Hset Hinc]]; rewrite Hs1 in Hset.
  - (* nothing was written: the same set, the same revisions, the same current revision *)
    assert (Hs1eq : s1 = s) by (inversion Hset as [[E1 E2]]; unfold s1, s; rewrite E1, E2; reflexivity).
    assert (Hc : c1 = c) by (rewrite Hs1eq, Hg in Hg1; inversion Hg1; reflexivity).
    subst c1. rewrite Hs1eq.
    rewrite (complete_census_eq s s (rinfo_of c) (rinfo_of c) coll _ _ eq_refl eq_refl eq_refl Nk Nk' Mk'). exact Hinc.
  - (* the computed status was written: the next computation reproduces it *)
    set (F := census_status s (ri_name (rinfo_of c)) (ri_name upd) (rinfo_of c) upd coll (w_pods (Wd k))) in *.
    assert (Hs1eq : s1 = set_status s (complete_rolling_update s F) (s_rv s + 1)) by (inversion Hset as [[E1 E2]]; unfold s1; rewrite E1, E2; reflexivity).
    assert (Hst1 : s_status s1 = complete_rolling_update s F) by (rewrite Hs1eq; reflexivity).
    assert (Hrev : In rupd (sort_revs (lrevs (Wd O) s0))) by (destruct (gsr_value_cur _ _ _ _ _ _ Hg) as [H _]; exact H).
    assert (Hcin : In c (sort_revs (lrevs (Wd O) s0))).
    { destruct (gsr_value_cur _ _ _ _ _ _ Hg) as (_ & [(c' & Hf & ->)|(_ & ->)]); [apply find_some in Hf; tauto | exact Hrev]. }
    (* which name does the stored currentRevision carry *)
    assert (Hname : st_currev (complete_rolling_update s F) = ri_name upd \/ st_currev (complete_rolling_update s F) = r_name c).
    { unfold complete_rolling_update.
      destruct (String.eqb (s_strategy s) "RollingUpdate" && (st_updated F =? st_replicas F) && (st_ready F =? st_replicas F));
        [left | right]; reflexivity. }
    assert (Hsame : complete_rolling_update s1 (census_status s1 (ri_name (rinfo_of c1)) (ri_name upd) (rinfo_of c1) upd coll (w_pods (Wd (S k))))
                    = complete_rolling_update s F).
    { destruct Hname as [Hn|Hn].
      - assert (Hc1 : r_name c1 = r_name rupd).
        { apply (gsr_value_cur_name hashes s1 _ c1 rupd coll rupd Hg1 Hrev). rewrite Hst1, Hn, Hupd0. reflexivity. }
        assert (Hn1 : ri_name (rinfo_of c1) = ri_name upd) by (rewrite Hupd0; exact Hc1).
        rewrite (complete_census_eq s s1 (rinfo_of c1) (rinfo_of c1) coll _ _ eq_refl eq_refl eq_refl Nk Nk' Mk').
        apply (complete_census_done s (rinfo_of c) coll (w_pods (Wd k)) Hn (rinfo_of c1) Hn1).
      - assert (Hc1 : r_name c1 = r_name c).
        { apply (gsr_value_cur_name hashes s1 _ c1 rupd coll c Hg1 Hcin). rewrite Hst1, Hn. reflexivity. }
        apply (complete_census_eq s s1 (rinfo_of c) (rinfo_of c1) coll _ _ (eq_sym Hc1) eq_refl eq_refl Nk Nk' Mk'). }
    rewrite Hsame. rewrite Hs1eq. apply consistent_refl.
Qed.

(* a round after the plan has become empty leaves a QUIET world: the hypothesis of C02_quiet_world_no_write *)
Lemma quiet_at k :
  (forall cur, plan_acts s0 cur upd cnt slots (w_pods (Wd k)) = []) ->
  (forall cur, plan_acts s0 cur upd cnt slots (w_pods (Wd (S k))) = []) ->
  quietb hashes (Wd (S k)) (Wd (S k)) = true.
Proof.
  intros Hnil Hnil'.
  destruct (round_facts (S k)) as (st1 & rv1 & c1 & po1 & Hs1 & Hg1 & Hl1 & Had1 & Hpo1 & Hac1 & Wk1 & Nk1 & Ck1 & _). cbv zeta in *.
  set (s1 := set_status s0 st1 rv1) in *.
  rewrite (Hnil' (rinfo_of c1)) in Hac1.
  pose proof (consistent_next k Hnil st1 rv1 c1 po1 Hs1 Hg1 Hpo1 Hac1) as Hcons. fold s1 in Hcons.
  destruct (all_claimed_quiet s1 _ Ck1) as [Q1 Q2].
  unfold quietb. rewrite Hs1. change (get_paused (s_pause s1)) with (get_paused (s_pause s0)). rewrite Hpause.
  change (s_selector s1) with (s_selector s0). rewrite Hsel. cbn [orb].
  rewrite Had1, Q1, Q2. cbn [andb].
  unfold quiet_pods. rewrite Hl1, Hg1.
  replace {| ri_name := r_name rupd; ri_tmpl := r_tmpl rupd |} with upd by (rewrite Hupd0; reflexivity).
  change {| ri_name := r_name c1; ri_tmpl := r_tmpl c1 |} with (rinfo_of c1).
  rewrite Hpo1, Hac1, Hcons. cbn [negb andb].
  unfold trunc_quiet. change (s_rhl s1) with (s_rhl s0). rewrite Hrhl. apply Z.leb_le.
  pose proof (filter_length_le' (fun r0 => negb (smemb (r_name r0) (r_name c1 :: r_name rupd :: map p_rev (w_pods (Wd (S k))))))
                (sort_revs (lrevs (Wd O) s0))). lia.
Qed.

(* C02 over the full model, complete: from a regular initial world with a revision list within the limit, after at
   most mu fair rounds the pods are converged, and from the round after that on every world is quiet — a reconcile
   issues no write at all (C02_quiet_world_no_write) *)
Theorem full_model_converges_and_goes_quiet :
  exists k, Z.of_nat k <= mu s0 upd cnt slots (w_pods (Wd O)) + 1
    /\ forall m, (k <= m)%nat ->
         pods_converged s0 upd cnt slots (w_pods (Wd m))
         /\ quietb hashes (Wd m) (Wd m) = true.
Proof.
  destruct full_model_converges_closed as (k & K1 & K2).
  exists (S k). split; [lia|]. intros m Hm. destruct m as [|m]; [lia|].
  destruct (K2 m ltac:(lia)) as (_ & _ & P1). destruct (K2 (S m) ltac:(lia)) as (C2 & _ & P2).
  split; [exact C2 | apply quiet_at; assumption].
Qed.

(* ... and the STORED status of those worlds says replicas = readyReplicas = spec.replicas (guard: no int32 wrap) *)
Lemma inconsistent_false_fields s st : inconsistent_status s st = false ->
  st_replicas st = st_replicas (s_status s) /\ st_ready st = st_ready (s_status s).
Proof.
  unfold inconsistent_status. intros H.
  repeat (apply orb_false_iff in H; destruct H as [H ?]).
  repeat match goal with Hx : negb (_ =? _) = false |- _ => apply negb_false_iff in Hx; apply Z.eqb_eq in Hx end.
  split; assumption.
Qed.

Lemma complete_counters_same s st : st_replicas (complete_rolling_update s st) = st_replicas st /\ st_ready (complete_rolling_update s st) = st_ready st.
Proof.
  unfold complete_rolling_update.
  destruct (String.eqb (s_strategy s) "RollingUpdate" && (st_updated st =? st_replicas st) && (st_ready st =? st_replicas st)); split; reflexivity.
Qed.

Theorem full_model_stored_status :
  0 <= r -> r + Z.of_nat (length (get_slots (s_slots s0))) <= max_i32 ->
  exists k, Z.of_nat k <= mu s0 upd cnt slots (w_pods (Wd O)) + 1
    /\ forall m, (k <= m)%nat ->
         exists s, w_set (Wd m) = Some s /\ st_replicas (s_status s) = r /\ st_ready (s_status s) = r.
Proof.
  intros Hr0 Hb. destruct full_model_converges_closed as (k & K1 & K2).
  exists (S k). split; [lia|]. intros m Hm. destruct m as [|m]; [lia|].
  destruct (K2 m ltac:(lia)) as (_ & _ & P1). destruct (K2 (S m) ltac:(lia)) as (C2 & _ & P2).
  destruct (round_facts (S m)) as (st1 & rv1 & c1 & po1 & Hs1 & Hg1 & Hl1 & Had1 & Hpo1 & Hac1 & Wk1 & Nk1 & Ck1 & _). cbv zeta in *.
  set (s1 := set_status s0 st1 rv1) in *.
  rewrite (P2 (rinfo_of c1)) in Hac1.
  pose proof (consistent_next m P1 st1 rv1 c1 po1 Hs1 Hg1 Hpo1 Hac1) as Hcons. fold s1 in Hcons.
  destruct (inconsistent_false_fields _ _ Hcons) as [E1 E2].
  destruct (complete_counters_same s1 (po_status po1)) as [F1 F2]. rewrite F1 in E1. rewrite F2 in E2.
  assert (C2' : pods_converged s1 upd cnt slots (w_pods (Wd (S m)))).
  { destruct C2 as [A B]. split; [exact A | exact B]. }
  destruct (converged_status s1 (rinfo_of c1) upd coll r cnt slots (w_pods (Wd (S m))) po1 Hrep Hr0 Hb Hext Nk1
              (wf_dist _ _ _ _ Wk1) (fun p Hp => proj1 (wf_ord _ _ _ _ Wk1 p Hp)) C2' Hpo1) as (_ & R1 & R2).
  exists s1. split; [exact Hs1|]. split; congruence.
Qed.

End Closed.
