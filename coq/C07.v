(* C07 — Rolling update honours partition, goes highest-first; OnDelete never restarts.
   Statements only. *)
From ASTS Require Import Base Slots Names World Reconcile PlanProofs ReconcileProofs ExampleWorld.

(* (1) every delete of every reconcile has a reason (C03); the ONLY reason that refers to the pod's
   revision is DR_update i, which carries: strategy <> OnDelete; i a desired ordinal; i >= max(partition, 0)
   (umin_of); the pod is the one at ordinal i, not terminating, its revision differs from the update
   revision; and every desired ordinal above i holds an observed healthy pod at the update revision —
   so at most one pod is down for update and the (slot-thinned) ordinals are walked from the top. *)
Theorem C07_update_deletes_respect_partition_and_order :
  forall hashes api cache faults o log w' n e,
    reconcile hashes api cache faults = (o, log, w') -> In (CDeletePod n, e) log ->
    exists s cur upd coll claimed po r cnt slots p,
      ctx_valid cache (s, cur, upd, coll, claimed, po)
      /\ s_replicas s = Some r /\ extend r (get_slots (s_slots s)) = (cnt, slots)
      /\ p_name p = n /\ delete_reason s cur upd cnt slots claimed (po_acts po) p.
Proof. exact reconcile_delete_justified. Qed.
Print Assumptions C07_update_deletes_respect_partition_and_order.

(* (2) partition p >= 0 present: umin_of = p, so (1) gives ordinal >= p for every revision-motivated delete *)
Theorem C07_umin_is_partition : forall s part, s_rolling s = Some (Some part) -> 0 <= part -> umin_of s = part.
Proof. intros s part H Hp. unfold umin_of. rewrite H. lia. Qed.
Print Assumptions C07_umin_is_partition.

(* (3) pods (re)created below the partition are built from the current revision, the others from the
   update revision *)
Theorem C07_new_pod_revision : forall s cur upd part i,
  s_rolling s = Some (Some part) ->
  let p := new_versioned_pod s cur upd i in
  (i < part -> p_rev p = ri_name cur /\ p_tmpl p = ri_tmpl cur)
  /\ (part <= i -> p_rev p = ri_name upd /\ p_tmpl p = ri_tmpl upd).
Proof.
  intros s cur upd part i H p. pose proof (use_current_partition s part i H) as Hu.
  destruct (nvp_revision s cur upd i) as [(E1 & E2 & E3)|(E1 & E2 & E3)]; fold p in E1, E2; rewrite Hu in E3.
  - apply Z.ltb_lt in E3. split; [intros _; split; assumption | intros Hc; lia].
  - apply Z.ltb_ge in E3. split; [intros Hc; lia | intros _; split; assumption].
Qed.
Print Assumptions C07_new_pod_revision.

(* non-vacuity: template edited (2), partition 1, three healthy pods at the old revision: the highest
   pod is deleted, nothing else *)
Example C07_ex_highest_first :
  filter (fun sh => String.prefix "delete pods" sh)
         (map (fun e => shape_of (fst e))
              (ex_log (ex_set 3 None "OrderedReady" 2 1 (ex_status 3 "web-h1" "web-h1")) ex_healthy3 [ex_rev "web-h1" 1 1]))
  = ["delete pods web-2"%string].
Proof. vm_compute. reflexivity. Qed.
