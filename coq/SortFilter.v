(* SortFilter.v — insertion sort commutes with a filter.  Used by RoundTrunc.v: deleting revisions by name from the
   API state deletes them from the sorted, de-duplicated list the revision phase works on, and nothing else moves. *)
From Coq Require Import List ZArith Lia Bool String OrderedTypeEx.
From ASTS Require Import Base World Reconcile.
Import ListNotations.
Local Open Scope Z_scope.

Section Generic.
Context {A : Type}.
Variable lt : A -> A -> bool.
(* a strict weak order, as much of it as is needed *)
Hypothesis P1 : forall a b c, lt a b = true -> lt c b = false -> lt a c = true.
Hypothesis P2 : forall a b, lt a b = true -> lt b a = false.

Fixpoint ins (x : A) (l : list A) : list A :=
  match l with
  | [] => [x]
  | q :: t => if lt x q then x :: l else q :: ins x t
  end.
Definition isort (l : list A) : list A := fold_right ins [] l.

Fixpoint sorted (l : list A) : Prop :=
  match l with
  | [] => True
  | q :: t => (forall y, In y t -> lt y q = false) /\ sorted t
  end.

Lemma ins_in x l y : In y (ins x l) -> y = x \/ In y l.
Proof.
  induction l as [|q t IH]; cbn [ins].
  - intros [H|[]]; left; symmetry; exact H.
  - destruct (lt x q).
    + intros [H|H]; [left; symmetry; exact H | right; exact H].
    + intros [H|H]; [right; left; exact H|]. destruct (IH H) as [E|E]; [left; exact E | right; right; exact E].
Qed.

Lemma ins_sorted x l : sorted l -> sorted (ins x l).
Proof.
  induction l as [|q t IH]; cbn [ins sorted].
  - intros _. split; [intros y []|exact I].
  - intros [Hq Ht]. destruct (lt x q) eqn:E.
    + cbn [sorted]. split; [|split; assumption].
      intros y [Hy|Hy]; [subst y; apply P2; exact E|].
      destruct (lt y x) eqn:F; [|reflexivity]. exfalso.
      pose proof (P1 x q y E (Hq y Hy)) as G. rewrite (P2 _ _ G) in F. discriminate.
    + cbn [sorted]. split; [|apply IH; exact Ht].
      intros y Hy. destruct (ins_in _ _ _ Hy) as [->|Hy']; [exact E | apply Hq; exact Hy'].
Qed.

Lemma isort_sorted l : sorted (isort l).
Proof. induction l as [|x l IH]; cbn; [exact I | apply ins_sorted; exact IH]. Qed.

Lemma ins_head x l : (forall y, In y l -> lt x y = true) -> ins x l = x :: l.
Proof. destruct l as [|q t]; [reflexivity|]. intros H. cbn [ins]. rewrite (H q (or_introl eq_refl)). reflexivity. Qed.

Lemma filter_ins f x l : sorted l ->
  filter f (ins x l) = if f x then ins x (filter f l) else filter f l.
Proof.
  induction l as [|q t IH]; cbn [ins].
  - intros _. cbn. destruct (f x); reflexivity.
  - intros [Hq Ht]. destruct (lt x q) eqn:E.
    + cbn [filter]. destruct (f x) eqn:Fx; [|reflexivity].
      symmetry. change (ins x (filter f (q :: t)) = x :: filter f (q :: t)). apply ins_head.
      intros y Hy. apply filter_In in Hy. destruct Hy as [[Hy|Hy] _]; [subst y; exact E|].
      apply (P1 x q y E). apply Hq. exact Hy.
    + cbn [filter]. rewrite (IH Ht). destruct (f q) eqn:Fq; destruct (f x) eqn:Fx; try reflexivity.
      cbn [ins]. rewrite E. reflexivity.
Qed.

Lemma filter_isort f l : filter f (isort l) = isort (filter f l).
Proof.
  induction l as [|x l IH]; [reflexivity|].
  cbn [isort fold_right filter]. fold (isort l). rewrite (filter_ins f x (isort l) (isort_sorted l)), IH.
  destruct (f x); reflexivity.
Qed.
End Generic.

(* ------------------------------------------------------------ strings ---------------------------- *)
Lemma sltb_lt a b : String.ltb a b = true <-> String_as_OT.lt a b.
Proof.
  unfold String.ltb. rewrite <- String_as_OT.cmp_lt. unfold String_as_OT.cmp.
  destruct (String.compare a b); split; intros H; try reflexivity; try discriminate.
Qed.
Lemma sltb_asym a b : String.ltb a b = true -> String.ltb b a = false.
Proof.
  intros H. destruct (String.ltb b a) eqn:E; [|reflexivity]. exfalso.
  apply sltb_lt in H. apply sltb_lt in E.
  apply (String_as_OT.lt_not_eq a a (String_as_OT.lt_trans _ _ _ H E)). reflexivity.
Qed.
Lemma sltb_total a b : String.ltb a b = false -> String.ltb b a = false -> a = b.
Proof.
  unfold String.ltb. intros H1 H2. rewrite String.compare_antisym in H2.
  destruct (String.compare a b) eqn:E; cbn in *; try discriminate. apply String.compare_eq_iff. exact E.
Qed.
Lemma sltb_p1 a b c : String.ltb a b = true -> String.ltb c b = false -> String.ltb a c = true.
Proof.
  intros H1 H2. destruct (String.ltb b c) eqn:E.
  - apply sltb_lt. apply (String_as_OT.lt_trans _ b); apply sltb_lt; assumption.
  - rewrite (sltb_total c b H2 E). exact H1.
Qed.

(* ------------------------------------------------------------ the two sorts of the model ----------- *)
Definition name_lt (a b : rev) : bool := String.ltb (r_name a) (r_name b).
Lemma insert_by_name_ins r l : insert_by_name r l = ins name_lt r l.
Proof. induction l as [|q t IH]; [reflexivity|]. cbn [insert_by_name ins]. unfold name_lt at 1. rewrite IH. reflexivity. Qed.
Lemma sort_by_name_isort l : sort_by_name l = isort name_lt l.
Proof. induction l as [|x l IH]; [reflexivity|]. cbn [sort_by_name isort fold_right]. fold (sort_by_name l). fold (isort name_lt l). rewrite IH. apply insert_by_name_ins. Qed.
Lemma insert_rev_ins r l : insert_rev r l = ins rev_lt r l.
Proof. induction l as [|q t IH]; [reflexivity|]. cbn [insert_rev ins]. rewrite IH. reflexivity. Qed.
Lemma sort_revs_isort l : sort_revs l = isort rev_lt l.
Proof. induction l as [|x l IH]; [reflexivity|]. cbn [sort_revs isort fold_right]. fold (sort_revs l). fold (isort rev_lt l). rewrite IH. apply insert_rev_ins. Qed.

Lemma name_lt_p1 a b c : name_lt a b = true -> name_lt c b = false -> name_lt a c = true.
Proof. unfold name_lt. apply sltb_p1. Qed.
Lemma name_lt_p2 a b : name_lt a b = true -> name_lt b a = false.
Proof. unfold name_lt. apply sltb_asym. Qed.

Lemma rev_lt_p2 a b : rev_lt a b = true -> rev_lt b a = false.
Proof.
  unfold rev_lt. rewrite (Z.eqb_sym (r_revision b)), (Z.eqb_sym (r_created b)).
  destruct (r_revision a =? r_revision b) eqn:E1.
  - destruct (r_created a =? r_created b) eqn:E2; [apply sltb_asym|]. intros H. apply Z.ltb_lt in H. apply Z.ltb_ge. lia.
  - intros H. apply Z.ltb_lt in H. apply Z.ltb_ge. lia.
Qed.
Lemma rev_lt_p1 a b c : rev_lt a b = true -> rev_lt c b = false -> rev_lt a c = true.
Proof.
  unfold rev_lt.
  destruct (Z.eqb_spec (r_revision a) (r_revision b)) as [E1|E1]; destruct (Z.eqb_spec (r_revision c) (r_revision b)) as [E2|E2];
    destruct (Z.eqb_spec (r_revision a) (r_revision c)) as [E3|E3]; try (exfalso; lia).
  - destruct (Z.eqb_spec (r_created a) (r_created b)) as [F1|F1]; destruct (Z.eqb_spec (r_created c) (r_created b)) as [F2|F2];
      destruct (Z.eqb_spec (r_created a) (r_created c)) as [F3|F3]; try (exfalso; lia).
    + apply sltb_p1.
    + intros H1 H2. apply Z.ltb_ge in H2. apply Z.ltb_lt. lia.
    + intros H1 H2. apply Z.ltb_lt in H1. apply Z.ltb_lt. lia.
    + intros H1 H2. apply Z.ltb_lt in H1. apply Z.ltb_ge in H2. exfalso. lia.
    + intros H1 H2. apply Z.ltb_lt in H1. apply Z.ltb_ge in H2. apply Z.ltb_lt. lia.
  - intros H1 H2. apply Z.ltb_ge in H2. apply Z.ltb_lt. lia.
  - intros H1 H2. apply Z.ltb_lt in H1. apply Z.ltb_lt. lia.
  - intros H1 H2. apply Z.ltb_lt in H1. apply Z.ltb_ge in H2. exfalso. lia.
  - intros H1 H2. apply Z.ltb_lt in H1. apply Z.ltb_ge in H2. apply Z.ltb_lt. lia.
Qed.

Lemma filter_sort_by_name f l : filter f (sort_by_name l) = sort_by_name (filter f l).
Proof. rewrite !sort_by_name_isort. apply (filter_isort name_lt name_lt_p1 name_lt_p2). Qed.
Lemma filter_sort_revs f l : filter f (sort_revs l) = sort_revs (filter f l).
Proof. rewrite !sort_revs_isort. apply (filter_isort rev_lt rev_lt_p1 rev_lt_p2). Qed.
