(* WatchProofs.v — lemmas about the relay model of Watch.v (property C20).
   PARTIAL: everything here is about the transition system of Watch.v.  The Go scheduler, the channel
   implementation, sync.Mutex, defer order and utilruntime.HandleCrash are modelled there as rules, not
   verified; the model cannot exhibit runtime-level leaks other than a parked relay goroutine. *)
From ASTS Require Import Base Watch.

Local Open Scope nat_scope.

(* ---------- decidable equality of events ---------------------------------------------------- *)
Lemma etype_eqb_eq a b : etype_eqb a b = true <-> a = b.
Proof. destruct a, b; simpl; split; intros H; try reflexivity; try discriminate. Qed.

Lemma payload_eqb_eq a b : payload_eqb a b = true <-> a = b.
Proof.
  destruct a, b; simpl; split; intros H; try discriminate;
    try (apply Z.eqb_eq in H; subst; reflexivity);
    try (inversion H; subst; apply Z.eqb_refl).
Qed.

Lemma event_eqb_eq a b : event_eqb a b = true <-> a = b.
Proof.
  destruct a as [t p], b as [t' p']; unfold event_eqb; simpl. rewrite andb_true_iff.
  rewrite etype_eqb_eq, payload_eqb_eq. split.
  - intros [-> ->]. reflexivity.
  - intros H. inversion H. auto.
Qed.

Lemma event_eqb_refl e : event_eqb e e = true.
Proof. apply event_eqb_eq. reflexivity. Qed.

Lemma convert_type e : ev_type (convert e) = ev_type e.
Proof. reflexivity. Qed.

Lemma convert_status t i : convert (Ev t (PStatus i)) = Ev t (PStatus i).
Proof. reflexivity. Qed.

(* ---------- runs ------------------------------------------------------------------------------ *)
Lemma run_app v l1 l2 s :
  run_gen v (l1 ++ l2) s = match run_gen v l1 s with Some s1 => run_gen v l2 s1 | None => None end.
Proof.
  revert s. induction l1 as [|a l1 IH]; intros s; simpl; [reflexivity|].
  destruct (step_gen v s a); [apply IH | reflexivity].
Qed.

(* an invariant of single steps holds along every run *)
Lemma run_invariant v (P : state -> Prop) :
  (forall s a s', P s -> step_gen v s a = Some s' -> P s') ->
  forall l s s', P s -> run_gen v l s = Some s' -> P s'.
Proof.
  intros Hstep l. induction l as [|a l IH]; intros s s' HP Hr; simpl in Hr.
  - inversion Hr; subst; exact HP.
  - destruct (step_gen v s a) eqn:E; [|discriminate]. eapply IH; [|exact Hr]. eapply Hstep; eauto.
Qed.

(* the same with a side condition on the labels *)
Lemma run_invariant_lab v (P : state -> Prop) (ok : label -> bool) :
  (forall s a s', P s -> ok a = true -> step_gen v s a = Some s' -> P s') ->
  forall l s s', P s -> forallb ok l = true -> run_gen v l s = Some s' -> P s'.
Proof.
  intros Hstep l. induction l as [|a l IH]; intros s s' HP Hok Hr; simpl in *.
  - inversion Hr; subst; exact HP.
  - apply andb_true_iff in Hok. destruct Hok as [Ha Hl].
    destruct (step_gen v s a) eqn:E; [|discriminate]. eapply IH; [|exact Hl|exact Hr]. eapply Hstep; eauto.
Qed.

(* ---------- case analysis of one step ----------------------------------------------------------- *)
Ltac destruct_scrutinee H :=
  match type of H with
  | context [match ?x with _ => _ end] => is_var x; destruct x; simpl in H; try discriminate H
  end.
Ltac destruct_scrutinee_any H :=
  match type of H with
  | context [match ?x with _ => _ end] => destruct x eqn:?; simpl in H; try discriminate H
  end.

(* H : step_gen v s a = Some s', with s a record of variables *)
Ltac step_cases H :=
  unfold step_gen, do_stop, close_src, crash, set_pc in H; simpl in H; try discriminate H;
  repeat destruct_scrutinee H;
  repeat destruct_scrutinee_any H;
  try (injection H as H; subst).

(* ---------- the invariant ------------------------------------------------------------------------ *)
(* relation between what the relay was handed and what the consumer received, per program point *)
Definition pc_rel (s : state) : Prop :=
  match pc s with
  | Recv => map convert (handed s) = received s
  | Conv e => exists h, handed s = h ++ [e] /\ map convert h = received s
  | Send e' => exists h e, handed s = h ++ [e] /\ e' = convert e /\ map convert h = received s
  | _ => exists rest, map convert (handed s) = received s ++ rest /\ length rest <= 1
  end.

Record Inv (v : variant) (s : state) : Prop := {
  inv_done : v = Repaired -> done_closed s = stopped s;
  inv_stop_src : stopped s = true -> src_closed s = true;
  inv_closed_q : src_closed s = true -> length (src_q s) <= cap s;
  inv_rel : pc_rel s;
  inv_result : result_closed s = true <-> pc s = Done;
  inv_exit : pc s = ExitClose \/ pc s = Done -> stopped s = true;
  inv_offered : exists rest, offered s = handed s ++ src_q s ++ rest /\ (src_closed s = false -> rest = [])
}.

Lemma inv_init v c rc : Inv v (init c rc).
Proof.
  constructor; simpl; try reflexivity; try discriminate; try tauto.
  - split; discriminate.
  - intros [H|H]; discriminate.
  - exists []. split; reflexivity.
Qed.

Lemma inv_step v s a s' : Inv v s -> step_gen v s a = Some s' -> Inv v s'.
Proof.
  intros [I1 I2 I3 I4 I5 I6 I7] H. unfold pc_rel in I4.
  destruct s as [cp rc q sc stp dc p rcv n rcl off hd pn]; simpl in *.
  destruct p; destruct a; step_cases H.
  all: constructor; simpl; unfold pc_rel; simpl.
  all: try (intros; congruence).
  all: try tauto.
  all: try (intuition congruence).
  all: try (rewrite firstn_length; lia).
  all: try (simpl in *; lia).
  (* offered = handed ++ queue ++ dropped *)
  all: try solve [ destruct I7 as [rest [Ho Hr]];
    first [ exists rest; split; [rewrite Ho; repeat rewrite <- app_assoc; simpl; reflexivity | solve [assumption | intros; discriminate | auto]]
          | exists (skipn cp q ++ rest); split;
              [rewrite Ho; f_equal; rewrite app_assoc, firstn_skipn; reflexivity | intros; discriminate]
          | match goal with |- exists r, _ ++ [?e] = _ /\ _ =>
              exists (rest ++ [e]); split; [rewrite Ho; repeat rewrite <- app_assoc; reflexivity | intros; discriminate] end
          | rewrite (Hr eq_refl) in *; exists []; split;
              [rewrite Ho; repeat rewrite app_nil_r; repeat rewrite <- app_assoc; reflexivity | reflexivity] ] ].
  (* handed versus received *)
  all: try solve [ exact I4
                 | exists []; rewrite app_nil_r; split; [assumption || reflexivity | simpl; lia]
                 | destruct I4 as [h [Hh Hm]]; subst; eexists [_]; rewrite map_app; split; [reflexivity | simpl; lia]
                 | destruct I4 as [h [e1 [Hh [He Hm]]]]; subst; eexists [_]; rewrite map_app; split; [reflexivity | simpl; lia]
                 | destruct I4 as [h [e1 [Hh [He Hm]]]]; subst; rewrite map_app; reflexivity
                 | destruct I4 as [h [Hh Hm]]; exists h; eexists; split; [exact Hh | split; [|exact Hm]];
                   match goal with e : event |- _ => destruct e; simpl in *; subst; reflexivity end
                 | destruct I4 as [h [Hh Hm]]; exists h; eexists; split; [exact Hh | split; [reflexivity|exact Hm]]
                 | eexists; split; reflexivity
                 | intros Hs; specialize (I3 Hs); simpl in I3; lia ].
Qed.

Lemma inv_run v l s s' : Inv v s -> run_gen v l s = Some s' -> Inv v s'.
Proof. apply run_invariant. intros; eapply inv_step; eauto. Qed.

Lemma inv_reach v c rc l s : run_gen v l (init c rc) = Some s -> Inv v s.
Proof. apply inv_run. apply inv_init. Qed.

(* ---------- (i) safety: received is the converted prefix of what the relay was handed ------------- *)
Lemma pc_rel_prefix s : pc_rel s ->
  exists rest, map convert (handed s) = received s ++ rest /\ length rest <= 1 /\ (pc s = Recv -> rest = []).
Proof.
  unfold pc_rel. destruct (pc s) eqn:E.
  - intros H. exists []. rewrite app_nil_r. repeat split; auto.
  - intros [h [Hh Hm]]. exists [convert e]. rewrite Hh, map_app, Hm. simpl. repeat split; auto; discriminate.
  - intros [h [e0 [Hh [He Hm]]]]. exists [convert e0]. rewrite Hh, map_app, Hm. simpl. repeat split; auto; discriminate.
  - intros [r [H1 H2]]. exists r. repeat split; auto; discriminate.
  - intros [r [H1 H2]]. exists r. repeat split; auto; discriminate.
  - intros [r [H1 H2]]. exists r. repeat split; auto; discriminate.
  - intros [r [H1 H2]]. exists r. repeat split; auto; discriminate.
  - intros [r [H1 H2]]. exists r. repeat split; auto; discriminate.
Qed.

Lemma relay_prefix v c rc l s : run_gen v l (init c rc) = Some s ->
  exists rest, map convert (handed s) = received s ++ rest /\ length rest <= 1 /\ (pc s = Recv -> rest = []).
Proof. intros H. apply pc_rel_prefix. apply (inv_rel v). eapply inv_reach; eauto. Qed.

(* element-wise reading: the i-th received event has the type of the i-th handed event and its
   converted payload *)
Lemma prefix_forall2 (hd rcv rest : list event) :
  map convert hd = rcv ++ rest ->
  Forall2 (fun r h => ev_type r = ev_type h /\ ev_payload r = convert_payload (ev_payload h))
          rcv (firstn (length rcv) hd).
Proof.
  revert hd. induction rcv as [|r rcv IH]; intros hd H; simpl.
  - constructor.
  - destruct hd as [|h hd]; simpl in H; [discriminate|]. injection H as Hr Ht. constructor.
    + subst r. split; reflexivity.
    + apply IH. exact Ht.
Qed.

Lemma relay_elementwise v c rc l s : run_gen v l (init c rc) = Some s ->
  length (received s) <= length (handed s) <= S (length (received s))
  /\ Forall2 (fun r h => ev_type r = ev_type h /\ ev_payload r = convert_payload (ev_payload h))
             (received s) (firstn (length (received s)) (handed s)).
Proof.
  intros H. destruct (relay_prefix _ _ _ _ _ H) as [rest [Hm [Hl _]]]. split.
  - assert (E : length (map convert (handed s)) = length (received s ++ rest)) by (rewrite Hm; reflexivity).
    rewrite map_length, app_length in E. lia.
  - eapply prefix_forall2; eauto.
Qed.

(* the relay is handed the events the source offered, in order, without invention: handed ++ queue is
   a prefix of the offered events (all of them while the source is open) *)
Lemma offered_run v l s s' : run_gen v l s = Some s' -> offered s' = offered s ++ offers_of l.
Proof.
  revert s. induction l as [|a l IH]; intros s H; simpl in H.
  - injection H as <-. simpl. rewrite app_nil_r. reflexivity.
  - destruct (step_gen v s a) as [s1|] eqn:E; [|discriminate]. rewrite (IH _ H).
    assert (Ho : offered s1 = offered s ++ offers_of [a]).
    { clear H IH. destruct s as [cp rc q sc stp dc p rcv n rcl off hd pn]; simpl in *.
      destruct p; destruct a; step_cases E; simpl; rewrite ?app_nil_r; reflexivity. }
    rewrite Ho. simpl. destruct a; simpl; rewrite ?app_nil_r; try reflexivity.
    rewrite <- app_assoc. reflexivity.
Qed.

Lemma handed_from_offers v c rc l s : run_gen v l (init c rc) = Some s ->
  exists rest, offers_of l = handed s ++ src_q s ++ rest /\ (src_closed s = false -> rest = []).
Proof.
  intros H. pose proof (inv_offered v s (inv_reach _ _ _ _ _ H)) as [rest [Ho Hr]].
  rewrite (offered_run _ _ _ _ H) in Ho. simpl in Ho. exists rest. split; assumption.
Qed.

(* ---------- (ii) no crash ----------------------------------------------------------------------- *)
Definition ev_good (e : event) : bool := payload_good (ev_payload e).

Definition Good (s : state) : Prop :=
  forallb ev_good (src_q s) = true /\
  match pc s with
  | Crashed | Panicking => False
  | Conv e => ev_good e = true
  | _ => True
  end.

Lemma forallb_firstn {A} (f : A -> bool) n l : forallb f l = true -> forallb f (firstn n l) = true.
Proof.
  revert n. induction l as [|x l IH]; intros n H; destruct n; simpl in *; auto.
  apply andb_true_iff in H. destruct H as [Hx Hl]. rewrite Hx. simpl. apply IH. exact Hl.
Qed.

Lemma good_step s a s' :
  Inv Repaired s -> Good s -> label_good a = true -> step s a = Some s' -> Good s'.
Proof.
  intros [I1 I2 I3 I4 I5 I6 I7] [G1 G2] La H. unfold step in H. clear I4 I7.
  specialize (I1 eq_refl).
  destruct s as [cp rc q sc stp dc p rcv n rcl off hd pn]; simpl in *.
  destruct p; destruct a; step_cases H; unfold Good; simpl.
  all: try solve [ split; [ assumption || (apply forallb_firstn; assumption) | exact I ] ].
  all: try solve [ exfalso; assumption ].
  all: try solve [ simpl in La; rewrite forallb_app, G1; simpl; unfold ev_good at 1; rewrite La; split; [ reflexivity | exact I || assumption ] ].
  all: try solve [ simpl in G1; apply andb_true_iff in G1; destruct G1 as [Ge Gq]; split; assumption ].
  all: try solve [ unfold ev_good in G2; match goal with Hp : ev_payload _ = _ |- _ => rewrite Hp in G2; discriminate G2 end ].
  all: try solve [ discriminate I1 ].
  all: try solve [ split; [ assumption || (apply forallb_firstn; assumption) | assumption ] ].
  all: try solve [ destruct I5 as [I5a I5b]; specialize (I5a eq_refl); discriminate I5a ].
Qed.
Lemma good_init c rc : Good (init c rc).
Proof. split; simpl; auto. Qed.

Lemma no_crash c rc l s :
  forallb label_good l = true -> run l (init c rc) = Some s -> pc s <> Crashed /\ pc s <> Panicking.
Proof.
  intros Hl Hr.
  assert (HG : Inv Repaired s /\ Good s).
  { revert Hl Hr. unfold run.
    apply (run_invariant_lab Repaired (fun s => Inv Repaired s /\ Good s) label_good).
    - intros s0 a s1 [HI HGd] La Hs. split; [eapply inv_step; eauto | eapply good_step; eauto].
    - split; [apply inv_init | apply good_init]. }
  destruct HG as [_ [_ G2]]. split; intros E; rewrite E in G2; exact G2.
Qed.

(* ---------- (iii) termination measure ----------------------------------------------------------- *)
Lemma firstn_length_le {A} n (l : list A) : length (firstn n l) <= length l.
Proof. rewrite firstn_length. lia. Qed.

Lemma progress_decreases v s a s' :
  progress a = true -> step_gen v s a = Some s' -> measure s' < measure s.
Proof.
  intros Pa H. unfold measure.
  destruct s as [cp rc q sc stp dc p rcv n rcl off hd pn]; simpl in *.
  destruct p; destruct a; try discriminate Pa; step_cases H; simpl;
    try (pose proof (firstn_length_le cp q)); try lia.
Qed.

Lemma closed_stays v s a s' : src_closed s = true -> step_gen v s a = Some s' -> src_closed s' = true.
Proof.
  intros Hc H.
  destruct s as [cp rc q sc stp dc p rcv n rcl off hd pn]; simpl in *. subst sc.
  destruct p; destruct a; step_cases H; reflexivity.
Qed.

Lemma neutral_nonincreasing v s a s' :
  src_closed s = true -> progress a = false -> step_gen v s a = Some s' -> measure s' <= measure s.
Proof.
  intros Hc Pa H. unfold measure.
  destruct s as [cp rc q sc stp dc p rcv n rcl off hd pn]; simpl in *. subst sc.
  destruct p; destruct a; try discriminate Pa; step_cases H; simpl;
    try (pose proof (firstn_length_le cp q)); try lia.
Qed.

(* once the source channel is closed, ANY run contains at most [measure s] steps of the relay *)
Lemma bounded_progress v l s s' :
  src_closed s = true -> run_gen v l s = Some s' -> count_labels progress l + measure s' <= measure s.
Proof.
  revert s. induction l as [|a l IH]; intros s Hc H; simpl in *.
  - injection H as <-. lia.
  - destruct (step_gen v s a) as [s1|] eqn:E; [|discriminate].
    specialize (IH s1 (closed_stays _ _ _ _ Hc E) H).
    destruct (progress a) eqn:Pa.
    + pose proof (progress_decreases _ _ _ _ Pa E). lia.
    + pose proof (neutral_nonincreasing _ _ _ _ Hc Pa E). lia.
Qed.

(* ---------- (iii) a parked relay after Stop / after the source ended is a finished relay ---------- *)

Lemma stopped_quiescent s :
  Inv Repaired s -> stopped s = true ->
  (forall a, relay_only a = true -> step s a = None) -> finished s \/ pc s = Crashed.
Proof.
  intros [I1 I2 I3 I4 I5 I6 I7] Hs Hq. specialize (I1 eq_refl). unfold finished, step in *.
  destruct s as [cp rc q sc stp dc p rcv n rcl off hd pn]; simpl in *. subst stp dc.
  destruct p.
  - specialize (Hq relay_recv_done eq_refl). discriminate Hq.
  - specialize (Hq relay_convert eq_refl). unfold step_gen in Hq; simpl in Hq.
    destruct (ev_payload e); discriminate Hq.
  - specialize (Hq relay_send_done eq_refl). discriminate Hq.
  - specialize (Hq relay_handle_crash eq_refl). unfold step_gen in Hq; simpl in Hq. destruct rc; discriminate Hq.
  - specialize (Hq relay_exit_stop eq_refl). discriminate Hq.
  - specialize (Hq relay_exit_close eq_refl). unfold step_gen in Hq; simpl in Hq. destruct rcl; discriminate Hq.
  - left. split; [reflexivity | apply I5; reflexivity].
  - right. reflexivity.
Qed.

Lemma closed_quiescent s :
  Inv Repaired s -> src_closed s = true ->
  (forall a, progress a = true -> step s a = None) -> finished s \/ pc s = Crashed.
Proof.
  intros [I1 I2 I3 I4 I5 I6 I7] Hs Hq. specialize (I1 eq_refl). unfold finished, step in *.
  destruct s as [cp rc q sc stp dc p rcv n rcl off hd pn]; simpl in *. subst sc.
  destruct p.
  - destruct q as [|e q].
    + specialize (Hq relay_recv_eof eq_refl). discriminate Hq.
    + specialize (Hq (source_send e) eq_refl). unfold step_gen in Hq; simpl in Hq.
      rewrite event_eqb_refl in Hq. discriminate Hq.
  - specialize (Hq relay_convert eq_refl). unfold step_gen in Hq; simpl in Hq.
    destruct (ev_payload e); discriminate Hq.
  - specialize (Hq consumer_recv eq_refl). unfold step_gen in Hq; simpl in Hq.
    destruct rcl; [|discriminate Hq]. destruct I5 as [I5a _]. specialize (I5a eq_refl). discriminate I5a.
  - specialize (Hq relay_handle_crash eq_refl). unfold step_gen in Hq; simpl in Hq. destruct rc; discriminate Hq.
  - specialize (Hq relay_exit_stop eq_refl). unfold step_gen, do_stop in Hq; simpl in Hq.
    destruct stp; simpl in Hq; [discriminate Hq|]. destruct dc; simpl in Hq; discriminate Hq.
  - specialize (Hq relay_exit_close eq_refl). unfold step_gen in Hq; simpl in Hq. destruct rcl; discriminate Hq.
  - left. split; [reflexivity | apply I5; reflexivity].
  - right. reflexivity.
Qed.

(* ---------- a maximal relay-only run exists: settle ------------------------------------------------ *)
Lemma relay_next_enabled v s a :
  relay_next v s = Some a -> relay_only a = true /\ exists s', step_gen v s a = Some s'.
Proof.
  unfold relay_next. intros H.
  destruct s as [cp rc q sc stp dc p rcv n rcl off hd pn]; simpl in *.
  destruct p; simpl in H.
  - destruct q as [|e q].
    + destruct v; [destruct dc|]; try destruct sc; try discriminate H; injection H as <-;
        (split; [reflexivity | eexists; reflexivity]).
    + injection H as <-. split; [reflexivity|]. unfold step_gen; simpl. rewrite event_eqb_refl. eexists; reflexivity.
  - injection H as <-. split; [reflexivity|]. unfold step_gen; simpl.
    destruct (ev_payload e); destruct v; eexists; reflexivity.
  - destruct v; [destruct dc|]; try discriminate H. injection H as <-. split; [reflexivity | eexists; reflexivity].
  - injection H as <-. split; [reflexivity|]. unfold step_gen; simpl. destruct rc; eexists; reflexivity.
  - injection H as <-. split; [reflexivity|]. unfold step_gen, do_stop; simpl.
    destruct stp; simpl; [eexists; reflexivity|]. destruct v; [destruct dc|]; simpl; eexists; reflexivity.
  - injection H as <-. split; [reflexivity|]. unfold step_gen; simpl. destruct rcl; eexists; reflexivity.
  - discriminate H.
  - discriminate H.
Qed.

Lemma relay_next_none v s :
  relay_next v s = None -> forall a, relay_only a = true -> step_gen v s a = None.
Proof.
  unfold relay_next. intros H a Ra.
  destruct s as [cp rc q sc stp dc p rcv n rcl off hd pn]; simpl in *.
  destruct p; simpl in H; try discriminate H; destruct a; try discriminate Ra; unfold step_gen; simpl; try reflexivity.
  all: try (destruct q; [|discriminate H]).
  all: try (destruct v; try reflexivity).
  all: try (destruct dc; try discriminate H; try reflexivity).
  all: try (destruct sc; try discriminate H; try reflexivity).
Qed.

Lemma settle_run v n s :
  exists l, forallb relay_only l = true /\ run_gen v l s = Some (settle v n s) /\ length l <= n.
Proof.
  revert s. induction n as [|n IH]; intros s; simpl.
  - exists []. repeat split; auto.
  - destruct (relay_next v s) as [a|] eqn:E.
    + destruct (relay_next_enabled _ _ _ E) as [Ra [s1 Hs1]]. rewrite Hs1.
      destruct (IH s1) as [l [Hl [Hr Hn]]]. exists (a :: l). simpl. rewrite Ra, Hl, Hs1. repeat split; auto. lia.
    + exists []. repeat split; auto. simpl; lia.
Qed.

Lemma relay_only_progress a : relay_only a = true -> progress a = true.
Proof. destruct a; simpl; auto. Qed.

(* with enough fuel the relay is parked at the end, provided the source accepts nothing new *)
Lemma settle_parks v n s : measure s <= n -> relay_next v (settle v n s) = None.
Proof.
  revert s. induction n as [|n IH]; intros s Hm; simpl.
  - destruct (relay_next v s) as [a|] eqn:E; [|reflexivity].
    destruct (relay_next_enabled _ _ _ E) as [Ra [s1 Hs1]].
    pose proof (progress_decreases _ _ _ _ (relay_only_progress _ Ra) Hs1). lia.
  - destruct (relay_next v s) as [a|] eqn:E; [|exact E].
    destruct (relay_next_enabled _ _ _ E) as [Ra [s1 Hs1]]. rewrite Hs1. apply IH.
    pose proof (progress_decreases _ _ _ _ (relay_only_progress _ Ra) Hs1). lia.
Qed.

(* ---------- (iii) clean shutdown, assembled ------------------------------------------------------ *)
Lemma stopped_stays v s a s' : stopped s = true -> step_gen v s a = Some s' -> stopped s' = true.
Proof.
  intros Hs E. destruct s as [cp rc0 q sc stp dc p rcv n rcl off hd pn]; simpl in *. subst stp.
  destruct p; destruct a; step_cases E; reflexivity.
Qed.

Lemma stopped_stays_run v l : forall s s', stopped s = true -> run_gen v l s = Some s' -> stopped s' = true.
Proof.
  apply (run_invariant v (fun s => stopped s = true)). intros; eapply stopped_stays; eauto.
Qed.

(* after Stop: every run made of relay steps, repeated Stops and source activity (no delivery) contains
   at most [measure s] relay steps, and if it ends with the relay parked, the relay has finished *)
Lemma shutdown_after_stop c rc l s l2 s2 :
  run l (init c rc) = Some s -> stopped s = true ->
  run l2 s = Some s2 ->
  count_labels progress l2 <= measure s
  /\ ((forall a, relay_only a = true -> step s2 a = None) -> finished s2 \/ pc s2 = Crashed).
Proof.
  intros Hr Hs Hr2.
  pose proof (inv_reach _ _ _ _ _ Hr) as HI.
  assert (Hc : src_closed s = true) by (apply (inv_stop_src _ _ HI); exact Hs).
  split.
  - pose proof (bounded_progress _ _ _ _ Hc Hr2). lia.
  - intros Hq. pose proof (inv_run _ _ _ _ HI Hr2) as HI2.
    apply stopped_quiescent; auto.
    eapply stopped_stays_run; eauto.
Qed.

(* after the source ended: the same with deliveries allowed (the consumer drains the watch) *)
Lemma shutdown_after_close c rc l s l2 s2 :
  run l (init c rc) = Some s -> src_closed s = true ->
  run l2 s = Some s2 ->
  count_labels progress l2 <= measure s
  /\ ((forall a, progress a = true -> step s2 a = None) -> finished s2 \/ pc s2 = Crashed).
Proof.
  intros Hr Hc Hr2.
  pose proof (inv_reach _ _ _ _ _ Hr) as HI.
  split.
  - pose proof (bounded_progress _ _ _ _ Hc Hr2). lia.
  - intros Hq. pose proof (inv_run _ _ _ _ HI Hr2) as HI2.
    apply closed_quiescent; auto.
    clear Hq HI2 HI Hr. revert s Hc Hr2. induction l2 as [|a l2 IH]; intros s Hc Hr2.
    + simpl in Hr2. injection Hr2 as <-. exact Hc.
    + unfold run in *. simpl in Hr2. destruct (step_gen Repaired s a) as [s1|] eqn:E; [|discriminate].
      apply (IH s1); [eapply closed_stays; eauto | exact Hr2].
Qed.

(* and such a run exists: letting the relay run on its own for [measure s] steps parks it *)
Lemma shutdown_exists c rc l s :
  run l (init c rc) = Some s -> stopped s = true ->
  exists l2 s2, forallb relay_only l2 = true /\ length l2 <= measure s /\ run l2 s = Some s2
                /\ (finished s2 \/ pc s2 = Crashed).
Proof.
  intros Hr Hs. destruct (settle_run Repaired (measure s) s) as [l2 [Hl [Hr2 Hn]]].
  exists l2, (settle Repaired (measure s) s). repeat split; auto.
  destruct (shutdown_after_stop _ _ _ _ _ _ Hr Hs Hr2) as [_ Hq]. apply Hq.
  apply relay_next_none. apply settle_parks. lia.
Qed.

(* ---------- (iv) Stop is idempotent --------------------------------------------------------------- *)
Lemma stop_enabled s : Inv Repaired s -> pc s <> Crashed ->
  exists s1, step s consumer_stop = Some s1 /\ pc s1 = pc s /\ stopped s1 = true /\ done_closed s1 = true
             /\ result_closed s1 = result_closed s /\ received s1 = received s.
Proof.
  intros [I1 _ _ _ _ _ _] Hp. specialize (I1 eq_refl). unfold step.
  destruct s as [cp rc0 q sc stp dc p rcv n rcl off hd pn]; simpl in *. subst dc.
  destruct p; try (exfalso; apply Hp; reflexivity); destruct stp; eexists; (split; [reflexivity|]); simpl; auto.
Qed.

Lemma stop_idempotent s s1 : Inv Repaired s ->
  step s consumer_stop = Some s1 -> step s1 consumer_stop = Some (bump_stop s1).
Proof.
  intros [I1 _ _ _ _ _ _] H. specialize (I1 eq_refl). unfold step in *.
  destruct s as [cp rc0 q sc stp dc p rcv n rcl off hd pn]; simpl in *. subst dc.
  destruct p; destruct stp; step_cases H; reflexivity.
Qed.

(* ---------- (v) the relay before the repair -------------------------------------------------------- *)
Definition err_event : event := Ev Error (PStatus 0).

Lemma old_crash_reachable :
  exists l s, run_old l (init 0 true) = Some s /\ pc s = Crashed /\ forallb label_good l = true.
Proof.
  exists [source_offer err_event; source_send err_event; relay_convert; relay_handle_crash].
  eexists. split; [vm_compute; reflexivity | split; reflexivity].
Qed.

(* pre-repair: once the relay is at its plain send and the consumer does not receive, nothing but a
   delivery moves it, Stop included *)
Lemma old_parked_step s a s' e :
  pc s = Send e -> a <> consumer_recv -> step_old s a = Some s' ->
  pc s' = Send e /\ result_closed s' = result_closed s.
Proof.
  intros Hp Ha H. unfold step_old in H.
  destruct s as [cp rc0 q sc stp dc p rcv n rcl off hd pn]; simpl in *. subst p.
  destruct a; try (exfalso; apply Ha; reflexivity); step_cases H; simpl; split; reflexivity.
Qed.

Lemma old_parked_run l : forall s s' e,
  pc s = Send e -> ~ In consumer_recv l -> run_old l s = Some s' ->
  pc s' = Send e /\ result_closed s' = result_closed s.
Proof.
  induction l as [|a l IH]; intros s s' e Hp Hn H; unfold run_old in *; simpl in H.
  - injection H as <-. auto.
  - destruct (step_gen PreRepair s a) as [s1|] eqn:E; [|discriminate].
    assert (Ha : a <> consumer_recv) by (intros ->; apply Hn; left; reflexivity).
    destruct (old_parked_step _ _ _ _ Hp Ha E) as [Hp1 Hc1].
    destruct (IH s1 s' e Hp1 (fun Hin => Hn (or_intror Hin)) H) as [Hp2 Hc2]. split; congruence.
Qed.

Definition add_event : event := Ev Added (PAsts 1).

Lemma old_stop_leak :
  exists l s, run_old l (init 0 true) = Some s /\ stopped s = true /\ result_closed s = false /\
    forall l2 s2, ~ In consumer_recv l2 -> run_old l2 s = Some s2 ->
                  pc s2 <> Done /\ result_closed s2 = false /\ relay_alive s2 = true.
Proof.
  exists [source_offer add_event; source_send add_event; relay_convert; consumer_stop].
  eexists. split; [vm_compute; reflexivity|]. split; [reflexivity|]. split; [reflexivity|].
  intros l2 s2 Hn Hr.
  eapply old_parked_run in Hr; [|reflexivity|exact Hn]. destruct Hr as [Hp Hc].
  unfold relay_alive. rewrite Hp. simpl in Hc. repeat split; auto. discriminate.
Qed.

(* current code, one residual way to crash: an Advanced StatefulSet that encoding/json cannot marshal *)
Lemma unmarshalable_crash_reachable :
  exists l s, run l (init 0 true) = Some s /\ pc s = Crashed.
Proof.
  exists [source_offer (Ev Modified (PAstsBad 1)); source_send (Ev Modified (PAstsBad 1)); relay_convert; relay_handle_crash].
  eexists. split; [vm_compute; reflexivity | reflexivity].
Qed.
(* ---------- (ii)+(iii) together: with marshalable payloads the parked relay has finished ----------- *)
Lemma shutdown_after_stop_good c rc l s l2 s2 :
  forallb label_good (l ++ l2) = true ->
  run l (init c rc) = Some s -> stopped s = true -> run l2 s = Some s2 ->
  (forall a, relay_only a = true -> step s2 a = None) -> finished s2.
Proof.
  intros Hg Hr Hs Hr2 Hq.
  destruct (shutdown_after_stop _ _ _ _ _ _ Hr Hs Hr2) as [_ H]. destruct (H Hq) as [Hf|Hc]; [exact Hf|].
  exfalso. assert (Hrun : run (l ++ l2) (init c rc) = Some s2).
  { unfold run in *. rewrite run_app, Hr. exact Hr2. }
  destruct (no_crash _ _ _ _ Hg Hrun) as [Hn _]. exact (Hn Hc).
Qed.

Lemma shutdown_after_close_good c rc l s l2 s2 :
  forallb label_good (l ++ l2) = true ->
  run l (init c rc) = Some s -> src_closed s = true -> run l2 s = Some s2 ->
  (forall a, progress a = true -> step s2 a = None) -> finished s2.
Proof.
  intros Hg Hr Hs Hr2 Hq.
  destruct (shutdown_after_close _ _ _ _ _ _ Hr Hs Hr2) as [_ H]. destruct (H Hq) as [Hf|Hc]; [exact Hf|].
  exfalso. assert (Hrun : run (l ++ l2) (init c rc) = Some s2).
  { unfold run in *. rewrite run_app, Hr. exact Hr2. }
  destruct (no_crash _ _ _ _ Hg Hrun) as [Hn _]. exact (Hn Hc).
Qed.

(* channel discipline in every reachable state *)
Lemma channel_discipline c rc l s : run l (init c rc) = Some s ->
  done_closed s = stopped s
  /\ (stopped s = true -> src_closed s = true)
  /\ (result_closed s = true <-> pc s = Done)
  /\ (src_closed s = true -> length (src_q s) <= cap s).
Proof.
  intros H. pose proof (inv_reach _ _ _ _ _ H) as [I1 I2 I3 I4 I5 I6 I7]. auto.
Qed.

(* a delivery is always possible when the relay is sending: the consumer that keeps receiving gets
   every handed event *)
Lemma delivery_enabled c rc l s e : run l (init c rc) = Some s -> pc s = Send e ->
  exists s', step s consumer_recv = Some s' /\ received s' = received s ++ [e] /\ pc s' = Recv.
Proof.
  intros H Hp. pose proof (inv_reach _ _ _ _ _ H) as [I1 I2 I3 I4 I5 I6 I7].
  unfold step. destruct s as [cp rc0 q sc stp dc p rcv n rcl off hd pn]; simpl in *. subst p.
  unfold step_gen; simpl. destruct rcl.
  - destruct I5 as [I5a _]. specialize (I5a eq_refl). discriminate I5a.
  - eexists. split; [reflexivity|]. split; reflexivity.
Qed.

(* ---------- the sequential driver only visits states of the transition system ------------------- *)
Lemma settle_s_run v s : exists l, run_gen v l s = Some (settle_s v s).
Proof. unfold settle_s. destruct (settle_run v (measure s + 8) s) as [l [_ [H _]]]. exists l. exact H. Qed.

Lemma drive_step_run v s op : exists l, run_gen v l s = Some (snd (drive_step v s op)).
Proof.
  assert (Hnil : exists l, run_gen v l s = Some s) by (exists []; reflexivity).
  assert (Hone : forall a s1, step_gen v s a = Some s1 -> exists l, run_gen v l s = Some (settle_s v s1)).
  { intros a s1 Ha. destruct (settle_s_run v s1) as [l Hl]. exists (a :: l). simpl. rewrite Ha. exact Hl. }
  destruct op; simpl.
  - destruct (src_closed s).
    + destruct (step_gen v s (source_offer e)) eqn:E; simpl; [|exact Hnil]. exists [source_offer e]. simpl. rewrite E. reflexivity.
    + destruct (step_gen v s (source_offer e)) eqn:E; simpl; [|exact Hnil]. eapply Hone; eauto.
  - destruct (step_gen v s source_close) eqn:E; simpl; [|exact Hnil]. eapply Hone; eauto.
  - destruct (pc s); simpl; try exact Hnil.
    destruct (step_gen v s consumer_recv) eqn:E; simpl; [|exact Hnil]. eapply Hone; eauto.
  - destruct (step_gen v s consumer_stop) eqn:E; simpl; [|exact Hnil]. eapply Hone; eauto.
Qed.

Lemma drive_run v ops : forall s, exists l, run_gen v l s = Some (snd (drive v s ops)).
Proof.
  induction ops as [|op ops IH]; intros s; simpl.
  - exists []. reflexivity.
  - destruct (drive_step_run v s op) as [l1 H1].
    destruct (drive_step v s op) as [o s1] eqn:E1. simpl in H1.
    destruct (IH s1) as [l2 H2]. destruct (drive v s1 ops) as [os s2] eqn:E2. simpl in *.
    exists (l1 ++ l2). rewrite run_app, H1. exact H2.
Qed.

(* ---------- the statements of C20.v, assembled ------------------------------------------------------ *)
Lemma clean_shutdown_after_stop c rc l s l2 s2 :
  forallb label_good (l ++ l2) = true ->
  run l (init c rc) = Some s -> stopped s = true -> run l2 s = Some s2 ->
  count_labels progress l2 <= measure s
  /\ ((forall a, relay_only a = true -> step s2 a = None) -> finished s2).
Proof.
  intros Hg Hr Hs Hr2. split.
  - exact (proj1 (shutdown_after_stop c rc l s l2 s2 Hr Hs Hr2)).
  - exact (shutdown_after_stop_good c rc l s l2 s2 Hg Hr Hs Hr2).
Qed.

Lemma clean_shutdown_after_source_end c rc l s l2 s2 :
  forallb label_good (l ++ l2) = true ->
  run l (init c rc) = Some s -> src_closed s = true -> run l2 s = Some s2 ->
  count_labels progress l2 <= measure s
  /\ ((forall a, progress a = true -> step s2 a = None) -> finished s2).
Proof.
  intros Hg Hr Hs Hr2. split.
  - exact (proj1 (shutdown_after_close c rc l s l2 s2 Hr Hs Hr2)).
  - exact (shutdown_after_close_good c rc l s l2 s2 Hg Hr Hs Hr2).
Qed.

Lemma stop_enabled_reach c rc l s :
  run l (init c rc) = Some s -> pc s <> Crashed ->
  exists s1, step s consumer_stop = Some s1 /\ pc s1 = pc s /\ stopped s1 = true /\ done_closed s1 = true
             /\ result_closed s1 = result_closed s /\ received s1 = received s.
Proof. intros H. apply stop_enabled. exact (inv_reach _ _ _ _ _ H). Qed.

Lemma stop_idempotent_reach c rc l s s1 :
  run l (init c rc) = Some s -> step s consumer_stop = Some s1 ->
  step s1 consumer_stop = Some (bump_stop s1).
Proof. intros H. apply stop_idempotent. exact (inv_reach _ _ _ _ _ H). Qed.
