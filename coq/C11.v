(* C11 — Deleted and paused sets are left alone, and a pause is lossless.  Statements only. *)
From ASTS Require Import Base Slots Names World Reconcile ReconcileProofs Env PauseProofs ExampleWorld.

(* (1) paused: for every API state, cache and fault oracle the reconcile issues NO call at all (no
   write and no live read), succeeds, and leaves the API state as it was — whatever the pods look like *)
Theorem C11_paused_reconcile_is_the_identity :
  forall hashes api cache faults s,
    w_set cache = Some s -> get_paused (s_pause s) = true ->
    reconcile hashes api cache faults = (OOk, [], api).
Proof. exact reconcile_paused. Qed.
Print Assumptions C11_paused_reconcile_is_the_identity.

(* (1b) LOSSLESSNESS, over histories of the environment model (Env.v: reconciles with any fault oracle, kubelet events,
   cache refreshes of any kind, edits of the set — the model that props/c02.py compares with the real controller after
   every operation).  Every reconcile that runs while the CACHED set carries the annotation can be struck from the
   history: API state and caches evolve exactly as if it had never been scheduled (PauseProofs.v).  So a run with a
   paused window, whatever precedes and follows it, IS the run in which no reconcile happened during the window; what
   happens after the annotation is removed is C02 applied to the state at that moment. *)
Theorem C11_pause_window_is_lossless :
  forall hashes before window after w,
    reconciles_paused hashes (hrun hashes w before) window ->
    hrun hashes w (before ++ window ++ after)
    = hrun hashes w (before ++ filter (fun op => negb (is_reconcile op)) window ++ after).
Proof. exact pause_window_is_lossless. Qed.
Print Assumptions C11_pause_window_is_lossless.

Theorem C11_paused_reconcile_logs_nothing :
  forall hashes w f, cache_paused w -> snd (hstep hashes w (HReconcile f)) = Some (OOk, []).
Proof. exact paused_reconcile_logs_nothing. Qed.
Print Assumptions C11_paused_reconcile_logs_nothing.

(* non-vacuity: the set is paused, the user scales it in with a delete slot during the pause, the controller is woken
   three times (once with a fault oracle), a pod fails; then the pause is removed.  The three reconciles of the window
   can be struck; while paused the pods are untouched; after the un-pause the controller acts. *)
Definition pw_set := ex_set 3 None "Parallel" 1 0 (ex_status 3 "web-h1" "web-h1").
Definition pw_w0 : hworld :=
  {| hw_api := ex_world pw_set ex_healthy3 [ex_rev "web-h1" 1 1]; hw_cache := ex_world pw_set ex_healthy3 [ex_rev "web-h1" 1 1] |}.
Definition pw_before := [HEdit (EPause (Some "true"%string)); HRefresh].
Definition pw_window := [HReconcile []; HEdit (ESlots (Some "[1]"%string)); HRefreshSet; HReconcile [(FAt 0%nat, FConflict)];
                         HKubelet "web-2" KFail; HRefresh; HReconcile []].
Definition pw_after := [HEdit (EPause None); HRefresh; HReconcile []].
Example C11_ex_window_hypothesis : reconciles_paused ex_hashes (hrun ex_hashes pw_w0 pw_before) pw_window.
Proof.
  cbn [pw_window reconciles_paused is_reconcile].
  repeat split; try (intros H; discriminate H); intros _; eexists; (split; [vm_compute; reflexivity | reflexivity]).
Qed.
Example C11_ex_window :
  hrun ex_hashes pw_w0 (pw_before ++ pw_window ++ pw_after)
  = hrun ex_hashes pw_w0 (pw_before ++ [HEdit (ESlots (Some "[1]"%string)); HRefreshSet; HKubelet "web-2" KFail; HRefresh] ++ pw_after)
  /\ map p_name (w_pods (hw_api (hrun ex_hashes pw_w0 (pw_before ++ pw_window)))) = ["web-0"; "web-1"; "web-2"]%string
  /\ map p_name (w_pods (hw_api (hrun ex_hashes pw_w0 (pw_before ++ pw_window ++ pw_after)))) <> ["web-0"; "web-1"; "web-2"]%string.
Proof.
  split; [exact (pause_window_is_lossless ex_hashes pw_before pw_window pw_after pw_w0 C11_ex_window_hypothesis)|].
  split; [vm_compute; reflexivity | vm_compute; discriminate].
Qed.

(* (2) the flag is exactly the annotation value "true" *)
Theorem C11_pause_flag : forall v, get_paused (Some v) = true <-> v = "true"%string.
Proof. intros v. unfold get_paused. apply String.eqb_eq. Qed.
Print Assumptions C11_pause_flag.

(* (3) deletion timestamp on the reconciled set: no pod or claim is created, deleted, updated or patched and
   no ControllerRevision is adopted — for every API state, cache and fault oracle.  (Still allowed: status
   update, revision create / renumber / trim: its own records.) *)
Theorem C11_deleting_set_is_left_alone :
  forall hashes api cache faults o log w' s,
    reconcile hashes api cache faults = (o, log, w') -> w_set cache = Some s -> s_deleting s = true ->
    forall c e, In (c, e) log -> touches_pods_or_adopts c = false.
Proof. exact reconcile_deleting_leaves_alone. Qed.
Print Assumptions C11_deleting_set_is_left_alone.

(* non-vacuity: a paused set in the middle of a scale-in does nothing; the same set unpaused deletes *)
Definition ex_paused (s : sset) : sset :=
  {| s_name := s_name s; s_uid := s_uid s; s_gen := s_gen s; s_deleting := s_deleting s; s_slots := s_slots s;
     s_pause := Some "true"%string; s_replicas := s_replicas s; s_selector := s_selector s; s_policy := s_policy s;
     s_strategy := s_strategy s; s_rolling := s_rolling s; s_tmpl := s_tmpl s; s_claims := s_claims s;
     s_service := s_service s; s_rhl := s_rhl s; s_status := s_status s; s_rv := s_rv s |}.
Example C11_ex :
  ex_log (ex_paused (ex_set 3 (Some "[1]"%string) "Parallel" 1 0 (ex_status 3 "web-h1" "web-h1"))) ex_healthy3 [ex_rev "web-h1" 1 1] = []
  /\ ex_log (ex_set 3 (Some "[1]"%string) "Parallel" 1 0 (ex_status 3 "web-h1" "web-h1")) ex_healthy3 [ex_rev "web-h1" 1 1] <> [].
Proof. split; vm_compute; [reflexivity | discriminate]. Qed.
