(* C11 — Deleted and paused sets are left alone, and a pause is lossless.  Statements only. *)
From ASTS Require Import Base Slots Names World Reconcile ReconcileProofs ExampleWorld.

(* (1) paused: for every API state, cache and fault oracle the reconcile issues NO call at all (no
   write and no live read), succeeds, and leaves the API state as it was — whatever the pods look like *)
Theorem C11_paused_reconcile_is_the_identity :
  forall hashes api cache faults s,
    w_set cache = Some s -> get_paused (s_pause s) = true ->
    reconcile hashes api cache faults = (OOk, [], api).
Proof. exact reconcile_paused. Qed.
Print Assumptions C11_paused_reconcile_is_the_identity.

(* losslessness: since a paused reconcile is the identity on the world and keeps no state, a run with a
   paused window IS the run in which no reconcile was scheduled during that window; what happens after the
   flag is lowered is C02 applied to the state at that moment. *)

(* (2) the flag is exactly the annotation value "true" *)
Theorem C11_pause_flag : forall v, get_paused (Some v) = true <-> v = "true"%string.
Proof. intros v. unfold get_paused. apply String.eqb_eq. Qed.
Print Assumptions C11_pause_flag.

(* (3) deletion timestamp on the reconciled set: no pod or claim is created, deleted, updated or patched and
   no ControllerRevision is adopted — for every API state, cache and fault oracle.  (Still allowed: status
   update, revision create / renumber / trim: its own records.) *)
Theorem C11_deleting_set_is_left_alone :
  forall hashes api cache faults o log w' s,
    reconcile hashes api cache faults = (o, log, w') -> w_set cache = Some s -> s_deleting s = true ->
    forall c e, In (c, e) log -> touches_pods_or_adopts c = false.
Proof. exact reconcile_deleting_leaves_alone. Qed.
Print Assumptions C11_deleting_set_is_left_alone.

(* non-vacuity: a paused set in the middle of a scale-in does nothing; the same set unpaused deletes *)
Definition ex_paused (s : sset) : sset :=
  {| s_name := s_name s; s_uid := s_uid s; s_gen := s_gen s; s_deleting := s_deleting s; s_slots := s_slots s;
     s_pause := Some "true"%string; s_replicas := s_replicas s; s_selector := s_selector s; s_policy := s_policy s;
     s_strategy := s_strategy s; s_rolling := s_rolling s; s_tmpl := s_tmpl s; s_claims := s_claims s;
     s_service := s_service s; s_rhl := s_rhl s; s_status := s_status s; s_rv := s_rv s |}.
Example C11_ex :
  ex_log (ex_paused (ex_set 3 (Some "[1]"%string) "Parallel" 1 0 (ex_status 3 "web-h1" "web-h1"))) ex_healthy3 [ex_rev "web-h1" 1 1] = []
  /\ ex_log (ex_set 3 (Some "[1]"%string) "Parallel" 1 0 (ex_status 3 "web-h1" "web-h1")) ex_healthy3 [ex_rev "web-h1" 1 1] <> [].
Proof. split; vm_compute; [reflexivity | discriminate]. Qed.
