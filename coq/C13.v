(* C13 — History is trimmed only beyond the limit and never loses a live revision.  Statements only. *)
From ASTS Require Import Base Slots Names World Reconcile MonadProofs PlanProofs ReconcileProofs RevisionProofs ExampleWorld.

(* to_delete limit claimed revs cur upd (RevisionProofs.v): what truncateHistory selects.
   revs_ok s revs: every listed revision carries the selector labels or this set's upgrade marker AND is
   an orphan or controlled by this set's UID (revisions of other owners are not listed at all), and names
   are distinct (a revision carrying both the labels and the marker is listed once). *)

(* (1) every selected revision is listed (so: belongs to this set), is neither the current nor the update
   revision nor named by the revision label of any claimed pod; something is selected only if MORE than
   `limit` unused revisions exist; the selection is a prefix of the sorted unused history (oldest first);
   the rest, at most `limit` long, stays; each name is selected once *)
Theorem C13_selection :
  forall limit pods revs cur upd, 0 <= limit ->
    let d := to_delete limit pods revs cur upd in
    let h := history_of pods revs cur upd in
    (forall r, In r d -> In r revs /\ r_name r <> r_name cur /\ r_name r <> r_name upd
                         /\ forall p, In p pods -> p_rev p <> r_name r)
    /\ (d <> [] -> limit < Z.of_nat (length h))
    /\ (exists rest, h = d ++ rest /\ Z.of_nat (length rest) <= limit)
    /\ (NoDup (map r_name revs) -> NoDup (map r_name d)).
Proof. exact to_delete_spec. Qed.
Print Assumptions C13_selection.

(* (2) for every API state, cache and fault oracle: the ControllerRevision deletes of the log of a reconcile
   are, in order, a prefix (all of it when no call fails) of that selection, computed on the claimed pods and
   on a listing that satisfies revs_ok *)
Theorem C13_log_deletes_are_the_selection :
  forall hashes api cache faults o log w',
    reconcile hashes api cache faults = (o, log, w') ->
    filter (fun e => match fst e with CDeleteRev _ => true | _ => false end) log = []
    \/ exists s claimed revs cur upd limit k,
         w_set cache = Some s /\ claimed_ok s cache claimed /\ revs_ok s revs /\ s_rhl s = Some limit
         /\ map fst (filter (fun e => match fst e with CDeleteRev _ => true | _ => false end) log)
            = map (fun q => CDeleteRev (r_name q)) (firstn k (to_delete limit claimed revs cur upd)).
Proof. exact reconcile_rev_deletes. Qed.
Print Assumptions C13_log_deletes_are_the_selection.

(* (3) what a listing contains *)
Theorem C13_listing_is_own_or_orphan_and_duplicate_free :
  forall (L : call -> Prop) s, (forall m, L (CListRevs m)) -> mspec L (revs_ok s) (list_revisions s).
Proof. exact mspec_list_revisions. Qed.
Print Assumptions C13_listing_is_own_or_orphan_and_duplicate_free.

(* non-vacuity: four revisions, limit 1, pods on the newest: the two oldest unused go *)
Example C13_ex :
  let s := ex_set 3 None "OrderedReady" 1 0 (ex_status 3 "web-h1" "web-h1") in
  let s1 := {| s_name := s_name s; s_uid := s_uid s; s_gen := 1; s_deleting := false; s_slots := None; s_pause := None;
               s_replicas := Some 3; s_selector := SelOk; s_policy := s_policy s; s_strategy := s_strategy s;
               s_rolling := s_rolling s; s_tmpl := 1; s_claims := ["data"%string]; s_service := "svc"; s_rhl := Some 1;
               s_status := s_status s; s_rv := 5 |} in
  filter (fun sh => String.prefix "delete controllerrevisions" sh)
         (map (fun e => shape_of (fst e))
              (ex_log s1 ex_healthy3 [ex_rev "web-a" 1 5; ex_rev "web-b" 2 6; ex_rev "web-c" 3 7; ex_rev "web-h1" 4 1]))
  = ["delete controllerrevisions web-a"; "delete controllerrevisions web-b"]%string.
Proof. vm_compute. reflexivity. Qed.
