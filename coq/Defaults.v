(* Defaults.v — model of the client-side defaulter the hijack client runs before Create/Update:
   asv1.SetObjectDefaults_StatefulSet (client/apis/apps/v1/zz_generated.defaults.go), i.e.
   SetDefaults_StatefulSet (defaults.go) plus the pod-template / volume-claim leaves of
   third_party/k8s/defaults.go, as a function on the JSON tree of the object
   (json.Marshal of the typed object before  |->  json.Marshal after).
   Built from a small set of combinators whose idempotence is proved once (DefaultsProofs.v).
   Library functions of apimachinery / docker-reference are parameters (record `libs`).
   Definitions only. *)
From ASTS Require Import Base Slots Json.
Open Scope string_scope.
Open Scope Z_scope.

Definition upd := json -> json.

(* ---------- value-level combinators -------------------------------------------------------- *)
(* pointer field:  if x == nil { x = &c } *)
Definition set_if_null (c : json) : upd := fun v => match v with JNull => c | _ => v end.

(* value field:  if x == "" / 0 / false { x = c }   (an omitted key reads as null) *)
Definition is_zero (v : json) : bool :=
  match v with
  | JNull => true
  | JStr EmptyString => true
  | JNum 0 => true
  | JBool false => true
  | _ => false
  end.
Definition set_if_zero (c : json) : upd := fun v => if is_zero v && negb (is_zero c) then c else v.

(* if x != nil { g(x) } *)
Definition opt (g : upd) : upd := fun v => match v with JNull => JNull | _ => g v end.
(* for i := range xs { g(&xs[i]) } *)
Definition each (g : upd) : upd := fun v => match v with JArr l => JArr (map g l) | _ => v end.
(* for k, v := range m { m[k] = g(v) } *)
Definition map_values (g : upd) : upd :=
  fun v => match v with JObj l => JObj (map (fun kv => (fst kv, g (snd kv))) l) | _ => v end.
(* a struct-valued field: always there in the typed object; an omitted key reads as {} *)
Definition at_obj (g : upd) : upd := fun v => g (match v with JNull => JObj [] | _ => v end).

(* ---------- key-level --------------------------------------------------------------------------
   upd_key k f: apply f to the value under k (null when absent); a null result for an absent key
   leaves the object as it is *)
Definition upd_key (k : string) (f : upd) (l : jobj) : jobj :=
  let v := f (getv k l) in
  match jlookup k l, v with
  | None, JNull => l
  | _, _ => jset k v l
  end.
Fixpoint upd_keys (us : list (string * upd)) (l : jobj) : jobj :=
  match us with
  | [] => l
  | (k, f) :: t => upd_keys t (upd_key k f l)
  end.
(* independent updates of distinct keys of one object *)
Definition obj (us : list (string * upd)) : upd :=
  fun j => match j with JObj l => JObj (upd_keys us l) | _ => j end.
(* the same, where the updates may read a sibling key that none of them writes *)
Definition obj_with {T} (rd : jobj -> T) (us : T -> list (string * upd)) : upd :=
  fun j => match j with JObj l => JObj (upd_keys (us (rd l)) l) | _ => j end.

(* ---------- library functions the Go leaves call into ------------------------------------------- *)
Record libs := {
  latest : string -> bool;     (* ParseImageName(image) yields tag "latest" *)
  roundq : json -> json        (* Quantity.RoundUp(milli) on the JSON form of a quantity *)
}.

(* ---------- defaults.go: SetDefaults_StatefulSet -------------------------------------------------- *)
(* the updateStrategy block, exactly as written: an empty type also REPLACES rollingUpdate by &{} *)
Definition us_default (v : json) : json :=
  match v with
  | JObj l =>
      let l1 := if is_zero (getv "type" l)
                then jset "rollingUpdate" (JObj []) (jset "type" (JStr "RollingUpdate") l)
                else l in
      match getv "type" l1, getv "rollingUpdate" l1 with
      | JStr t, JObj ru =>
          if String.eqb t "RollingUpdate" && is_null (getv "partition" ru)
          then JObj (jset "rollingUpdate" (JObj (jset "partition" (JNum 0) ru)) l1)
          else JObj l1
      | _, _ => JObj l1
      end
  | _ => v
  end.

(* the same block with the nil test of upstream Kubernetes (>= 1.24): rollingUpdate is only
   created when it is absent (proposed repair, build/tmp/fix-C19.diff) *)
Definition us_default_keep (v : json) : json :=
  match v with
  | JObj l =>
      let l1 := if is_zero (getv "type" l)
                then (let l0 := jset "type" (JStr "RollingUpdate") l in
                      if is_null (getv "rollingUpdate" l0) then jset "rollingUpdate" (JObj []) l0 else l0)
                else l in
      match getv "type" l1, getv "rollingUpdate" l1 with
      | JStr t, JObj ru =>
          if String.eqb t "RollingUpdate" && is_null (getv "partition" ru)
          then JObj (jset "rollingUpdate" (JObj (jset "partition" (JNum 0) ru)) l1)
          else JObj l1
      | _, _ => JObj l1
      end
  | _ => v
  end.

(* ---------- third_party/k8s/defaults.go leaves ---------------------------------------------------- *)
Definition str_of (v : json) : string := match v with JStr s => s | _ => "" end.

Definition field_ref_default : upd := obj [("apiVersion", set_if_zero (JStr "v1"))].
Definition http_get_default : upd :=
  obj [("path", set_if_zero (JStr "/")); ("scheme", set_if_zero (JStr "HTTP"))].
Definition probe_default : upd :=
  obj [("timeoutSeconds", set_if_zero (JNum 1)); ("periodSeconds", set_if_zero (JNum 10));
       ("successThreshold", set_if_zero (JNum 1)); ("failureThreshold", set_if_zero (JNum 3));
       ("httpGet", opt http_get_default)].
Definition handler_default : upd := obj [("httpGet", opt http_get_default)].
Definition lifecycle_default : upd :=
  obj [("postStart", opt handler_default); ("preStop", opt handler_default)].
Definition resource_list (L : libs) : upd := map_values (roundq L).
Definition resources_default (L : libs) : upd :=
  obj [("limits", resource_list L); ("requests", resource_list L)].
Definition env_default : upd := obj [("valueFrom", opt (obj [("fieldRef", opt field_ref_default)]))].

(* protocol default of the generated code; with host networking SetDefaults_PodSpec first copies
   containerPort into an unset hostPort *)
Definition port_default (hostnet : bool) : upd :=
  obj_with (getv "containerPort")
    (fun cp => [("protocol", set_if_zero (JStr "TCP"));
                ("hostPort", if hostnet then set_if_zero cp else (fun v => v))]).

(* what the generated code does for every kind of container *)
Definition container_common (L : libs) (hostnet : bool) : list (string * upd) :=
  [("ports", each (port_default hostnet)); ("env", each env_default);
   ("resources", at_obj (resources_default L));
   ("livenessProbe", opt probe_default); ("readinessProbe", opt probe_default);
   ("startupProbe", opt probe_default); ("lifecycle", opt lifecycle_default)].

(* SetDefaults_Container (containers and init containers only) *)
Definition container_default (L : libs) (hostnet : bool) : upd :=
  obj_with (fun l => str_of (getv "image" l))
    (fun image =>
       ("imagePullPolicy", set_if_zero (JStr (if latest L image then "Always" else "IfNotPresent")))
       :: ("terminationMessagePath", set_if_zero (JStr "/dev/termination-log"))
       :: ("terminationMessagePolicy", set_if_zero (JStr "File"))
       :: container_common L hostnet).
Definition ephemeral_default (L : libs) : upd := obj (container_common L false).

(* SetDefaults_Volume: a volume without any source becomes an emptyDir *)
Definition volume_source_default : upd :=
  fun v => match v with
           | JObj l => if forallb (fun kv => String.eqb (fst kv) "name" || is_null (snd kv)) l
                       then JObj (jset "emptyDir" (JObj []) l) else v
           | _ => v
           end.
Definition downward_items : upd := each (obj [("fieldRef", opt field_ref_default)]).
Definition volume_leaf_updates : list (string * upd) :=
  [("hostPath", opt (obj [("type", set_if_null (JStr ""))]));
       ("secret", opt (obj [("defaultMode", set_if_null (JNum 420))]));
       ("iscsi", opt (obj [("iscsiInterface", set_if_zero (JStr "default"))]));
       ("rbd", opt (obj [("pool", set_if_zero (JStr "rbd")); ("user", set_if_zero (JStr "admin"));
                         ("keyring", set_if_zero (JStr "/etc/ceph/keyring"))]));
       ("downwardAPI", opt (obj [("defaultMode", set_if_null (JNum 420)); ("items", downward_items)]));
       ("configMap", opt (obj [("defaultMode", set_if_null (JNum 420))]));
       ("azureDisk", opt (obj [("cachingMode", set_if_null (JStr "ReadWrite")); ("kind", set_if_null (JStr "Shared"));
                               ("fsType", set_if_null (JStr "ext4")); ("readOnly", set_if_null (JBool false))]));
       ("projected", opt (obj [("defaultMode", set_if_null (JNum 420));
                               ("sources", each (obj [("downwardAPI", opt (obj [("items", downward_items)]));
                                                      ("serviceAccountToken", opt (obj [("expirationSeconds", set_if_null (JNum 3600))]))]))]));
       ("scaleIO", opt (obj [("storageMode", set_if_zero (JStr "ThinProvisioned")); ("fsType", set_if_zero (JStr "xfs"))]))].
Definition volume_leaves : upd := obj volume_leaf_updates.
Definition volume_default : upd := fun v => volume_leaves (volume_source_default v).

(* SetDefaults_PodSpec and the loops of the generated code over the pod spec *)
Definition is_true (v : json) : bool := match v with JBool true => true | _ => false end.
Definition podspec_default (L : libs) : upd :=
  obj_with (fun l => is_true (getv "hostNetwork" l))
    (fun hostnet =>
       [("dnsPolicy", set_if_zero (JStr "ClusterFirst")); ("restartPolicy", set_if_zero (JStr "Always"));
        ("securityContext", set_if_null (JObj [])); ("terminationGracePeriodSeconds", set_if_null (JNum 30));
        ("schedulerName", set_if_zero (JStr "default-scheduler"));
        ("volumes", each volume_default);
        ("initContainers", each (container_default L hostnet));
        ("containers", each (container_default L hostnet));
        ("ephemeralContainers", each (ephemeral_default L));
        ("overhead", resource_list L)]).

(* SetDefaults_PersistentVolumeClaim and the resource lists of a claim template *)
Definition pvc_default (L : libs) : upd :=
  obj [("spec", at_obj (obj [("resources", at_obj (resources_default L))]));
       ("status", at_obj (obj [("phase", set_if_zero (JStr "Pending")); ("capacity", resource_list L)]))].

(* ---------- SetObjectDefaults_StatefulSet ------------------------------------------------------------ *)
Definition spec_default_with (usd : upd) (L : libs) : upd :=
  obj [("podManagementPolicy", set_if_zero (JStr "OrderedReady"));
       ("updateStrategy", at_obj usd);
       ("replicas", set_if_null (JNum 1));
       ("revisionHistoryLimit", set_if_null (JNum 10));
       ("template", at_obj (obj [("spec", at_obj (podspec_default L))]));
       ("volumeClaimTemplates", each (pvc_default L))].
Definition sts_default_with (usd : upd) (L : libs) : upd := obj [("spec", at_obj (spec_default_with usd L))].

Definition sts_default : libs -> upd := sts_default_with us_default.            (* the code as it is *)
Definition sts_default_keep : libs -> upd := sts_default_with us_default_keep.  (* with the nil test *)

(* the set-level part alone (defaults.go), for the exact correspondence on those fields *)
Definition set_level_default (usd : upd) : upd :=
  obj [("spec", at_obj (obj [("podManagementPolicy", set_if_zero (JStr "OrderedReady"));
                             ("updateStrategy", at_obj usd);
                             ("replicas", set_if_null (JNum 1));
                             ("revisionHistoryLimit", set_if_null (JNum 10))]))].

(* ---------- concrete models of the two library functions (for the correspondence) ------------------ *)
(* tag of a docker reference: text after the last ':' of the last path component, unless a digest
   follows; no tag and no digest means "latest"; a reference the parser rejects has no tag *)
Fixpoint str_rev_acc (s acc : string) : string :=
  match s with EmptyString => acc | String c t => str_rev_acc t (String c acc) end.
Definition str_rev (s : string) : string := str_rev_acc s EmptyString.
(* split at the first occurrence of c: (before, Some after) *)
Fixpoint split_at (c : ascii) (s : string) : string * option string :=
  match s with
  | EmptyString => (EmptyString, None)
  | String d t => if Ascii.eqb c d then (EmptyString, Some t)
                  else let '(a, b) := split_at c t in (String d a, b)
  end.
Fixpoint has_char (c : ascii) (s : string) : bool :=
  match s with EmptyString => false | String d t => Ascii.eqb c d || has_char c t end.
Fixpoint all_chars (p : ascii -> bool) (s : string) : bool :=
  match s with EmptyString => true | String d t => p d && all_chars p t end.
Definition is_upper (c : ascii) : bool := let n := nat_of_ascii c in Nat.leb 65 n && Nat.leb n 90.
Definition latest_model (image : string) : bool :=
  let '(name_tag, digest) := split_at "@"%char image in
  (* last path component, reversed, to find the last ':' after the last '/' *)
  let r := str_rev name_tag in
  let '(last_rev, _) := split_at "/"%char r in
  let '(tag_rev, before) := split_at ":"%char last_rev in
  let has_tag := match before with Some _ => true | None => false end in
  let repo := if has_tag
              then str_rev (substring (S (String.length tag_rev)) (String.length r) r)
              else name_tag in
  let valid := negb (String.eqb repo "") && all_chars (fun c => negb (is_upper c)) repo in
  if negb valid then false
  else if has_tag then String.eqb (str_rev tag_rev) "latest"
  else match digest with Some _ => false | None => true end.

(* Quantity.RoundUp(milli) on canonical quantity strings: only the sub-milli forms change:
   <d>u, <d>n and <d>e-<k> with k > 3 *)
Definition ceil_div (a b : Z) : Z := (a + b - 1) / b.
Definition print_milli (c : Z) : string :=
  if c mod 1000 =? 0 then dec (c / 1000) else dec c ++ "m".
Definition round_str (s : string) : string :=
  let '(d, n, rest) := read_digits s 0 0%nat in
  if Nat.eqb n 0 then s
  else if String.eqb rest "u" then print_milli (ceil_div d 1000)
  else if String.eqb rest "n" then print_milli (ceil_div d 1000000)
  else match rest with
       | String "e"%char (String "-"%char ex) =>
           let '(k, m, rest2) := read_digits ex 0 0%nat in
           if negb (Nat.eqb m 0) && String.eqb rest2 "" && (3 <? k)
           then dec (ceil_div d (10 ^ (k - 3))) ++ "e-3"
           else s
       | _ => s
       end.
Definition roundq_model (v : json) : json := match v with JStr s => JStr (round_str s) | _ => v end.
Definition libs_model : libs := {| latest := latest_model; roundq := roundq_model |}.

(* ---------- correspondence record (harness command `defaults`) ------------------------------------ *)
Record dflt_case := { dc_keep : bool;      (* which variant of the updateStrategy block the tree has *)
                      dc_set_only : bool;  (* compare the set-level fields only *)
                      dc_in : json; dc_out : json }.
Definition spec_proj (j : json) : json :=
  match get_field "spec" j with
  | JObj l => JObj (filter (fun kv => existsb (String.eqb (fst kv))
                                        ["podManagementPolicy"; "updateStrategy"; "replicas"; "revisionHistoryLimit"]) l)
  | v => v
  end.
Definition dflt_check (c : dflt_case) : bool :=
  let usd := if dc_keep c then us_default_keep else us_default in
  if dc_set_only c
  then json_equivb (spec_proj (set_level_default usd (dc_in c))) (spec_proj (dc_out c))
  else json_equivb (sts_default_with usd libs_model (dc_in c)) (dc_out c).
