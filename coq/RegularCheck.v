(* RegularCheck.v — the hypotheses of C02_full_model_round / C02_full_model_converges as a decidable check, evaluated by
   props/c02.py on the worlds the real controller was in at the round boundaries of its histories.  Definitions only. *)
From ASTS Require Import Base Slots Names World Reconcile ReconcileCheck PlanProofs ConvergeProofs Env TerminationProofs
                         QuietProofs RoundExec RoundCheck.

Definition regularb (hashes : list ((Z * Z) * string)) (w : world) : bool :=
  match w_set w with
  | None => false
  | Some s =>
      match s_replicas s with
      | None => false
      | Some r =>
          let '(cnt, slots) := extend r (get_slots (s_slots s)) in
          let pods := w_pods w in
          (0 <=? cnt) && (cnt <=? max_i32 + 1) && negb (s_deleting s) && nodupb (s_claims s)
          && match s_rolling s with Some _ => true | None => false end
          && negb (get_paused (s_pause s)) && match s_selector s with SelOk => true | SelInvalid => false end
          && nothing_to_adopt w s
          && forallb (claim_quiet s) pods && Nat.eqb (length (claim_value s pods)) (length pods)
          && match gsr_value hashes s (sort_revs (lrevs w s)) with Some _ => true | None => false end
          && wfb s cnt slots pods && nodupb (map p_name pods)
          && nodupb (flat_map (fun j => map (fun t => claim_name t (s_name s) j) (s_claims s)) (ordinals_of cnt slots))
      end
  end.
Definition regular_case (c : round_case) : bool := regularb (fst c) (snd c).
(* a regular world on which the two rounds differ would contradict C02_full_model_round *)
Definition regular_consistent (c : round_case) : bool := negb (regularb (fst c) (snd c)) || negb (round_check (fst c) (snd c) =? 2).
