(* Slots.v — executable model of client/apis/apps/v1/helper/helper.go:
   GetDeleteSlots (annotation -> set), GetMaxReplicaCountAndDeleteSlots (range
   extension loop), GetPodOrdinals*, GetMaxPodOrdinal, GetMinPodOrdinal,
   GetPausedReconcile.  Definitions only. *)
From ASTS Require Import Base.

(* ---------- json.Unmarshal(value, *[]int32) ----------------------------------------
   Result Some l  : Unmarshal returns nil error and the slice is l (null -> []);
          None    : any syntax / type / range error (GetDeleteSlots then yields {}). *)
Definition is_ws (c : ascii) : bool :=
  match nat_of_ascii c with 32%nat | 9%nat | 10%nat | 13%nat => true | _ => false end.
Definition is_digit (c : ascii) : bool :=
  let n := nat_of_ascii c in (Nat.leb 48 n) && (Nat.leb n 57).
Definition digit_val (c : ascii) : Z := Z.of_nat (nat_of_ascii c - 48).

Fixpoint skip_ws (s : string) : string :=
  match s with
  | String c t => if is_ws c then skip_ws t else s
  | EmptyString => s
  end.

(* reads a maximal run of digits: returns value, number of digits, rest *)
Fixpoint read_digits (s : string) (acc : Z) (n : nat) : Z * nat * string :=
  match s with
  | String c t => if is_digit c then read_digits t (acc * 10 + digit_val c) (S n) else (acc, n, s)
  | EmptyString => (acc, n, s)
  end.

(* an int32 element: optional minus, then 0 or a non-zero digit followed by digits; not
   followed by a dot or an exponent (a float literal is a type error for int32) and no
   digit after a leading 0 (syntax error). *)
Definition starts_with (c : ascii) (s : string) : bool :=
  match s with String d _ => Ascii.eqb c d | EmptyString => false end.
Definition read_int (s : string) : option (Z * string) :=
  let '(neg, s1) := match s with
                    | String "-"%char t => (true, t)
                    | _ => (false, s) end in
  match s1 with
  | String c _ =>
      if is_digit c then
        let '(v, n, rest) := read_digits s1 0 0%nat in
        if (Ascii.eqb c "0"%char) && negb (Nat.eqb n 1) then None        (* leading zero *)
        else if starts_with "."%char rest || starts_with "e"%char rest || starts_with "E"%char rest
        then None                                                          (* float *)
        else let z := if neg then - v else v in
             if in_i32 z then Some (z, rest) else None
      else None
  | EmptyString => None
  end.

Definition read_null (s : string) : option string :=
  match s with
  | String "n"%char (String "u"%char (String "l"%char (String "l"%char rest))) => Some rest
  | _ => None
  end.

Definition read_elem (s : string) : option (Z * string) :=
  match read_null s with
  | Some rest => Some (0, rest)            (* null element leaves the zero value *)
  | None => read_int s
  end.

(* after '[' and optional ws: elements separated by ',' up to ']' *)
Fixpoint read_elems (fuel : nat) (s : string) (acc : list Z) : option (list Z * string) :=
  match fuel with
  | O => None
  | S f =>
    match read_elem (skip_ws s) with
    | None => None
    | Some (z, rest) =>
        match skip_ws rest with
        | String ","%char t => read_elems f t (z :: acc)
        | String "]"%char t => Some (rev (z :: acc), t)
        | _ => None
        end
    end
  end.

Definition parse_slots (s : string) : option (list Z) :=
  let s0 := skip_ws s in
  match read_null s0 with
  | Some rest => match skip_ws rest with EmptyString => Some [] | _ => None end
  | None =>
    match s0 with
    | String "["%char t =>
        match skip_ws t with
        | String "]"%char rest => match skip_ws rest with EmptyString => Some [] | _ => None end
        | _ => match read_elems (S (String.length t)) t [] with
               | Some (l, rest) => match skip_ws rest with EmptyString => Some l | _ => None end
               | None => None
               end
        end
    | _ => None
    end
  end.

(* ---------- sets.Int32: represented by its List(): ascending, duplicate-free --------- *)
Fixpoint insert_sorted (x : Z) (l : list Z) : list Z :=
  match l with
  | [] => [x]
  | y :: t => if x <? y then x :: l else if x =? y then l else y :: insert_sorted x t
  end.
Definition norm (l : list Z) : list Z := fold_right insert_sorted [] l.

(* GetDeleteSlots: annotation value (None = key or map absent) -> slot set *)
Definition get_slots (ann : option string) : list Z :=
  match ann with
  | None => []
  | Some v => match parse_slots v with Some l => norm l | None => [] end
  end.

(* ---------- GetMaxReplicaCountAndDeleteSlots ------------------------------------------
   loop over the ascending list; replicaCount++ is int32 arithmetic.  Negative slots are
   dropped (they are not ordinals).                                                      *)
Fixpoint extend (cnt : Z) (l : list Z) : Z * list Z :=
  match l with
  | [] => (cnt, [])
  | s :: t => if (0 <=? s) && (s <? cnt)
              then let '(c, k) := extend (wrap32 (cnt + 1)) t in (c, s :: k)
              else extend cnt t
  end.

(* the loop as it was before the repair (no test for negative slots); kept for the
   refutation witness in C01.v *)
Fixpoint extend_prefix (cnt : Z) (l : list Z) : Z * list Z :=
  match l with
  | [] => (cnt, [])
  | s :: t => if s <? cnt
              then let '(c, k) := extend_prefix (wrap32 (cnt + 1)) t in (c, s :: k)
              else extend_prefix cnt t
  end.

(* GetPodOrdinalsFromReplicasAndDeleteSlots: ascending list *)
Definition ordinals_of (c : Z) (k : list Z) : list Z :=
  filter (fun i => negb (memb i k)) (zrange c).
Definition pod_ordinals (r : Z) (D : list Z) : list Z :=
  let '(c, k) := extend r D in ordinals_of c k.
Definition pod_ordinals_prefix (r : Z) (D : list Z) : list Z :=
  let '(c, k) := extend_prefix r D in ordinals_of c k.

Definition max_ord (r : Z) (D : list Z) : Z := fold_left Z.max (pod_ordinals r D) (-1).
Definition min_ord (r : Z) (D : list Z) : Z := fold_left Z.min (pod_ordinals r D) max_i32.

(* GetPausedReconcile *)
Definition get_paused (ann : option string) : bool :=
  match ann with Some v => String.eqb v "true" | None => false end.

(* ---------- correspondence record ----------------------------------------------------- *)
Record helper_obs := { ho_slots : list Z; ho_count : Z; ho_eff : list Z; ho_ords : list Z;
                       ho_max : Z; ho_min : Z; ho_paused : bool }.
Definition helper_model (r : Z) (slots pause : option string) : helper_obs :=
  let D := get_slots slots in
  let '(c, k) := extend r D in
  {| ho_slots := D; ho_count := c; ho_eff := k; ho_ords := pod_ordinals r D;
     ho_max := max_ord r D; ho_min := min_ord r D; ho_paused := get_paused pause |}.

Definition list_eqb (a b : list Z) : bool :=
  (Nat.eqb (List.length a) (List.length b)) && forallb (fun p => fst p =? snd p) (combine a b).
Definition helper_obs_eqb (a b : helper_obs) : bool :=
  list_eqb (ho_slots a) (ho_slots b) && (ho_count a =? ho_count b) && list_eqb (ho_eff a) (ho_eff b)
  && list_eqb (ho_ords a) (ho_ords b) && (ho_max a =? ho_max b) && (ho_min a =? ho_min b)
  && Bool.eqb (ho_paused a) (ho_paused b).

Record helper_case := { hc_r : Z; hc_slots : option string; hc_pause : option string; hc_obs : helper_obs }.
Definition helper_check (c : helper_case) : bool :=
  helper_obs_eqb (helper_model (hc_r c) (hc_slots c) (hc_pause c)) (hc_obs c).
