(* TerminationEnv.v — the termination theorem of TerminationProofs.v for ANY environment: a step is any
   duplicate-free pod list with the same members as the round's (the order in which an API list returns the
   pods, or in which the executor and the kubelet touched them, is irrelevant). *)
From ASTS Require Import Base Slots SlotsProofs Names World Reconcile PlanProofs ConvergeProofs TerminationProofs.
From Coq Require Import Permutation.

Definition same_members (a b : list pod) : Prop := forall q, In q a <-> In q b.
Lemma same_members_refl a : same_members a a. Proof. intros q. tauto. Qed.
Lemma same_members_sym a b : same_members a b -> same_members b a. Proof. intros H q. specialize (H q). tauto. Qed.
Lemma same_members_trans a b c : same_members a b -> same_members b c -> same_members a c.
Proof. intros H1 H2 q. specialize (H1 q). specialize (H2 q). tauto. Qed.

Lemma sumz_ext f g l : (forall i, In i l -> f i = g i) -> sumz f l = sumz g l.
Proof.
  induction l as [|x t IH]; intros H; cbn [sumz]; [reflexivity|].
  rewrite (H x (or_introl eq_refl)), IH by (intros i Hi; apply H; right; exact Hi). reflexivity.
Qed.

Section Env.
Variable s : sset.
Variable upd : rinfo.
Variable cnt : Z.
Variable slots : list Z.
Hypothesis Hcnt : 0 <= cnt <= max_i32 + 1.
Hypothesis Hdel : s_deleting s = false.
Hypothesis Hclaims : NoDup (s_claims s).
Hypothesis Huc : forall i, use_current s i = true -> i < umin_of s.

Lemma wf_members a b : wf s cnt slots a -> same_members b a -> wf s cnt slots b.
Proof.
  intros W H. constructor.
  - intros p q Hp Hq. apply (wf_dist _ _ _ _ W); apply H; assumption.
  - intros p Hp. apply (wf_settled _ _ _ _ W). apply H. exact Hp.
  - intros p Hp. apply (wf_nodead _ _ _ _ W). apply H. exact Hp.
  - intros p Hp. apply (wf_ord _ _ _ _ W). apply H. exact Hp.
  - intros p Hp. apply (wf_name _ _ _ _ W). apply H. exact Hp.
Qed.

Lemma at_ord_members a b i : wf s cnt slots a -> same_members b a -> 0 <= i -> at_ord i b = at_ord i a.
Proof.
  intros W H Hi. pose proof (wf_members a b W H) as Wb.
  destruct (at_ord i a) as [p|] eqn:E.
  - destruct (at_ord_Some _ _ _ E) as [Hp Ho]. apply at_ord_unique; [apply (wf_dist _ _ _ _ Wb) | apply H; exact Hp | exact Ho | exact Hi].
  - unfold at_ord. apply PodControlProofs.find_none_intro. intros q Hq. apply Z.eqb_neq. apply (at_ord_None _ _ E). apply H. exact Hq.
Qed.

Lemma mu_members a b : wf s cnt slots a -> NoDup a -> NoDup b -> same_members b a -> mu s upd cnt slots b = mu s upd cnt slots a.
Proof.
  intros W Na Nb H. unfold mu. f_equal.
  - apply sumz_ext. intros i Hi. apply in_range_iff_desired in Hi. apply in_range_bounds in Hi.
    rewrite (at_ord_members a b i W H); [reflexivity | lia].
  - f_equal. apply Permutation_length. apply NoDup_Permutation; [apply NoDup_filter; exact Nb | apply NoDup_filter; exact Na|].
    intros q. rewrite !filter_In. specialize (H q). tauto.
Qed.

Lemma converged_members a b : pods_converged s upd cnt slots a -> same_members b a -> pods_converged s upd cnt slots b.
Proof.
  intros [P X] H. split.
  - intros i Hi. destruct (P i Hi) as (p & Hp & R). exists p. split; [apply H; exact Hp | exact R].
  - intros p Hp. apply X. apply H. exact Hp.
Qed.

(* one step of an arbitrary environment *)
Definition estep (cur : rinfo) (pods pods' : list pod) : Prop :=
  NoDup pods' /\ same_members pods' (round s upd cnt slots cur pods).

(* C02, pod phase, environment-independent: along EVERY sequence of snapshots in which each one has the members
   of the round of its predecessor, some snapshot within the first mu(pods)+1 is converged, and every later
   one is converged with the same members. *)
Theorem env_rounds_converge (P : nat -> list pod) (curs : nat -> rinfo) :
  wf s cnt slots (P O) -> NoDup (P O) ->
  (forall k, estep (curs k) (P k) (P (S k))) ->
  exists k, Z.of_nat k <= mu s upd cnt slots (P O)
    /\ forall m, (k <= m)%nat -> pods_converged s upd cnt slots (P m) /\ same_members (P m) (P k)
                              /\ forall cur, plan_acts s cur upd cnt slots (P m) = [].
Proof.
  intros W0 N0 Hstep.
  assert (Hall : forall k, wf s cnt slots (P k) /\ NoDup (P k)).
  { induction k as [|k [Wk Nk]]; [split; assumption|]. destruct (Hstep k) as [Nk' Hk']. split; [|exact Nk'].
    apply (wf_members (round s upd cnt slots (curs k) (P k))); [apply round_wf; assumption | exact Hk']. }
  (* once a plan is empty, everything stays *)
  assert (Hstay : forall k, plan_acts s (curs k) upd cnt slots (P k) = [] ->
            forall m, (k <= m)%nat -> pods_converged s upd cnt slots (P m) /\ same_members (P m) (P k)
                                     /\ forall cur, plan_acts s cur upd cnt slots (P m) = []).
  { intros k Hnil. destruct (Hall k) as [Wk Nk].
    assert (Ck : pods_converged s upd cnt slots (P k)).
    { apply (empty_plan_means_converged s (curs k)); try assumption; [lia | apply (wf_settled _ _ _ _ Wk) | apply (wf_nodead _ _ _ _ Wk)]. }
    assert (Gen : forall j, pods_converged s upd cnt slots (P (k + j)%nat) /\ same_members (P (k + j)%nat) (P k)).
    { induction j as [|j [Cj Mj]]; [rewrite Nat.add_0_r; split; [exact Ck | apply same_members_refl]|].
      destruct (Hall (k + j)%nat) as [Wj Nj].
      assert (Hq : plan_acts s (curs (k + j)%nat) upd cnt slots (P (k + j)%nat) = []).
      { apply converged_means_empty_plan; [lia | apply (wf_dist _ _ _ _ Wj) | exact Cj]. }
      destruct (Hstep (k + j)%nat) as [_ Hm]. rewrite (round_quiet s upd cnt slots _ _ Hq) in Hm.
      replace (k + S j)%nat with (S (k + j)) by lia.
      split; [apply (converged_members (P (k + j)%nat)); assumption | eapply same_members_trans; eassumption]. }
    intros m Hm. replace m with (k + (m - k))%nat by lia. destruct (Gen (m - k)%nat) as [Cm Mm].
    split; [exact Cm|]. split; [exact Mm|]. intros cur. destruct (Hall (k + (m - k))%nat) as [Wm _].
    apply converged_means_empty_plan; [lia | apply (wf_dist _ _ _ _ Wm) | exact Cm]. }
  (* the measure pays for every step before that *)
  assert (G : forall n k, mu s upd cnt slots (P k) <= Z.of_nat n ->
            exists j, Z.of_nat j <= mu s upd cnt slots (P k) /\ plan_acts s (curs (k + j)%nat) upd cnt slots (P (k + j)%nat) = []).
  { induction n as [|n IH]; intros k Hmu; destruct (Hall k) as [Wk Nk].
    - destruct (plan_acts s (curs k) upd cnt slots (P k)) as [|a t] eqn:E.
      + exists O. rewrite Nat.add_0_r. split; [apply mu_nonneg | exact E].
      + exfalso. assert (Hne : plan_acts s (curs k) upd cnt slots (P k) <> []) by (rewrite E; discriminate).
        pose proof (round_decreases s upd cnt slots Hcnt Hdel Hclaims Huc (curs k) (P k) Wk Hne).
        pose proof (mu_nonneg s upd cnt slots (round s upd cnt slots (curs k) (P k))). lia.
    - destruct (plan_acts s (curs k) upd cnt slots (P k)) as [|a t] eqn:E.
      + exists O. rewrite Nat.add_0_r. split; [apply mu_nonneg | exact E].
      + assert (Hne : plan_acts s (curs k) upd cnt slots (P k) <> []) by (rewrite E; discriminate).
        pose proof (round_decreases s upd cnt slots Hcnt Hdel Hclaims Huc (curs k) (P k) Wk Hne) as Hlt.
        destruct (Hstep k) as [Nk' Hk'].
        assert (Hmu' : mu s upd cnt slots (P (S k)) = mu s upd cnt slots (round s upd cnt slots (curs k) (P k))).
        { apply mu_members; [apply round_wf; assumption | apply round_nodup; assumption | exact Nk' | exact Hk']. }
        destruct (IH (S k) ltac:(lia)) as (j & J1 & J2). exists (S j).
        replace (k + S j)%nat with (S k + j)%nat by lia. split; [lia | exact J2]. }
  destruct (G (Z.to_nat (mu s upd cnt slots (P O))) O ltac:(pose proof (mu_nonneg s upd cnt slots (P O)); lia)) as (j & J1 & J2).
  cbn [Nat.add] in J2. exists j. split; [exact J1|]. apply Hstay. exact J2.
Qed.

End Env.
