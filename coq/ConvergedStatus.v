(* ConvergedStatus.v — the status the pod phase computes for a converged snapshot (C02):
   status.replicas = status.readyReplicas = spec.replicas, and the plan is empty. *)
From ASTS Require Import Base Slots SlotsProofs Names World Reconcile PlanProofs ConvergeProofs CounterProofs.

Lemma not_condemned_in_range cnt slots o : 0 <= o -> is_condemned cnt slots o = false -> in_range cnt slots o = true.
Proof.
  intros Ho H. unfold is_condemned in H. unfold in_range in *.
  replace (0 <=? o) with true in * by (symmetry; apply Z.leb_le; exact Ho). cbn [andb] in *.
  destruct (o <? cnt) eqn:L; cbn [andb negb] in *.
  - destruct (memb o slots) eqn:M; cbn [negb andb orb] in *; [|reflexivity].
    rewrite orb_true_r in H. discriminate.
  - apply Z.ltb_ge in L. replace (cnt <=? o) with true in H by (symmetry; apply Z.leb_le; exact L). discriminate.
Qed.

Lemma sumf_all_one f l : (forall p, In p l -> f p = 1) -> sumf f l = Z.of_nat (length l).
Proof.
  induction l as [|x t IH]; intros H; cbn [sumf length]; [reflexivity|].
  rewrite (H x (or_introl eq_refl)), IH by (intros p Hp; apply H; right; exact Hp). lia.
Qed.

Lemma steady_rr p : steady p = true -> rr p = 1.
Proof.
  unfold steady, rr. intros H. apply andb_true_iff in H. destruct H as [_ H]. rewrite H. reflexivity.
Qed.

Theorem converged_status s cur upd coll r cnt slots pods po :
  s_replicas s = Some r -> 0 <= r -> r + Z.of_nat (length (get_slots (s_slots s))) <= max_i32 ->
  extend r (get_slots (s_slots s)) = (cnt, slots) ->
  NoDup pods -> distinct_ordinals pods -> (forall p, In p pods -> 0 <= getOrdinal p) ->
  pods_converged s upd cnt slots pods ->
  plan_pods s cur upd coll pods = Some po ->
  po_acts po = [] /\ st_replicas (po_status po) = r /\ st_ready (po_status po) = r.
Proof.
  intros Hr Hr0 Hb He Hnd Hd Ho [Hpres Hnox] Hp.
  destruct (plan_pods_acts _ _ _ _ _ _ Hp) as (r' & cnt' & slots' & Hr' & He' & Hc' & Ha).
  rewrite Hr in Hr'. inversion Hr'; subst r'. rewrite He in He'. inversion He'; subst cnt' slots'.
  assert (Hnil : po_acts po = []).
  { rewrite Ha. apply converged_means_empty_plan; [exact Hc' | exact Hd | split; assumption]. }
  split; [exact Hnil|].
  destruct (plan_census _ _ _ _ _ _ Hp Hnil) as (N1 & N2 & _ & _).
  (* every pod is in range and steady *)
  assert (Hin : forall p, In p pods -> in_range cnt slots (getOrdinal p) = true).
  { intros p Hpp. apply not_condemned_in_range; [apply Ho; exact Hpp | apply Hnox; exact Hpp]. }
  assert (Hst : forall p, In p pods -> rr p = 1).
  { intros p Hpp. destruct (Hpres _ (Hin p Hpp)) as (q & Hq & Hqo & Hs & _).
    assert (q = p) by (apply Hd; try assumption; rewrite Hqo; apply Ho; exact Hpp). subst q.
    apply steady_rr. exact Hs. }
  rewrite (sumf_all_one rr pods Hst) in N2.
  (* counting: the ordinals of the pods are exactly the desired ordinals *)
  destruct (extend_spec r _ cnt slots Hr0 (get_slots_sorted _) Hb He) as (_ & _ & _ & Hpo).
  pose proof (pod_ordinals_spec r _ Hr0 (get_slots_sorted _) Hb) as Hspec. rewrite Hpo in Hspec.
  destruct Hspec as [Hlen Hsorted _ _].
  assert (Hnd2 : NoDup (map getOrdinal pods)).
  { clear -Hnd Hd Ho. induction pods as [|x t IH]; cbn [map]; constructor.
    - intros Hx. apply in_map_iff in Hx. destruct Hx as (y & Hy & Hyt).
      assert (x = y).
      { apply Hd; [left; reflexivity | right; exact Hyt | apply Ho; left; reflexivity | symmetry; exact Hy]. }
      subst y. inversion Hnd; contradiction.
    - inversion Hnd; subst. apply IH; try assumption.
      + intros p q Hp Hq H0 E. apply Hd; try assumption; right; assumption.
      + intros p Hp. apply Ho. right. exact Hp. }
  assert (L1 : (length (map getOrdinal pods) <= length (ordinals_of cnt slots))%nat).
  { apply NoDup_incl_length; [exact Hnd2|]. intros o Hoo. apply in_map_iff in Hoo. destruct Hoo as (p & <- & Hpp).
    apply in_range_iff_desired. apply Hin. exact Hpp. }
  assert (L2 : (length (ordinals_of cnt slots) <= length (map getOrdinal pods))%nat).
  { apply NoDup_incl_length; [apply sorted_NoDup; exact Hsorted|]. intros o Hoo. apply in_range_iff_desired in Hoo.
    destruct (Hpres _ Hoo) as (q & Hq & Hqo & _). apply in_map_iff. exists q. auto. }
  rewrite map_length in L1, L2. split; lia.
Qed.

(* ---- with the termination theorem: the rounds end in a snapshot whose computed status says
        replicas = readyReplicas = spec.replicas, with an empty plan, for every resolved current revision ---- *)
From ASTS Require Import TerminationProofs.

Theorem rounds_converge_with_status s upd r cnt slots :
  s_replicas s = Some r -> 0 <= r -> r + Z.of_nat (length (get_slots (s_slots s))) <= max_i32 ->
  extend r (get_slots (s_slots s)) = (cnt, slots) ->
  0 <= cnt <= max_i32 + 1 -> s_deleting s = false -> NoDup (s_claims s) ->
  (forall i, use_current s i = true -> i < umin_of s) ->
  forall pods, wf s cnt slots pods -> NoDup pods -> forall curs : nat -> rinfo,
  exists k, Z.of_nat k <= mu s upd cnt slots pods
    /\ pods_converged s upd cnt slots (run s upd cnt slots curs k pods)
    /\ (forall m, run s upd cnt slots curs (k + m) pods = run s upd cnt slots curs k pods)
    /\ (forall cur coll po, plan_pods s cur upd coll (run s upd cnt slots curs k pods) = Some po ->
          po_acts po = [] /\ st_replicas (po_status po) = r /\ st_ready (po_status po) = r).
Proof.
  intros Hr Hr0 Hb He Hcnt Hdel Hcl Huc pods W Hnd curs.
  destruct (rounds_converge s upd cnt slots Hcnt Hdel Hcl Huc pods W curs) as (k & K1 & K2 & K3 & K4).
  exists k. split; [exact K1|]. split; [exact K2|]. split; [exact K4|].
  intros cur coll po Hp.
  pose proof (run_wf s upd cnt slots Hcnt Hcl Huc k curs pods W) as Wk.
  apply (converged_status s cur upd coll r cnt slots (run s upd cnt slots curs k pods) po Hr Hr0 Hb He); try assumption.
  - apply (run_nodup s upd cnt slots Hcnt Hdel Hcl Huc); assumption.
  - apply (wf_dist _ _ _ _ Wk).
  - intros p Hp'. apply (wf_ord _ _ _ _ Wk p Hp').
Qed.
