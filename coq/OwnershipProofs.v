(* OwnershipProofs.v — adoption needs a fresh confirmation (C10): order of the calls of ClaimPods and
   of adoptOrphanRevisions, and which revisions are written. *)
From ASTS Require Import Base Slots Names World Reconcile MonadProofs PlanProofs ReconcileProofs RevisionProofs.

(* one API call appends exactly one log entry, without error iff it returns a value *)
Lemma call_api_entry {A} (c : call) (ap : world -> (A + errkind) * world) st r st' :
  call_api c ap st = (r, st') ->
  exists e, rs_log st' = (c, e) :: rs_log st
            /\ (e = None -> exists a w', r = Ok a /\ ap (rs_api st) = (inl a, w'))
            /\ (forall a, r = Ok a -> e = None)
            /\ ((exists a, r = Ok a) \/ (exists er, r = Err er)).
Proof.
  unfold call_api. destruct (take_fault _ _ _) as [fo fs']. destruct fo as [f|].
  - destruct f; try (intros H; inversion H; subst; eexists; split; [reflexivity|]; split; [discriminate|];
                     split; [intros a Ha; discriminate | right; eexists; reflexivity]).
    destruct (ap (rs_api st)) as [x w']. intros H; inversion H; subst.
    eexists; split; [reflexivity|]; split; [discriminate|]; split; [intros a Ha; discriminate | right; eexists; reflexivity].
  - destruct (ap (rs_api st)) as [[a|e] w'] eqn:E; intros H; inversion H; subst.
    + eexists; split; [reflexivity|]. split; [intros _; exists a, w'; split; reflexivity|].
      split; [intros; reflexivity | left; eexists; reflexivity].
    + eexists; split; [reflexivity|]. split; [discriminate|]. split; [intros a Ha; discriminate | right; eexists; reflexivity].
Qed.

Lemma call_api_err {A} (c : call) (ap : world -> (A + errkind) * world) st er st' :
  call_api c ap st = (Err er, st') -> rs_log st' = (c, Some er) :: rs_log st.
Proof.
  unfold call_api. destruct (take_fault _ _ _) as [fo fs']. destruct fo as [f|].
  - destruct f; try (intros H; inversion H; subst; reflexivity).
    destruct (ap (rs_api st)) as [x w']. intros H; inversion H; subst. reflexivity.
  - destruct (ap (rs_api st)) as [[a|e] w']; intros H; inversion H; subst. reflexivity.
Qed.

(* newest-first log: every pod adoption patch has a successful fresh GET of the set somewhere before it *)
Definition adopt_guarded (log : list (call * option errkind)) : Prop :=
  forall pre n e post, log = pre ++ (CPatchPod n true, e) :: post -> In (CGetSet, None) post.

Lemma adopt_guarded_cons_other c e log :
  (forall n, c <> CPatchPod n true) -> adopt_guarded log -> adopt_guarded ((c, e) :: log).
Proof.
  intros Hc Hg pre n e' post E. destruct pre as [|x pre]; cbn [app] in E.
  - inversion E; subst. exfalso. eapply Hc. reflexivity.
  - inversion E; subst. eapply Hg. reflexivity.
Qed.
Lemma adopt_guarded_cons_adopt n e log :
  In (CGetSet, None) log -> adopt_guarded log -> adopt_guarded ((CPatchPod n true, e) :: log).
Proof.
  intros Hin Hg pre n' e' post E. destruct pre as [|x pre]; cbn [app] in E.
  - inversion E; subst. exact Hin.
  - inversion E; subst. eapply Hg. reflexivity.
Qed.

(* CanAdopt says yes only after a successful GET that returned the same UID and no deletion timestamp *)
Lemma can_adopt_spec s memo st r st' :
  can_adopt s memo st = (r, st') ->
  (memo <> None /\ st' = st /\ r = Ok (match memo with Some b => b | None => false end, memo))
  \/ (memo = None /\ exists e ok, rs_log st' = (CGetSet, e) :: rs_log st /\ r = Ok (ok, Some ok)
        /\ (ok = true -> e = None /\ exists f, w_set (rs_api st) = Some f /\ s_uid f = s_uid s /\ s_deleting f = false)).
Proof.
  unfold can_adopt. destruct memo as [b|].
  - intros H. inversion H; subst. left. repeat split. discriminate.
  - intros H. right. split; [reflexivity|]. unfold bind, try in H.
    destruct (api_get_set st) as [rg s1] eqn:Eg. unfold api_get_set in Eg.
    destruct (call_api_entry _ _ _ _ _ Eg) as (e & Hl & Hnone & Hok & Hres).
    destruct Hres as [[f ->]|[er ->]]; inversion H; subst.
    + exists e, (String.eqb (s_uid f) (s_uid s) && negb (s_deleting f)). split; [exact Hl|]. split; [reflexivity|].
      intros Ht. apply andb_true_iff in Ht. destruct Ht as [H1 H2]. apply String.eqb_eq in H1. apply negb_true_iff in H2.
      pose proof (Hok f eq_refl) as He. split; [exact He|].
      destruct (Hnone He) as (a & w' & Ha & Hap). inversion Ha; subst a.
      destruct (w_set (rs_api st)) as [g|] eqn:Eg'; inversion Hap; subst. exists f. repeat split; auto.
    + exists e, false. split; [exact Hl|]. split; [reflexivity | discriminate].
Qed.

Lemma claim_pods_guarded s : forall pods memo failed st r st',
  claim_pods s pods memo failed st = (r, st') ->
  adopt_guarded (rs_log st) -> (memo = Some true -> In (CGetSet, None) (rs_log st)) ->
  adopt_guarded (rs_log st').
Proof.
  induction pods as [|p t IH]; intros memo failed st r st' E Hg Hm; cbn [claim_pods] in E.
  - inversion E; subst. exact Hg.
  - destruct (p_owner p) as [o|].
    + destruct (negb (owner_uid_is s (Some o))); [eapply IH; eassumption|].
      destruct (p_match p && isMemberOf s p).
      * apply bind_inv in E. destruct E as [(x & s1 & E1 & E)|[E1 _]].
        -- inversion E; subst. eapply IH; eassumption.
        -- eapply IH; eassumption.
      * destruct (s_deleting s); [eapply IH; eassumption|].
        apply bind_inv in E. destruct E as [(x & s1 & E1 & E)|[E1 Hno]].
        -- unfold try in E1. destruct (api_patch_pod s (p_name p) false st) as [rp sp] eqn:Ep.
           unfold api_patch_pod in Ep. destruct (call_api_entry _ _ _ _ _ Ep) as (e & Hl & _ & _ & Hres).
           assert (Hg1 : adopt_guarded (rs_log sp)) by (rewrite Hl; apply adopt_guarded_cons_other; [intros n H; discriminate | exact Hg]).
           assert (Hm1 : memo = Some true -> In (CGetSet, None) (rs_log sp)) by (intros Hx; rewrite Hl; right; apply Hm; exact Hx).
           destruct Hres as [[a ->]|[er ->]]; inversion E1; subst x s1.
           ++ eapply IH; [exact E | exact Hg1 | exact Hm1].
           ++ destruct er; eapply IH; try exact E; try exact Hg1; try exact Hm1.
        -- unfold try in E1. destruct (api_patch_pod s (p_name p) false st) as [rp sp] eqn:Ep.
           unfold api_patch_pod in Ep. destruct (call_api_entry _ _ _ _ _ Ep) as (e & Hl & _ & _ & Hres).
           destruct Hres as [[a ->]|[er ->]]; destruct r; inversion E1.
    + destruct (s_deleting s || negb (p_match p && isMemberOf s p)); [eapply IH; eassumption|].
      destruct (p_term p); [eapply IH; eassumption|].
      apply bind_inv in E. destruct E as [([ok memo'] & s1 & E1 & E)|[E1 Hno]].
      * destruct (can_adopt_spec _ _ _ _ _ E1) as [(Hmn & -> & Hr)|(-> & e & ok' & Hl & Hr & Hok)].
        -- inversion Hr; subst. destruct memo as [b|]; [|congruence]. destruct b; cbn [negb] in E.
           ++ (* already confirmed: the patch follows an earlier GET *)
              apply bind_inv in E. destruct E as [(x & s2 & E2 & E)|[E2 Hno]].
              ** unfold try in E2. destruct (api_patch_pod s (p_name p) true st) as [rp sp] eqn:Ep.
                 unfold api_patch_pod in Ep. destruct (call_api_entry _ _ _ _ _ Ep) as (e & Hl & _ & _ & Hres).
                 assert (Hg1 : adopt_guarded (rs_log sp)) by (rewrite Hl; apply adopt_guarded_cons_adopt; [apply Hm; reflexivity | exact Hg]).
                 assert (Hm1 : Some true = Some true -> In (CGetSet, None) (rs_log sp)) by (intros _; rewrite Hl; right; apply Hm; reflexivity).
                 destruct Hres as [[a ->]|[er ->]]; inversion E2; subst x s2.
                 --- apply bind_inv in E. destruct E as [(y & s3 & E3 & E)|[E3 _]];
                       [inversion E; subst|]; eapply IH; try exact E3; try exact Hg1; try exact Hm1.
                 --- destruct er; eapply IH; try exact E; try exact Hg1; try exact Hm1.
              ** unfold try in E2. destruct (api_patch_pod s (p_name p) true st) as [rp sp] eqn:Ep.
                 unfold api_patch_pod in Ep. destruct (call_api_entry _ _ _ _ _ Ep) as (e & Hl & _ & _ & Hres).
                 destruct Hres as [[a ->]|[er ->]]; destruct r; inversion E2.
           ++ eapply IH; [exact E | exact Hg | discriminate].
        -- inversion Hr; subst ok' memo'.
           assert (Hg1 : adopt_guarded (rs_log s1)) by (rewrite Hl; apply adopt_guarded_cons_other; [intros n H; discriminate | exact Hg]).
           destruct ok; cbn [negb] in E.
           ++ destruct (Hok eq_refl) as [-> _].
              assert (Hin1 : In (CGetSet, None) (rs_log s1)) by (rewrite Hl; left; reflexivity).
              apply bind_inv in E. destruct E as [(x & s2 & E2 & E)|[E2 Hno]].
              ** unfold try in E2. destruct (api_patch_pod s (p_name p) true s1) as [rp sp] eqn:Ep.
                 unfold api_patch_pod in Ep. destruct (call_api_entry _ _ _ _ _ Ep) as (e & Hl2 & _ & _ & Hres).
                 assert (Hg2 : adopt_guarded (rs_log sp)) by (rewrite Hl2; apply adopt_guarded_cons_adopt; assumption).
                 assert (Hm2 : Some true = Some true -> In (CGetSet, None) (rs_log sp)) by (intros _; rewrite Hl2; right; exact Hin1).
                 destruct Hres as [[a ->]|[er ->]]; inversion E2; subst x s2.
                 --- apply bind_inv in E. destruct E as [(y & s3 & E3 & E)|[E3 _]];
                       [inversion E; subst|]; eapply IH; try exact E3; try exact Hg2; try exact Hm2.
                 --- destruct er; eapply IH; try exact E; try exact Hg2; try exact Hm2.
              ** unfold try in E2. destruct (api_patch_pod s (p_name p) true s1) as [rp sp] eqn:Ep.
                 unfold api_patch_pod in Ep. destruct (call_api_entry _ _ _ _ _ Ep) as (e & Hl2 & _ & _ & Hres).
                 destruct Hres as [[a ->]|[er ->]]; destruct r; inversion E2.
           ++ eapply IH; [exact E | exact Hg1 | discriminate].
      * (* can_adopt itself never fails *)
        destruct (can_adopt_spec _ _ _ _ _ E1) as [(_ & _ & Hr)|(_ & e & ok' & _ & Hr & _)]; destruct r; discriminate.
Qed.

(* ------------------------------------------------------------------ lifting to the reconcile ------ *)
Definition not_adopt_patch (c : call) : Prop := match c with CPatchPod _ true => False | _ => True end.

Lemma adopt_guarded_ext old new :
  adopt_guarded old -> Forall (fun e => not_adopt_patch (fst e)) new -> adopt_guarded (new ++ old).
Proof.
  intros Hg. induction new as [|x t IH]; intros F; cbn [app]; [exact Hg|].
  inversion F as [|? ? Hx Ht]; subst. destruct x as [c e]. apply adopt_guarded_cons_other; [|apply IH; exact Ht].
  intros n Hc. subst c. cbn in Hx. exact Hx.
Qed.
Lemma adopt_guarded_log_ext (L : call -> Prop) st st' :
  (forall c, L c -> not_adopt_patch c) -> log_ext L st st' -> adopt_guarded (rs_log st) -> adopt_guarded (rs_log st').
Proof.
  intros HL (new & E & F) Hg. rewrite E. apply adopt_guarded_ext; [exact Hg|].
  eapply Forall_impl; [|exact F]. intros e. apply HL.
Qed.

(* adoption of revisions: a successful fresh GET precedes every adoption patch *)
Definition rev_adopt_guarded (log : list (call * option errkind)) : Prop :=
  forall pre n e post, log = pre ++ (CPatchRev n, e) :: post -> In (CGetSet, None) post.
Lemma rev_guarded_ext old new :
  rev_adopt_guarded old -> (In (CGetSet, None) old \/ Forall (fun e => forall n, fst e <> CPatchRev n) new) ->
  rev_adopt_guarded (new ++ old).
Proof.
  intros Hg H pre n e post E. revert pre E. induction new as [|x t IH]; intros pre E; cbn [app] in E.
  - eapply Hg. exact E.
  - destruct pre as [|y pre]; cbn [app] in E; inversion E; subst.
    + destruct H as [H|H]; [apply in_or_app; right; exact H|]. inversion H as [|? ? Hx _]; subst. exfalso. eapply Hx. reflexivity.
    + apply IH with (pre := pre); [|eassumption]. destruct H as [H|H]; [left; exact H|]. right. inversion H; assumption.
Qed.

Section Lift2.
Variable hashes : list ((Z * Z) * string).

Lemma emits_uss_no_adopt s cache pods : emits not_adopt_patch (update_stateful_set hashes s cache pods).
Proof.
  unfold update_stateful_set.
  apply emits_bind; [eapply emits_weaken; [|apply emits_list_revisions_r]; intros c; destruct c; cbn; tauto|]. intros revs0.
  apply emits_bind; [eapply emits_weaken; [|apply emits_get_set_revisions_r]; intros c; destruct c; cbn; tauto|]. intros [[cur upd] coll].
  destruct (plan_pods s _ _ coll pods) as [po|]; [|apply mspec_panic].
  apply emits_bind; [apply emits_forM; intros a _; apply emits_exec_act; intros; exact I|]. intros _.
  apply emits_bind.
  - unfold update_set_status. destruct (inconsistent_status _ _); [|apply emits_ret]. apply emits_update_status_retry. exact I.
  - intros _. eapply emits_weaken; [|apply emits_truncate]. intros c; destruct c; cbn; tauto.
Qed.

Theorem sync_adoptions_guarded cache st r st' :
  sync hashes cache st = (r, st') -> adopt_guarded (rs_log st) -> adopt_guarded (rs_log st').
Proof.
  intros E Hg. unfold sync in E.
  destruct (w_set cache) as [s|] eqn:Hs; [|inversion E; subst; exact Hg].
  destruct (get_paused (s_pause s)); [inversion E; subst; exact Hg|].
  destruct (s_selector s); [|inversion E; subst; exact Hg].
  apply bind_inv in E.
  assert (Hadopt : forall rr s1, adopt_orphan_revisions s st = (rr, s1) -> adopt_guarded (rs_log s1)).
  { intros rr s1 H. eapply adopt_guarded_log_ext; [|eapply emits_run; [apply (emits_adopt cache s Hs) | exact H] | exact Hg].
    intros c; destruct c; cbn; tauto. }
  destruct E as [(u & s1 & E1 & E)|[E1 _]]; [|eapply Hadopt; exact E1].
  pose proof (Hadopt _ _ E1) as Hg1.
  apply bind_inv in E. destruct E as [(x & s2 & E2 & E)|[E2 _]].
  2:{ eapply claim_pods_guarded; [exact E2 | exact Hg1 | discriminate]. }
  assert (Hg2 : adopt_guarded (rs_log s2)) by (eapply claim_pods_guarded; [exact E2 | exact Hg1 | discriminate]).
  destruct (snd x); [inversion E; subst; exact Hg2|].
  eapply adopt_guarded_log_ext; [|eapply emits_run; [apply emits_uss_no_adopt | exact E] | exact Hg2]. auto.
Qed.

(* oldest-first reading for the reconcile log *)
Theorem reconcile_pod_adoption_after_fresh_get api cache faults o log w' :
  reconcile hashes api cache faults = (o, log, w') ->
  forall pre n e post, log = pre ++ (CPatchPod n true, e) :: post -> In (CGetSet, None) pre.
Proof.
  unfold reconcile. destruct (sync hashes cache _) as [r st] eqn:E. intros H. inversion H; subst. clear H.
  assert (Hg : adopt_guarded (rs_log st)).
  { eapply sync_adoptions_guarded; [exact E|]. intros pre n e post Hc. cbn in Hc. destruct pre; discriminate. }
  intros pre n e post Hlog.
  assert (Hrev : rs_log st = List.rev post ++ (CPatchPod n true, e) :: List.rev pre).
  { rewrite <- (rev_involutive (rs_log st)), Hlog, rev_app_distr. cbn [List.rev]. rewrite <- app_assoc. reflexivity. }
  apply in_rev. eapply Hg. exact Hrev.
Qed.

(* the same for ControllerRevisions *)
Lemma adopt_revs_guarded cache s st r st' :
  w_set cache = Some s ->
  adopt_orphan_revisions s st = (r, st') -> rev_adopt_guarded (rs_log st) -> rev_adopt_guarded (rs_log st').
Proof.
  intros Hs E Hg. unfold adopt_orphan_revisions in E.
  assert (Hnop : forall (L : call -> Prop) a b, (forall c, L c -> forall n, c <> CPatchRev n) -> log_ext L a b ->
                  rev_adopt_guarded (rs_log a) -> rev_adopt_guarded (rs_log b)).
  { intros L a b HL (new & E1 & F) Ha. rewrite E1. apply rev_guarded_ext; [exact Ha|]. right.
    eapply Forall_impl; [|exact F]. intros e. apply HL. }
  assert (Hres : forall c, resolve_call c -> forall n, c <> CPatchRev n) by (intros c Hc n ->; exact Hc).
  apply bind_inv in E. destruct E as [(revs & s1 & E1 & E)|[E1 _]].
  2:{ eapply Hnop; [exact Hres | eapply emits_run; [apply emits_list_revisions_r | exact E1] | exact Hg]. }
  assert (Hg1 : rev_adopt_guarded (rs_log s1)).
  { eapply Hnop; [exact Hres | eapply emits_run; [apply emits_list_revisions_r | exact E1] | exact Hg]. }
  destruct (existsb _ revs && negb (s_deleting s)); [|inversion E; subst; exact Hg1].
  apply bind_inv in E. unfold api_get_set in E.
  destruct E as [(fresh & s2 & E2 & E)|[E2 _]].
  - destruct (call_api_entry _ _ _ _ _ E2) as (e & Hl & _ & Hok & _). rewrite (Hok fresh eq_refl) in Hl.
    (* from here on a successful GET is in the log: everything appended later is guarded *)
    assert (Hafter : forall sx rx sy, forall (m : M unit), m sx = (rx, sy) -> emits (fun _ => True) m ->
                       In (CGetSet, None) (rs_log sx) -> rev_adopt_guarded (rs_log sx) -> rev_adopt_guarded (rs_log sy)).
    { intros sx rx sy m Hm Hem Hin Hgx. destruct (emits_run _ _ _ _ _ Hem Hm) as (new & En & _). rewrite En.
      apply rev_guarded_ext; [exact Hgx | left; exact Hin]. }
    assert (Hg2 : rev_adopt_guarded (rs_log s2)).
    { rewrite Hl. intros pre n e' post Ec. destruct pre as [|y pre]; cbn [app] in Ec; inversion Ec; subst; eapply Hg1; eassumption. }
    assert (Hin2 : In (CGetSet, None) (rs_log s2)) by (rewrite Hl; left; reflexivity).
    eapply (Hafter s2 r st'); [exact E | | exact Hin2 | exact Hg2].
    destruct (negb (String.eqb (s_uid fresh) (s_uid s))); [apply mspec_fail|].
    destruct (s_deleting fresh); [apply mspec_fail|].
    apply emits_bind; [eapply emits_weaken; [|apply emits_sync_all]; auto|].
    intros revs'. apply emits_forM. intros q _. unfold api_adopt_rev. msimp. exact I.
  - destruct (call_api_entry _ _ _ _ _ E2) as (e & Hl & _). rewrite Hl.
    intros pre n e' post Ec. destruct pre as [|y pre]; cbn [app] in Ec; inversion Ec; subst; eapply Hg1; eassumption.
Qed.

Definition not_patch_rev (c : call) : Prop := match c with CPatchRev _ => False | _ => True end.
Lemma emits_uss_no_patch_rev s cache pods : emits not_patch_rev (update_stateful_set hashes s cache pods).
Proof.
  unfold update_stateful_set.
  apply emits_bind; [eapply emits_weaken; [|apply emits_list_revisions_r]; intros c; destruct c; cbn; tauto|]. intros revs0.
  apply emits_bind; [eapply emits_weaken; [|apply emits_get_set_revisions_r]; intros c; destruct c; cbn; tauto|]. intros [[cur upd] coll].
  destruct (plan_pods s _ _ coll pods) as [po|]; [|apply mspec_panic].
  apply emits_bind; [apply emits_forM; intros a _; apply emits_exec_act; intros; exact I|]. intros _.
  apply emits_bind.
  - unfold update_set_status. destruct (inconsistent_status _ _); [|apply emits_ret]. apply emits_update_status_retry. exact I.
  - intros _. eapply emits_weaken; [|apply emits_truncate]. intros c; destruct c; cbn; tauto.
Qed.

Theorem reconcile_rev_adoption_after_fresh_get api cache faults o log w' :
  reconcile hashes api cache faults = (o, log, w') ->
  forall pre n e post, log = pre ++ (CPatchRev n, e) :: post -> In (CGetSet, None) pre.
Proof.
  unfold reconcile. destruct (sync hashes cache _) as [r st] eqn:E. intros H. inversion H; subst. clear H.
  assert (Hnop : forall (L : call -> Prop) a b, (forall c, L c -> not_patch_rev c) -> log_ext L a b ->
                  rev_adopt_guarded (rs_log a) -> rev_adopt_guarded (rs_log b)).
  { intros L a b HL (new & E1 & F) Ha. rewrite E1. apply rev_guarded_ext; [exact Ha|]. right.
    eapply Forall_impl; [|exact F]. intros e He n Hc. specialize (HL _ He). rewrite Hc in HL. exact HL. }
  assert (Hg : rev_adopt_guarded (rs_log st)).
  { assert (H0 : rev_adopt_guarded (rs_log {| rs_api := api; rs_log := []; rs_n := 0; rs_faults := faults |})).
    { intros pre n e post Hc. cbn in Hc. destruct pre; discriminate. }
    unfold sync in E.
    destruct (w_set cache) as [s|] eqn:Hs; [|inversion E; subst; exact H0].
    destruct (get_paused (s_pause s)); [inversion E; subst; exact H0|].
    destruct (s_selector s); [|inversion E; subst; exact H0].
    apply bind_inv in E. destruct E as [(u & s1 & E1 & E)|[E1 _]]; [|eapply adopt_revs_guarded; eassumption].
    pose proof (adopt_revs_guarded cache s _ _ _ Hs E1 H0) as Hg1.
    apply bind_inv in E. destruct E as [(x & s2 & E2 & E)|[E2 _]].
    2:{ eapply Hnop; [|destruct (mspec_claim_pods s cache Hs (w_pods cache) None false (incl_refl _) _ _ _ E2) as [HH _]; exact HH | exact Hg1].
        intros c; destruct c; cbn; tauto. }
    assert (Hg2 : rev_adopt_guarded (rs_log s2)).
    { eapply Hnop; [|destruct (mspec_claim_pods s cache Hs (w_pods cache) None false (incl_refl _) _ _ _ E2) as [HH _]; exact HH | exact Hg1].
      intros c; destruct c; cbn; tauto. }
    destruct (snd x); [inversion E; subst; exact Hg2|].
    eapply Hnop; [|eapply emits_run; [apply emits_uss_no_patch_rev | exact E] | exact Hg2]. auto. }
  intros pre n e post Hlog.
  assert (Hrev : rs_log st = List.rev post ++ (CPatchRev n, e) :: List.rev pre).
  { rewrite <- (rev_involutive (rs_log st)), Hlog, rev_app_distr. cbn [List.rev]. rewrite <- app_assoc. reflexivity. }
  apply in_rev. eapply Hg. exact Hrev.
Qed.

End Lift2.

(* every pod the planner deletes is a claimed pod of the snapshot or a pod created in this very reconcile *)
Lemma delete_targets s cur upd cnt slots pods p :
  0 <= cnt -> In (ADelete p) (plan_acts s cur upd cnt slots pods) ->
  In p pods \/ exists i, p = new_versioned_pod s cur upd i.
Proof.
  intros Hc Hin. destruct (plan_delete_justified _ _ _ _ _ _ _ Hc Hin) as [Hp _ _ | Hp _ _ _ | i _ _ _ [[Hp _]| ->] _ _ _ _ _].
  - left; exact Hp.
  - left; exact Hp.
  - left; exact Hp.
  - right. exists i. reflexivity.
Qed.

Theorem reconcile_pod_patches hashes api cache faults o log w' n adopt e :
  reconcile hashes api cache faults = (o, log, w') -> In (CPatchPod n adopt, e) log ->
  exists s p, w_set cache = Some s /\ In p (w_pods cache) /\ p_name p = n /\ s_deleting s = false
    /\ (if adopt then p_owner p = None /\ p_match p = true /\ isMemberOf s p = true /\ p_term p = false
        else owner_uid_is s (p_owner p) = true /\ (p_match p && isMemberOf s p) = false).
Proof.
  intros Hr Hin. destruct (reconcile_ctx hashes _ _ _ _ _ _ Hr) as (oc & _ & F).
  rewrite Forall_forall in F. exact (F _ Hin).
Qed.
