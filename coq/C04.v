(* C04 — Pods are created only at vacant desired ordinals.  Statements only. *)
From ASTS Require Import Base Slots Names World Reconcile PlanProofs ReconcileProofs ExampleWorld.

(* (1) every pod create call of every reconcile (any API state, cache, fault oracle), given the
   API-server invariant that every observed pod has a non-empty phase: the set is not being deleted,
   the pod is the fresh pod of an ordinal i of the desired set (C01's set: pod_ordinals), and either no
   claimed pod has ordinal i (vacant) or the claimed pod at i is Failed/Succeeded and its deletion
   immediately precedes the create in the plan.  Ordinals in a delete slot or beyond the range are not
   in pod_ordinals, so a listed slot is never populated. *)
Theorem C04_every_create_is_at_a_vacant_desired_ordinal :
  forall hashes api cache faults o log w' n rv t e,
    reconcile hashes api cache faults = (o, log, w') ->
    (forall q, In q (w_pods cache) -> isCreated q = true) ->
    In (CCreatePod n rv t, e) log ->
    exists s cur upd coll claimed po r cnt slots i,
      ctx_valid cache (s, cur, upd, coll, claimed, po) /\ s_deleting s = false
      /\ s_replicas s = Some r /\ extend r (get_slots (s_slots s)) = (cnt, slots)
      /\ In i (pod_ordinals r (get_slots (s_slots s)))
      /\ n = p_name (new_versioned_pod s cur upd i) /\ rv = p_rev (new_versioned_pod s cur upd i)
      /\ ((forall q, In q claimed -> getOrdinal q <> i)
          \/ exists p0 pre post, In p0 claimed /\ getOrdinal p0 = i /\ (isFailed p0 || isSucceeded p0) = true
               /\ po_acts po = pre ++ ADelete p0 :: ACreate (new_versioned_pod s cur upd i) :: post).
Proof. exact reconcile_create_justified. Qed.
Print Assumptions C04_every_create_is_at_a_vacant_desired_ordinal.

(* (2) a set that is being deleted plans no pod action at all *)
Theorem C04_deleting_set_plans_nothing :
  forall cache s cur upd coll claimed po,
    ctx_valid cache (s, cur, upd, coll, claimed, po) -> s_deleting s = true -> po_acts po = [].
Proof. exact ctx_deleting. Qed.
Print Assumptions C04_deleting_set_plans_nothing.

(* (3) the domain hypothesis of (1) is needed: an observed pod without a phase is "created" again —
   the model's example, excluded by the guard *)
Example C04_phaseless_pod_is_recreated :
  In "create pods web-0"%string
     (map (fun e => shape_of (fst e))
          (ex_log (ex_set 1 None "OrderedReady" 1 0 (ex_status 1 "web-h1" "web-h1")) [ex_pod 0 "web-h1" "" false] [ex_rev "web-h1" 1 1])).
Proof. vm_compute. tauto. Qed.

(* non-vacuity of (1): with slot 1 listed, the vacancy is filled at ordinal 3, never at 1 *)
Example C04_ex_slot_not_repopulated :
  let l := map (fun e => shape_of (fst e))
               (ex_log (ex_set 3 (Some "[1]"%string) "OrderedReady" 1 0 (ex_status 2 "web-h1" "web-h1"))
                       [ex_pod 0 "web-h1" "Running" true; ex_pod 2 "web-h1" "Running" true] [ex_rev "web-h1" 1 1]) in
  In "create pods web-3"%string l /\ ~ In "create pods web-1"%string l.
Proof. vm_compute. split; [tauto|]. intros H. repeat (destruct H as [H|H]; [discriminate|]). exact H. Qed.
