(* PodControlProofs.v — identity and storage of created pods, claims before the pod, claims never removed (C06). *)
From ASTS Require Import Base Slots Names NamesProofs World Reconcile MonadProofs OwnershipProofs.

Lemma find_app {A} (f : A -> bool) l1 l2 :
  find f (l1 ++ l2) = match find f l1 with Some x => Some x | None => find f l2 end.
Proof. induction l1 as [|a t IH]; cbn [app find]; [reflexivity|]. destruct (f a); [reflexivity | exact IH]. Qed.
Lemma find_none_intro {A} (f : A -> bool) l : (forall x, In x l -> f x = false) -> find f l = None.
Proof.
  induction l as [|a t IH]; intros H; cbn [find]; [reflexivity|].
  rewrite (H a (or_introl eq_refl)). apply IH. intros x Hx. apply H. right. exact Hx.
Qed.

(* ---- (b) what a pod created for ordinal i looks like ---- *)
Lemma lookup_vol_claim_vols s ord t rest :
  In t (s_claims s) -> NoDup (s_claims s) ->
  (forall v, In v rest -> v_name v <> t) ->
  lookup_vol t (claim_vols s ord ++ rest) = Some {| v_name := t; v_claim := Some (claim_name t (s_name s) ord) |}.
Proof.
  unfold lookup_vol, claim_vols. intros Hin Hnd Hrest. rewrite rev_app_distr, find_app.
  rewrite (find_none_intro _ (List.rev rest)).
  2:{ intros v Hv. apply in_rev in Hv. apply String.eqb_neq. apply Hrest. exact Hv. }
  induction (s_claims s) as [|c cs IH]; [destruct Hin|]. cbn [map List.rev]. rewrite find_app.
  inversion Hnd as [|? ? Hc Hcs]; subst.
  destruct Hin as [->|Hin].
  - rewrite (find_none_intro _ (List.rev _)).
    + cbn [find v_name]. rewrite String.eqb_refl. reflexivity.
    + intros v Hv. apply in_rev in Hv. apply in_map_iff in Hv. destruct Hv as (c & <- & Hc').
      cbn [v_name]. apply String.eqb_neq. intros ->. contradiction.
  - rewrite (IH Hin Hcs). reflexivity.
Qed.

Theorem new_pod_identity s i rn tm :
  0 <= i <= max_i32 -> NoDup (s_claims s) ->
  let p := new_pod s i rn tm in
  p_name p = pod_name (s_name s) i /\ p_namelabel p = Some (pod_name (s_name s) i) /\ p_rev p = rn
  /\ p_owner p = Some (me s) /\ p_tmpl p = tm
  /\ getOrdinal p = i /\ isMemberOf s p = true
  /\ (forall t, In t (s_claims s) ->
        lookup_vol t (p_vols p) = Some {| v_name := t; v_claim := Some (claim_name t (s_name s) i) |})
  /\ identityMatches s p = true /\ storageMatches s p = true.
Proof.
  intros Hi Hnd p. pose proof (parse_pod_name (s_name s) i Hi) as Hp.
  assert (Hord : getOrdinal p = i) by (unfold getOrdinal, ordinal_of, p; cbn [new_pod p_name]; rewrite Hp; reflexivity).
  assert (Hvol : forall t, In t (s_claims s) ->
            lookup_vol t (p_vols p) = Some {| v_name := t; v_claim := Some (claim_name t (s_name s) i) |}).
  { intros t Ht. unfold p. cbn [new_pod p_vols]. apply lookup_vol_claim_vols; [exact Ht | exact Hnd|].
    intros v Hv. apply filter_In in Hv. destruct Hv as [_ Hv]. apply negb_true_iff in Hv.
    intros E. rewrite E in Hv. assert (smemb t (s_claims s) = true) by (apply RevisionProofs.smemb_In; exact Ht). congruence. }
  repeat split; try reflexivity; try assumption.
  - unfold isMemberOf, parent_of, p. cbn [new_pod p_name]. rewrite Hp. apply String.eqb_refl.
  - unfold identityMatches, p. cbn [new_pod p_name p_namelabel]. rewrite Hp.
    replace (0 <=? i) with true by (symmetry; apply Z.leb_le; lia).
    rewrite !String.eqb_refl. cbn [opt_str_is]. rewrite String.eqb_refl. reflexivity.
  - unfold storageMatches. rewrite Hord. replace (0 <=? i) with true by (symmetry; apply Z.leb_le; lia). cbn [andb].
    apply forallb_forall. intros t Ht. rewrite (Hvol t Ht). cbn [opt_str_is v_claim]. apply String.eqb_refl.
Qed.

(* ---- (c) claims first: the log of CreateStatefulPod ---- *)
Definition is_claim_create (e : call * option errkind) : Prop := exists n, fst e = CCreateClaim n.

Lemma create_claims_log s cache ord : forall ts failed st r st',
  create_claims s cache ord ts failed st = (r, st') ->
  exists new, rs_log st' = new ++ rs_log st /\ Forall is_claim_create new
              /\ (exists b, r = Ok b /\ (b = false -> failed = false /\ Forall (fun e => snd e = None) new)
                            /\ (b = true -> failed = true \/ Exists (fun e => snd e <> None) new)).
Proof.
  induction ts as [|t rest IH]; intros failed st r st' E; cbn [create_claims] in E.
  - inversion E; subst. exists []. split; [reflexivity|]. split; [constructor|]. exists failed. split; [reflexivity|].
    split; [intros ->; split; [reflexivity | constructor] | intros ->; left; reflexivity].
  - destruct (smemb _ _); [eapply IH; exact E|].
    apply bind_inv in E. destruct E as [(x & s1 & E1 & E)|[E1 Hno]].
    + unfold try in E1. destruct (api_create_claim _ st) as [rc sc] eqn:Ec. unfold api_create_claim in Ec.
      destruct (call_api_entry _ _ _ _ _ Ec) as (e & Hl & Hok' & Hok & Hres).
      assert (Hentry : is_claim_create (CCreateClaim (claim_name t (s_name s) ord), e)) by (eexists; reflexivity).
      destruct Hres as [[a ->]|[er ->]]; inversion E1; subst x s1.
      * destruct (IH _ _ _ _ E) as (new & H1 & H2 & b & H3 & H4 & H5). exists (new ++ [(CCreateClaim (claim_name t (s_name s) ord), e)]).
        split; [rewrite H1, Hl, <- app_assoc; reflexivity|]. split; [apply Forall_app; split; [exact H2 | constructor; [exact Hentry | constructor]]|].
        exists b. split; [exact H3|]. split.
        -- intros Hb. destruct (H4 Hb) as [Hf Hall]. split; [exact Hf|].
           apply Forall_app. split; [exact Hall|]. constructor; [cbn; apply (Hok a eq_refl) | constructor].
        -- intros Hb. destruct (H5 Hb) as [Hf|Hex]; [left; exact Hf | right; apply Exists_app; left; exact Hex].
      * destruct (IH _ _ _ _ E) as (new & H1 & H2 & b & H3 & H4 & H5). exists (new ++ [(CCreateClaim (claim_name t (s_name s) ord), e)]).
        split; [rewrite H1, Hl, <- app_assoc; reflexivity|]. split; [apply Forall_app; split; [exact H2 | constructor; [exact Hentry | constructor]]|].
        exists b. split; [exact H3|]. split.
        -- intros Hb. destruct (H4 Hb) as [Hf _]. discriminate.
        -- intros _. right. apply Exists_app. right. constructor. cbn. intros Hn. specialize (Hok' Hn). destruct Hok' as (a & w' & Ha & _). discriminate.
    + unfold try in E1. destruct (api_create_claim _ st) as [rc sc] eqn:Ec. unfold api_create_claim in Ec.
      destruct (call_api_entry _ _ _ _ _ Ec) as (e & Hl & _ & _ & Hres).
      destruct Hres as [[a ->]|[er ->]]; destruct r; inversion E1.
Qed.

(* every claim call precedes the pod create; a claim that cannot be created prevents the pod create and the
   failure is reported *)
Theorem create_stateful_pod_log s cache p st r st' :
  create_stateful_pod s cache p st = (r, st') ->
  exists claims podpart,
    rs_log st' = podpart ++ claims ++ rs_log st       (* newest first: the pod create is after every claim call *)
    /\ Forall is_claim_create claims
    /\ ((podpart = [] /\ (forall a, r <> Ok a) /\ Exists (fun e => snd e <> None) claims)
        \/ (exists e, podpart = [(CCreatePod (p_name p) (p_rev p) (p_tmpl p), e)] /\ Forall (fun e => snd e = None) claims)).
Proof.
  intros E. unfold create_stateful_pod, create_pvcs in E.
  apply bind_inv in E. destruct E as [(u & s1 & E1 & E)|[E1 Hno]].
  - apply bind_inv in E1. destruct E1 as [(b & s0 & E0 & E1)|[E0 Hno0]].
    + destruct (create_claims_log _ _ _ _ _ _ _ _ E0) as (new & H1 & H2 & b' & H3 & H4 & H5). inversion H3; subst b'.
      destruct b; [inversion E1|]. inversion E1; subst s1.
      destruct (H4 eq_refl) as [_ Hall].
      unfold api_create_pod in E. destruct (call_api_entry _ _ _ _ _ E) as (e & Hl & _).
      exists new, [(CCreatePod (p_name p) (p_rev p) (p_tmpl p), e)]. split; [rewrite Hl, H1; reflexivity|].
      split; [exact H2|]. right. exists e. split; [reflexivity | exact Hall].
    + destruct (create_claims_log _ _ _ _ _ _ _ _ E0) as (new & H1 & H2 & b' & H3 & H4 & H5). exfalso.
      destruct r; inversion E0; try discriminate; subst; discriminate.
  - apply bind_inv in E1. destruct E1 as [(b & s0 & E0 & E1)|[E0 Hno0]].
    + destruct (create_claims_log _ _ _ _ _ _ _ _ E0) as (new & H1 & H2 & b' & H3 & H4 & H5). inversion H3; subst b'.
      destruct b.
      * inversion E1 as [[Hr Hs]]. subst s0.
        exists new, []. split; [exact H1|]. split; [exact H2|]. left. split; [reflexivity|]. split; [exact Hno|].
        destruct (H5 eq_refl) as [Hf|Hex]; [discriminate | exact Hex].
      * inversion E1; subst. destruct r; discriminate.
    + destruct (create_claims_log _ _ _ _ _ _ _ _ E0) as (new & H1 & H2 & b' & H3 & H4 & H5). destruct r; inversion E0; discriminate.
Qed.

(* ---- (d) claims are never removed: every reconcile only grows the set of claims ---- *)
Definition claims_kept (w w' : world) : Prop := incl (w_claims w) (w_claims w').
Lemma ck_refl w : claims_kept w w. Proof. apply incl_refl. Qed.
Lemma ck_trans a b c : claims_kept a b -> claims_kept b c -> claims_kept a c.
Proof. unfold claims_kept. intros H1 H2. eapply incl_tran; eassumption. Qed.

Ltac ck_call :=
  apply (keeps_call _ ck_refl);
  let Hap := fresh "Hap" in
  intros ? ? ? Hap;
  repeat match type of Hap with
         | context [match ?e with _ => _ end] => destruct e
         | context [if ?e then _ else _] => destruct e
         end;
  cbv zeta in Hap; inversion Hap; subst; unfold claims_kept; cbn; try apply incl_refl; try (apply incl_appl; apply incl_refl).

Section ClaimsKept.
Variable hashes : list ((Z * Z) * string).
Local Notation K := (keeps claims_kept).

Lemma ck_list_revisions s : K (list_revisions s).
Proof. unfold list_revisions, api_list_revs. kpsimp ck_refl ck_trans; ck_call. Qed.
Lemma ck_sync_all : forall l, K (sync_all l).
Proof. induction l as [|r t IH]; cbn [sync_all]; kpsimp ck_refl ck_trans; try apply IH; unfold api_put_rev; ck_call. Qed.
Lemma ck_adopt s : K (adopt_orphan_revisions s).
Proof.
  unfold adopt_orphan_revisions. kpsimp ck_refl ck_trans; try apply ck_list_revisions; try apply ck_sync_all;
    try (unfold api_get_set; ck_call); try (unfold api_adopt_rev; ck_call).
Qed.
Lemma ck_ucr : forall fuel clone n last, K (update_controller_revision fuel clone n last).
Proof.
  induction fuel as [|f IH]; intros; cbn [update_controller_revision]; kpsimp ck_refl ck_trans; try apply IH;
    try (unfold api_put_rev; ck_call); try (unfold api_get_rev; ck_call).
Qed.
Lemma ck_ccr : forall fuel s r coll, K (create_controller_revision hashes fuel s r coll).
Proof.
  induction fuel as [|f IH]; intros; cbn [create_controller_revision]; kpsimp ck_refl ck_trans; try apply IH;
    try (unfold api_create_rev; ck_call); try (unfold api_get_rev; ck_call).
Qed.
Lemma ck_gsr s revs : K (get_set_revisions hashes s revs).
Proof. unfold get_set_revisions. kpsimp ck_refl ck_trans; try apply ck_ucr; try apply ck_ccr. Qed.
Lemma ck_create_claims s cache ord : forall ts failed, K (create_claims s cache ord ts failed).
Proof.
  induction ts as [|t rest IH]; intros; cbn [create_claims]; kpsimp ck_refl ck_trans; try apply IH; unfold api_create_claim; ck_call.
Qed.
Lemma ck_create_pvcs s cache p : K (create_pvcs s cache p).
Proof. unfold create_pvcs. kpsimp ck_refl ck_trans; try apply ck_create_claims. Qed.
Lemma ck_usp s cache : forall fuel p last, K (update_stateful_pod fuel s cache p last).
Proof.
  induction fuel as [|f IH]; intros; cbn [update_stateful_pod]; kpsimp ck_refl ck_trans;
    try apply ck_create_claims; try apply ck_create_pvcs; try apply IH; try (unfold api_update_pod; ck_call).
Qed.
Lemma ck_exec_act s cache a : K (exec_act s cache a).
Proof.
  destruct a; cbn [exec_act].
  - unfold create_stateful_pod. kpsimp ck_refl ck_trans; try apply ck_create_claims; try apply ck_create_pvcs; try (unfold api_create_pod; ck_call).
  - unfold api_delete_pod. ck_call.
  - apply ck_usp.
Qed.
Lemma ck_usr s st : forall fuel last, K (update_status_retry fuel s st last).
Proof. induction fuel as [|f IH]; intros; cbn [update_status_retry]; kpsimp ck_refl ck_trans; try apply IH; unfold api_update_status; ck_call. Qed.
Lemma ck_claim_pods s : forall pods memo failed, K (claim_pods s pods memo failed).
Proof.
  induction pods as [|p t IH]; intros; cbn [claim_pods]; [apply (keeps_ret _ ck_refl)|].
  kpsimp ck_refl ck_trans; try apply IH; try (unfold api_patch_pod; ck_call);
    try (unfold can_adopt, api_get_set; kpsimp ck_refl ck_trans; ck_call).
Qed.
Lemma ck_uss s cache pods : K (update_stateful_set hashes s cache pods).
Proof.
  unfold update_stateful_set.
  apply (keeps_bind _ ck_trans); [apply ck_list_revisions|]. intros revs0.
  apply (keeps_bind _ ck_trans); [apply ck_gsr|]. intros [[cur upd] coll]. cbv zeta.
  destruct (plan_pods s _ _ coll pods) as [po|]; [|apply (keeps_panic _ ck_refl)].
  apply (keeps_bind _ ck_trans); [apply (keeps_forM _ ck_refl ck_trans); intros a; apply ck_exec_act|]. intros _.
  apply (keeps_bind _ ck_trans).
  - unfold update_set_status. destruct (inconsistent_status _ _); [apply ck_usr | apply (keeps_ret _ ck_refl)].
  - intros _. unfold truncate_history. destruct (s_rhl s); [|apply (keeps_panic _ ck_refl)].
    destruct (_ <=? _); [apply (keeps_ret _ ck_refl)|]. apply (keeps_forM _ ck_refl ck_trans). intros q. unfold api_delete_rev. ck_call.
Qed.
Theorem sync_keeps_claims cache : K (sync hashes cache).
Proof.
  unfold sync. destruct (w_set cache) as [s|]; [|apply (keeps_ret _ ck_refl)].
  destruct (get_paused (s_pause s)); [apply (keeps_ret _ ck_refl)|].
  destruct (s_selector s); [|apply (keeps_ret _ ck_refl)].
  apply (keeps_bind _ ck_trans); [apply ck_adopt|]. intros _.
  apply (keeps_bind _ ck_trans); [apply ck_claim_pods|]. intros x.
  destruct (snd x); [apply (keeps_fail _ ck_refl) | apply ck_uss].
Qed.
End ClaimsKept.

Theorem reconcile_never_removes_a_claim hashes api cache faults o log w' :
  reconcile hashes api cache faults = (o, log, w') -> incl (w_claims api) (w_claims w').
Proof.
  unfold reconcile. destruct (sync hashes cache _) as [r st] eqn:E. intros H. inversion H; subst.
  exact (sync_keeps_claims hashes cache _ _ _ E).
Qed.
