(* C05 — OrderedReady: one pod at a time, predecessors healthy, scale-in from the top.
   Statements only. *)
From ASTS Require Import Base Slots Names World Reconcile PlanProofs ReconcileProofs ExampleWorld.

(* ordered_outcome s cur upd cnt slots claimed acts  (PlanProofs.v): the create/delete actions of the
   plan (filter is_cd acts; identity repairs are pod updates, not creates or deletes) are exactly one of
     OO_nothing  : none;
     OO_create i : one create, at desired ordinal i, and EVERY desired ordinal below i holds an observed pod
                   that is steady (created, not failed/succeeded, Running and Ready, not terminating);
     OO_replace i: a Failed/Succeeded observed pod at desired ordinal i deleted and its replacement created
                   (one ordinal), every desired ordinal below i steady;
     OO_scale_in c: one delete of an observed pod c outside the desired set; c has the HIGHEST ordinal among
                   all observed pods outside the desired set (terminating ones included, which would have
                   blocked), and EVERY desired ordinal holds a steady observed pod;
     OO_update u : one delete for update; NO observed pod is outside the desired set and every desired
                   ordinal holds a steady observed pod.                                               *)
Theorem C05_ordered_reconcile_touches_one_ordinal :
  forall cache s cur upd coll claimed po,
    ctx_valid cache (s, cur, upd, coll, claimed, po) -> allowsBurst s = false ->
    exists r cnt slots, s_replicas s = Some r /\ extend r (get_slots (s_slots s)) = (cnt, slots)
                        /\ ordered_outcome s cur upd cnt slots claimed (po_acts po).
Proof. exact ctx_ordered. Qed.
Print Assumptions C05_ordered_reconcile_touches_one_ordinal.

(* every pod-level call of the log of a reconcile comes from the action list of that one context *)
Theorem C05_log_follows_one_plan :
  forall hashes api cache faults o log w',
    reconcile hashes api cache faults = (o, log, w') ->
    exists oc, (forall c, oc = Some c -> ctx_valid cache c) /\ Forall (fun e => call_in cache oc (fst e)) log.
Proof. exact reconcile_ctx. Qed.
Print Assumptions C05_log_follows_one_plan.

(* non-vacuity: condemned pod web-1 (slot) below desired pods; OrderedReady creates web-3 first and
   deletes nothing in the same reconcile *)
Example C05_ex_one_at_a_time :
  filter (fun sh => String.prefix "create pods" sh || String.prefix "delete pods" sh)
         (map (fun e => shape_of (fst e))
              (ex_log (ex_set 3 (Some "[1]"%string) "OrderedReady" 1 0 (ex_status 3 "web-h1" "web-h1")) ex_healthy3 [ex_rev "web-h1" 1 1]))
  = ["create pods web-3"%string].
Proof. vm_compute. reflexivity. Qed.
