(* C03 — Only pods that must go are ever deleted; scale-in at slot k removes only pod k.
   Statements only.  Model: Reconcile.v (whole reconcile, any API state, any cache, any fault oracle). *)
From ASTS Require Import Base Slots Names World Reconcile PlanProofs ReconcileProofs ExampleWorld.

(* delete_reason s cur upd cnt slots claimed acts p   (PlanProofs.v) is the disjunction of the property:
   (a) DR_condemned: p is an observed pod whose ordinal is outside the desired set (in an effective
       delete slot or at/above the effective range) and it is not terminating;
   (b) DR_replace:   p is an observed desired pod in phase Failed/Succeeded and the plan continues
       IMMEDIATELY with the creation of a fresh pod at the same ordinal;
   (c) DR_update i:  strategy is not OnDelete, i is a desired ordinal >= max(partition,0), p is the pod
       at ordinal i, its revision differs from the update revision and it is not terminating (and every
       desired ordinal above i holds an observed healthy pod at the update revision).              *)

(* (1) every pod delete call of every reconcile — whatever the API state, the cache contents and the
   fault oracle — has one of the three reasons, with respect to the snapshot it reconciled (the
   claimed pods of the cache) *)
Theorem C03_every_delete_has_a_reason :
  forall hashes api cache faults o log w' n e,
    reconcile hashes api cache faults = (o, log, w') -> In (CDeletePod n, e) log ->
    exists s cur upd coll claimed po r cnt slots p,
      ctx_valid cache (s, cur, upd, coll, claimed, po)
      /\ s_replicas s = Some r /\ extend r (get_slots (s_slots s)) = (cnt, slots)
      /\ p_name p = n /\ delete_reason s cur upd cnt slots claimed (po_acts po) p.
Proof. exact reconcile_delete_justified. Qed.
Print Assumptions C03_every_delete_has_a_reason.

(* (2) a live pod of the desired set that is up to date is never planned for deletion *)
Theorem C03_up_to_date_desired_pod_is_kept :
  forall s cur upd cnt slots pods p,
    0 <= cnt -> In p pods -> in_range cnt slots (getOrdinal p) = true ->
    (isFailed p || isSucceeded p) = false -> rev_is p upd = true ->
    ~ In (ADelete p) (plan_acts s cur upd cnt slots pods).
Proof. exact plan_keeps_good_pods. Qed.
Print Assumptions C03_up_to_date_desired_pod_is_kept.

(* (3) putting ordinal k into delete-slots removes pod k and no other pod: when every other claimed pod
   is a desired, non-failed pod at the update revision (no rollout in progress), the only delete the
   planner can issue is the pod outside the desired set *)
Theorem C03_slot_k_removes_only_pod_k :
  forall s cur upd cnt slots pods pk,
    0 <= cnt -> ri_name cur = ri_name upd ->
    (forall q, In q pods -> q <> pk ->
               in_range cnt slots (getOrdinal q) = true /\ (isFailed q || isSucceeded q) = false /\ rev_is q upd = true) ->
    forall p, In (ADelete p) (plan_acts s cur upd cnt slots pods) -> p = pk.
Proof. exact plan_slot_only. Qed.
Print Assumptions C03_slot_k_removes_only_pod_k.

(* (4) the planner's action list is exactly what the reconcile executes: one context per reconcile *)
Theorem C03_log_follows_one_plan :
  forall hashes api cache faults o log w',
    reconcile hashes api cache faults = (o, log, w') ->
    exists oc, (forall c, oc = Some c -> ctx_valid cache c) /\ Forall (fun e => call_in cache oc (fst e)) log.
Proof. exact reconcile_ctx. Qed.
Print Assumptions C03_log_follows_one_plan.

(* non-vacuity: replicas 3 with slot 1 and three healthy pods — Parallel: web-3 is created and web-1,
   the pod in the slot, is the only pod deleted *)
Example C03_ex_slot :
  map (fun e => shape_of (fst e))
      (ex_log (ex_set 3 (Some "[1]"%string) "Parallel" 1 0 (ex_status 3 "web-h1" "web-h1")) ex_healthy3 [ex_rev "web-h1" 1 1])
  = ["list controllerrevisions selector"; "list controllerrevisions marker"; "list controllerrevisions selector";
     "list controllerrevisions marker"; "create pods web-3"; "delete pods web-1"; "update statefulsets/status"]%string.
Proof. vm_compute. reflexivity. Qed.
