(* Codec.v — executable model of the annotation codecs of
   client/apis/apps/v1/helper/helper.go: SetDeleteSlots, AddDeleteSlots, SetPausedReconcile
   (GetDeleteSlots / GetPausedReconcile are get_slots / get_paused of Slots.v).
   The annotation map is an association list with unique keys; None is the nil Go map.
   Definitions only. *)
From ASTS Require Import Base Slots.
Open Scope string_scope.

Definition slots_key : string := "delete-slots".
Definition pause_key : string := "paused-reconcile".

Definition alist := list (string * string).
Definition amap := option alist.

Fixpoint alookup (k : string) (l : alist) : option string :=
  match l with
  | [] => None
  | (k', v) :: t => if String.eqb k k' then Some v else alookup k t
  end.
(* delete(m, k) *)
Fixpoint aremove (k : string) (l : alist) : alist :=
  match l with
  | [] => []
  | (k', v) :: t => if String.eqb k k' then aremove k t else (k', v) :: aremove k t
  end.
(* m[k] = v *)
Fixpoint aset (k v : string) (l : alist) : alist :=
  match l with
  | [] => [(k, v)]
  | (k', v') :: t => if String.eqb k k' then (k, v) :: t else (k', v') :: aset k v t
  end.

Definition lookup (k : string) (a : amap) : option string :=
  match a with None => None | Some l => alookup k l end.
Definition keys (a : amap) : list string :=
  match a with None => [] | Some l => map fst l end.
Definition entries (a : amap) : alist := match a with None => [] | Some l => l end.

(* json.Marshal([]int32): "[" elements separated by "," "]", each element printed by strconv *)
Fixpoint print_elems (l : list Z) : string :=
  match l with
  | [] => "]"
  | z :: t => match t with
              | [] => dec z ++ "]"
              | _ => dec z ++ String ","%char (print_elems t)
              end
  end.
Definition print_slots (l : list Z) : string := String "["%char (print_elems l).

(* a sets.Int32 argument: None = nil set, Some l = the set of the members of l *)
Definition set_of (s : option (list Z)) : list Z :=
  match s with None => [] | Some l => norm l end.

(* SetDeleteSlots: nil or empty set deletes the key (delete on a nil map is a no-op and the map
   stays nil); otherwise the key is written, creating the map when it was nil. *)
Definition set_slots (a : amap) (s : option (list Z)) : amap :=
  match set_of s with
  | [] => match a with None => None | Some l => Some (aremove slots_key l) end
  | n => Some (aset slots_key (print_slots n) (entries a))
  end.

(* AddDeleteSlots: SetDeleteSlots(current ∪ s); a malformed current value reads as {} *)
Definition add_slots (a : amap) (s : option (list Z)) : amap :=
  set_slots a (Some (get_slots (lookup slots_key a) ++ match s with None => [] | Some l => l end)%list).

(* SetPausedReconcile: always materialises the map *)
Definition set_paused (a : amap) (b : bool) : amap :=
  Some (if b then aset pause_key "true" (entries a) else aremove pause_key (entries a)).

(* ---------- correspondence record (harness command `codec`) ------------------------------ *)
Inductive codec_op :=
| OpSet (s : option (list Z))
| OpAdd (s : option (list Z))
| OpPause (b : bool).

Definition codec_model (a : amap) (op : codec_op) : amap :=
  match op with
  | OpSet s => set_slots a s
  | OpAdd s => add_slots a s
  | OpPause b => set_paused a b
  end.

Definition ostr_eqb (a b : option string) : bool :=
  match a, b with
  | None, None => true
  | Some x, Some y => String.eqb x y
  | _, _ => false
  end.
(* equality of maps: same nil-ness, same number of entries, same value under every key *)
Definition amap_eqb (a b : amap) : bool :=
  match a, b with
  | None, None => true
  | Some la, Some lb =>
      Nat.eqb (List.length la) (List.length lb)
      && forallb (fun kv => ostr_eqb (alookup (fst kv) lb) (Some (snd kv))) la
      && forallb (fun kv => ostr_eqb (alookup (fst kv) la) (Some (snd kv))) lb
  | _, _ => false
  end.

Record codec_case := { cc_ann : amap; cc_op : codec_op;
                       cc_out : amap; cc_slots : list Z; cc_paused : bool }.
Definition codec_check (c : codec_case) : bool :=
  let m := codec_model (cc_ann c) (cc_op c) in
  amap_eqb m (cc_out c)
  && list_eqb (get_slots (lookup slots_key m)) (cc_slots c)
  && Bool.eqb (get_paused (lookup pause_key m)) (cc_paused c).
