(* C06 — Stable identity and storage per ordinal; claims come first and are never removed.
   Statements only. *)
From ASTS Require Import Base Slots Names NamesProofs World Reconcile MonadProofs OwnershipProofs PodControlProofs ExampleWorld.

(* (1) names: for EVERY set name S (dashes and digit runs inside included) and every ordinal in int32, the
   parser that decides membership and ordinal reads back exactly (S, i) from the printed pod name; hence the
   name is injective in the ordinal and the controller recognises the pods it creates *)
Theorem C06_name_round_trip : forall S i, 0 <= i <= max_i32 -> parse_name (pod_name S i) = (S, i).
Proof. exact parse_pod_name. Qed.
Print Assumptions C06_name_round_trip.

Theorem C06_names_injective : forall S i j, 0 <= i <= max_i32 -> 0 <= j <= max_i32 -> pod_name S i = pod_name S j -> i = j.
Proof. exact pod_name_injective. Qed.
Print Assumptions C06_names_injective.

(* (2) the pod built for ordinal i of set S from revision rn: name S-i, pod-name label S-i, revision label rn,
   controller reference to S by UID, and for every claim template T a volume named T bound to claim T-S-i;
   it passes the controller's own identity and storage tests.  (hostname S-i, subdomain = service and the
   preservation of the template's other volumes are fields outside the model: checked on every pod create of
   the real controller by the harness, `ident` flag.) *)
Theorem C06_new_pod_identity_and_storage : forall s i rn tm,
  0 <= i <= max_i32 -> NoDup (s_claims s) ->
  let p := new_pod s i rn tm in
  p_name p = pod_name (s_name s) i /\ p_namelabel p = Some (pod_name (s_name s) i) /\ p_rev p = rn
  /\ p_owner p = Some (me s) /\ p_tmpl p = tm
  /\ getOrdinal p = i /\ isMemberOf s p = true
  /\ (forall t, In t (s_claims s) ->
        lookup_vol t (p_vols p) = Some {| v_name := t; v_claim := Some (claim_name t (s_name s) i) |})
  /\ identityMatches s p = true /\ storageMatches s p = true.
Proof. exact new_pod_identity. Qed.
Print Assumptions C06_new_pod_identity_and_storage.

(* (3) claims come first: for every claim list, claim cache and fault oracle, in the log of CreateStatefulPod
   every claim call precedes the pod create; if any claim creation fails there is NO pod create and the
   result is an error; the pod create happens only after every claim call succeeded *)
Theorem C06_claims_before_pod : forall s cache p st r st',
  create_stateful_pod s cache p st = (r, st') ->
  exists claims podpart,
    rs_log st' = podpart ++ claims ++ rs_log st
    /\ Forall is_claim_create claims
    /\ ((podpart = [] /\ (forall a, r <> Ok a) /\ Exists (fun e => snd e <> None) claims)
        \/ (exists e, podpart = [(CCreatePod (p_name p) (p_rev p) (p_tmpl p), e)] /\ Forall (fun e => snd e = None) claims)).
Proof. exact create_stateful_pod_log. Qed.
Print Assumptions C06_claims_before_pod.

(* (4) claims are never removed or rewritten: the call type has one constructor on claims (create), and for
   every API state, cache and oracle the claims present before a reconcile are present after it; by (2) a pod
   created for ordinal i at ANY time is bound to the same claim names, so scale-in then scale-out of i
   re-binds the same claims *)
Theorem C06_claims_are_never_removed : forall hashes api cache faults o log w',
  reconcile hashes api cache faults = (o, log, w') -> incl (w_claims api) (w_claims w').
Proof. exact reconcile_never_removes_a_claim. Qed.
Print Assumptions C06_claims_are_never_removed.

(* non-vacuity: a set name full of dashes and digits *)
Example C06_ex_name : parse_name (pod_name "web-1-db-07" 12) = ("web-1-db-07"%string, 12).
Proof. vm_compute. reflexivity. Qed.
Example C06_ex_claims_first :
  map (fun e => shape_of (fst e))
      (ex_log (ex_set 1 None "OrderedReady" 1 0 (ex_status 0 "web-h1" "web-h1")) [] [ex_rev "web-h1" 1 1])
  = ["list controllerrevisions selector"; "list controllerrevisions marker"; "list controllerrevisions selector";
     "list controllerrevisions marker"; "create pods web-0"; "update statefulsets/status"]%string.
Proof. vm_compute. reflexivity. Qed.
