(* FaultProofs.v — a failure at any API call is reported (C09): a reconcile that returns success has seen
   only the enumerated benign errors; the executor stops at the first failing action. *)
From ASTS Require Import Base Slots Names World Reconcile MonadProofs PlanProofs ReconcileProofs OwnershipProofs.

(* the errors a successful reconcile may have met, each with the reason why nothing is left undone:
   - NotFound on an adopt / release patch, Invalid on a release patch: the pod vanished or is no longer ours;
   - AlreadyExists on a revision create: the collision loop reads the existing one and reuses it or moves on;
   - Conflict on a status / pod / revision update: retried within the reconcile (success needs a later good attempt);
   - any error of the re-read after a conflicting revision update (the code ignores it and retries). *)
Definition benign (e : call * option errkind) : Prop :=
  match snd e with
  | None => True
  | Some k =>
      match fst e, k with
      | CPatchPod _ _, ENotFound => True
      | CPatchPod _ false, EInvalid => True
      | CCreateRev _ _ _, EExists => True
      | CUpdateStatus _ _, EConflict => True
      | CUpdatePod _, EConflict => True
      | CUpdateRev _ _ _, EConflict => True
      | CGetRev _, _ => True
      | _, _ => False
      end
  end.

Definition okb {A} (m : M A) : Prop :=
  forall st a st', m st = (Ok a, st') -> exists new, rs_log st' = new ++ rs_log st /\ Forall benign new.
(* for programs that carry a "some error was collected" flag: benign only when the flag comes out false *)
Definition okb_flag {A} (proj : A -> bool) (m : M A) : Prop :=
  forall st a st', m st = (Ok a, st') -> proj a = false -> exists new, rs_log st' = new ++ rs_log st /\ Forall benign new.

Lemma okb_ret {A} (a : A) : okb (ret a).
Proof. intros st b st' E. inversion E; subst. exists []. split; [reflexivity | constructor]. Qed.
Lemma okb_fail {A} e : okb (@fail A e). Proof. intros st b st' E. inversion E. Qed.
Lemma okb_panic {A} p : okb (@panic A p). Proof. intros st b st' E. inversion E. Qed.
Lemma okb_fuel {A} : okb (@out_of_fuel A). Proof. intros st b st' E. inversion E. Qed.
Lemma okb_bind {A B} (m : M A) (f : A -> M B) : okb m -> (forall a, okb (f a)) -> okb (bind m f).
Proof.
  intros Hm Hf st b st' E. apply bind_inv in E. destruct E as [(a & s1 & E1 & E)|[_ Hno]]; [|exfalso; eapply Hno; reflexivity].
  destruct (Hm _ _ _ E1) as (n1 & L1 & F1). destruct (Hf a _ _ _ E) as (n2 & L2 & F2).
  exists (n2 ++ n1). split; [rewrite L2, L1, app_assoc; reflexivity | apply Forall_app; split; assumption].
Qed.
Lemma okb_call {A} c (ap : world -> (A + errkind) * world) : okb (call_api c ap).
Proof.
  intros st a st' E. destruct (call_api_entry _ _ _ _ _ E) as (e & Hl & _ & Hok & _).
  exists [(c, e)]. split; [exact Hl|]. constructor; [|constructor]. rewrite (Hok a eq_refl). exact I.
Qed.
Lemma okb_forM {A} (l : list A) (f : A -> M unit) : (forall x, okb (f x)) -> okb (forM l f).
Proof. intros H. induction l as [|x t IH]; cbn [forM]; [apply okb_ret|]. apply okb_bind; [apply H | intros _; exact IH]. Qed.

(* x <- try (one call) ;; f x : the continuation of a non-benign error must not return success *)
Definition never_ok {A} (m : M A) : Prop := forall st a st', m st <> (Ok a, st').
Lemma never_ok_fail {A} e : never_ok (@fail A e). Proof. intros st a st' E. inversion E. Qed.

Lemma okb_try_call {A B} c (ap : world -> (A + errkind) * world) (f : A + errkind -> M B) :
  (forall a, okb (f (inl a))) ->
  (forall e, benign (c, Some e) -> okb (f (inr e))) ->
  (forall e, ~ benign (c, Some e) -> never_ok (f (inr e))) ->
  okb (bind (try (call_api c ap)) f).
Proof.
  intros Hl Hb Hn st b st' E. apply bind_inv in E. destruct E as [(x & s1 & E1 & E)|[_ Hno]]; [|exfalso; eapply Hno; reflexivity].
  unfold try in E1. destruct (call_api c ap st) as [rc sc] eqn:Ec.
  destruct (call_api_entry _ _ _ _ _ Ec) as (e & Hlog & _ & Hok & Hres).
  destruct Hres as [[a ->]|[er ->]]; inversion E1; subst x s1.
  - destruct (Hl a _ _ _ E) as (n2 & L2 & F2). exists (n2 ++ [(c, e)]).
    split; [rewrite L2, Hlog, <- app_assoc; reflexivity|]. apply Forall_app. split; [exact F2|].
    constructor; [|constructor]. rewrite (Hok a eq_refl). exact I.
  - (* which error did the call log?  the one it returned *)
    assert (He : e = Some er) by (pose proof (call_api_err _ _ _ _ _ Ec) as Hx; rewrite Hlog in Hx; inversion Hx; reflexivity).
    subst e.
    assert (Hdec : benign (c, Some er) \/ ~ benign (c, Some er)).
    { unfold benign. cbn [fst snd]. destruct c; destruct er; try (left; exact I); try (right; intros []);
        try (match goal with |- context [if ?b then _ else _] => destruct b end; try (left; exact I); try (right; intros [])).
      all: try (destruct adopt; [right; intros [] | left; exact I]). }
    destruct Hdec as [Hben|Hnb]; [|exfalso; eapply (Hn er Hnb); exact E].
    destruct (Hb er Hben _ _ _ E) as (n2 & L2 & F2). exists (n2 ++ [(c, Some er)]).
    split; [rewrite L2, Hlog, <- app_assoc; reflexivity|]. apply Forall_app. split; [exact F2|]. constructor; [exact Hben | constructor].
Qed.

Section Reported.
Variable hashes : list ((Z * Z) * string).

Lemma okb_list_revisions s : okb (list_revisions s).
Proof.
  unfold list_revisions, api_list_revs. apply okb_bind; [apply okb_call|]. intros l1.
  apply okb_bind; [apply okb_call|]. intros l2. apply okb_ret.
Qed.
Lemma okb_sync_all : forall l, okb (sync_all l).
Proof.
  induction l as [|r t IH]; cbn [sync_all]; [apply okb_ret|].
  apply okb_bind; [destruct (should_sync r); [unfold api_put_rev; apply okb_call | apply okb_ret]|].
  intros r'. apply okb_bind; [apply IH | intros t'; apply okb_ret].
Qed.
Lemma okb_adopt s : okb (adopt_orphan_revisions s).
Proof.
  unfold adopt_orphan_revisions. apply okb_bind; [apply okb_list_revisions|]. intros revs.
  destruct (_ && _); [|apply okb_ret].
  apply okb_bind; [unfold api_get_set; apply okb_call|]. intros fresh.
  destruct (negb _); [apply okb_fail|]. destruct (s_deleting fresh); [apply okb_fail|].
  apply okb_bind; [apply okb_sync_all|]. intros revs'. apply okb_forM. intros r.
  apply okb_bind; [unfold api_adopt_rev; apply okb_call | intros _; apply okb_ret].
Qed.

Lemma okb_ucr : forall fuel clone n last, okb (update_controller_revision fuel clone n last).
Proof.
  induction fuel as [|f IH]; intros clone n last; cbn [update_controller_revision]; [apply okb_fail|].
  destruct (r_revision clone =? n); [apply okb_ret|].
  unfold api_put_rev. apply okb_try_call.
  - intros a. apply okb_ret.
  - intros e Hb. (* benign: conflict -> re-read (any outcome is benign) and retry *)
    apply okb_bind.
    + unfold api_get_rev. intros st x st' E. unfold try in E.
      destruct (call_api _ _ st) as [rc sc] eqn:Ec. destruct (call_api_entry _ _ _ _ _ Ec) as (e0 & Hl & _).
      destruct rc; inversion E; subst; exists [(CGetRev (r_name (set_revision clone n)), e0)]; (split; [exact Hl|]);
        (constructor; [unfold benign; cbn; destruct e0; exact I | constructor]).
    + intros g. destruct (is_conflict e); [apply IH | apply okb_fail].
  - intros e Hnb st a st' E. apply bind_inv in E. destruct E as [(g & s1 & _ & E)|[_ Hno]]; [|eapply Hno; reflexivity].
    assert (is_conflict e = false).
    { destruct e; try reflexivity. exfalso. apply Hnb. exact I. }
    rewrite H in E. inversion E.
Qed.

Lemma okb_ccr : forall fuel s r coll, okb (create_controller_revision hashes fuel s r coll).
Proof.
  induction fuel as [|f IH]; intros s r coll; cbn [create_controller_revision]; [apply okb_fuel|].
  destruct (hash_of hashes (r_tmpl r) coll); [|apply okb_fuel].
  unfold api_create_rev. apply okb_try_call.
  - intros a. apply okb_ret.
  - intros e Hb. destruct e; try apply okb_fail.
    apply okb_bind; [unfold api_get_rev; apply okb_call|]. intros ex. destruct (_ =? _); [apply okb_ret | apply IH].
  - intros e Hnb. destruct e; try apply never_ok_fail. exfalso. apply Hnb. exact I.
Qed.

Lemma okb_gsr s revs : okb (get_set_revisions hashes s revs).
Proof.
  unfold get_set_revisions. destruct (hash_of hashes (s_tmpl s) _); [|apply okb_fuel].
  apply okb_bind.
  - destruct (last_opt _); [destruct (last_opt revs)|]; try apply okb_ccr.
    destruct (equal_revision _ _); [apply okb_ret|]. apply okb_bind; [apply okb_ucr | intros u; apply okb_ret].
  - intros [upd coll]. apply okb_ret.
Qed.

(* claims: the flag is raised by every error *)
Lemma create_claims_flag s cache ord : forall ts failed st b st',
  create_claims s cache ord ts failed st = (Ok b, st') ->
  (failed = true -> b = true) /\ (b = false -> exists new, rs_log st' = new ++ rs_log st /\ Forall benign new).
Proof.
  induction ts as [|t rest IH]; intros failed st b st' E; cbn [create_claims] in E.
  - inversion E; subst. split; [auto|]. intros _. exists []. split; [reflexivity | constructor].
  - destruct (smemb _ _); [eapply IH; exact E|].
    apply bind_inv in E. destruct E as [(x & s1 & E1 & E)|[_ Hno]]; [|exfalso; eapply Hno; reflexivity].
    unfold try in E1. destruct (api_create_claim _ st) as [rc sc] eqn:Ec. unfold api_create_claim in Ec.
    destruct (call_api_entry _ _ _ _ _ Ec) as (e & Hl & _ & Hok & Hres).
    destruct Hres as [[a ->]|[er ->]]; inversion E1; subst x s1.
    + destruct (IH _ _ _ _ E) as [H1 H2]. split; [exact H1|]. intros Hb. destruct (H2 Hb) as (new & L & F).
      exists (new ++ [(CCreateClaim (claim_name t (s_name s) ord), e)]). split; [rewrite L, Hl, <- app_assoc; reflexivity|].
      apply Forall_app. split; [exact F|]. constructor; [|constructor]. rewrite (Hok a eq_refl). exact I.
    + destruct (IH _ _ _ _ E) as [H1 H2]. split; [intros _; apply H1; reflexivity|].
      intros Hb. rewrite (H1 eq_refl) in Hb. discriminate.
Qed.
Lemma okb_create_pvcs s cache p : okb (create_pvcs s cache p).
Proof.
  unfold create_pvcs. intros st a st' E. apply bind_inv in E. destruct E as [(b & s1 & E1 & E)|[_ Hno]]; [|exfalso; eapply Hno; reflexivity].
  destruct b; [inversion E|]. inversion E; subst. destruct (create_claims_flag _ _ _ _ _ _ _ _ E1) as [_ H]. apply H. reflexivity.
Qed.

Lemma okb_usp s cache : forall fuel p last, okb (update_stateful_pod fuel s cache p last).
Proof.
  induction fuel as [|f IH]; intros p last; cbn [update_stateful_pod]; [apply okb_fail|].
  apply okb_bind; [destruct (storageMatches _ _); [apply okb_ret | apply okb_create_pvcs]|]. intros _.
  destruct (_ && _); [apply okb_ret|]. unfold api_update_pod. apply okb_try_call.
  - intros a. apply okb_ret.
  - intros e Hb. destruct (is_conflict e); [apply IH | apply okb_fail].
  - intros e Hnb. assert (is_conflict e = false) by (destruct e; try reflexivity; exfalso; apply Hnb; exact I).
    rewrite H. apply never_ok_fail.
Qed.
Lemma okb_exec_act s cache a : okb (exec_act s cache a).
Proof.
  destruct a; cbn [exec_act].
  - unfold create_stateful_pod. apply okb_bind; [apply okb_create_pvcs | intros _; unfold api_create_pod; apply okb_call].
  - unfold api_delete_pod. apply okb_call.
  - apply okb_usp.
Qed.
Lemma okb_usr s st : forall fuel last, okb (update_status_retry fuel s st last).
Proof.
  induction fuel as [|f IH]; intros last; cbn [update_status_retry]; [apply okb_fail|].
  unfold api_update_status. apply okb_try_call.
  - intros a. apply okb_ret.
  - intros e Hb. destruct (is_conflict e); [apply IH | apply okb_fail].
  - intros e Hnb. assert (is_conflict e = false) by (destruct e; try reflexivity; exfalso; apply Hnb; exact I).
    rewrite H. apply never_ok_fail.
Qed.
Lemma okb_uss s cache pods : okb (update_stateful_set hashes s cache pods).
Proof.
  unfold update_stateful_set. apply okb_bind; [apply okb_list_revisions|]. intros revs0.
  apply okb_bind; [apply okb_gsr|]. intros [[cur upd] coll]. cbv zeta.
  destruct (plan_pods s _ _ coll pods); [|apply okb_panic].
  apply okb_bind; [apply okb_forM; intros a; apply okb_exec_act|]. intros _.
  apply okb_bind.
  - unfold update_set_status. destruct (inconsistent_status _ _); [apply okb_usr | apply okb_ret].
  - intros _. unfold truncate_history. destruct (s_rhl s); [|apply okb_panic]. destruct (_ <=? _); [apply okb_ret|].
    apply okb_forM. intros q. unfold api_delete_rev. apply okb_call.
Qed.

(* ClaimPods: every error other than the benign ones raises the flag *)
Lemma claim_pods_flag s : forall pods memo failed st x st',
  claim_pods s pods memo failed st = (Ok x, st') ->
  (failed = true -> snd x = true)
  /\ (snd x = false -> exists new, rs_log st' = new ++ rs_log st /\ Forall benign new).
Proof.
  induction pods as [|p t IH]; intros memo failed st x st' E; cbn [claim_pods] in E.
  - inversion E; subst. cbn [snd]. split; [auto|]. intros _. exists []. split; [reflexivity | constructor].
  - assert (Hext : forall (s0 s1 : rstate) e0 c0, rs_log s0 = (c0, e0) :: rs_log st -> benign (c0, e0) ->
              forall new, rs_log s1 = new ++ rs_log s0 -> Forall benign new ->
              exists new', rs_log s1 = new' ++ rs_log st /\ Forall benign new').
    { intros s0 s1 e0 c0 H0 Hb new H1 F. exists (new ++ [(c0, e0)]). split; [rewrite H1, H0, <- app_assoc; reflexivity|].
      apply Forall_app. split; [exact F | constructor; [exact Hb | constructor]]. }
    destruct (p_owner p) as [o|].
    + destruct (negb (owner_uid_is s (Some o))); [eapply IH; exact E|].
      destruct (p_match p && isMemberOf s p).
      * apply bind_inv in E. destruct E as [(y & s1 & E1 & E)|[_ Hno]]; [|exfalso; eapply Hno; reflexivity].
        inversion E; subst. cbn [snd]. eapply IH. exact E1.
      * destruct (s_deleting s); [eapply IH; exact E|].
        apply bind_inv in E. destruct E as [(y & s1 & E1 & E)|[_ Hno]]; [|exfalso; eapply Hno; reflexivity].
        unfold try in E1. destruct (api_patch_pod s (p_name p) false st) as [rp sp] eqn:Ep. unfold api_patch_pod in Ep.
        destruct (call_api_entry _ _ _ _ _ Ep) as (e & Hl & _ & Hok & Hres).
        destruct Hres as [[a ->]|[er ->]]; inversion E1; subst y s1.
        -- destruct (IH _ _ _ _ _ E) as [H1 H2]. split; [exact H1|]. intros Hx. destruct (H2 Hx) as (new & L & F).
           eapply Hext; [exact Hl | rewrite (Hok a eq_refl); exact I | exact L | exact F].
        -- pose proof (call_api_err _ _ _ _ _ Ep) as Hle.
           destruct er; destruct (IH _ _ _ _ _ E) as [H1 H2];
             try (split; [exact H1|]; intros Hx; destruct (H2 Hx) as (new & L & F); eapply Hext; [exact Hle | exact I | exact L | exact F]);
             (split; [intros _; apply H1; reflexivity|]; intros Hx; rewrite (H1 eq_refl) in Hx; discriminate).
    + destruct (s_deleting s || negb (p_match p && isMemberOf s p)); [eapply IH; exact E|].
      destruct (p_term p); [eapply IH; exact E|].
      apply bind_inv in E. destruct E as [([ok memo'] & s1 & E1 & E)|[_ Hno]]; [|exfalso; eapply Hno; reflexivity].
      destruct (can_adopt_spec _ _ _ _ _ E1) as [(Hmn & -> & Hr)|(-> & e & ok' & Hl & Hr & Hok)].
      * inversion Hr; subst. destruct memo as [b|]; [|congruence]. destruct b; cbn [negb] in E.
        -- apply bind_inv in E. destruct E as [(y & s2 & E2 & E)|[_ Hno]]; [|exfalso; eapply Hno; reflexivity].
           unfold try in E2. destruct (api_patch_pod s (p_name p) true st) as [rp sp] eqn:Ep. unfold api_patch_pod in Ep.
           destruct (call_api_entry _ _ _ _ _ Ep) as (e & Hl & _ & Hok' & Hres).
           destruct Hres as [[a ->]|[er ->]]; inversion E2; subst y s2.
           ++ apply bind_inv in E. destruct E as [(z & s3 & E3 & E)|[_ Hno]]; [|exfalso; eapply Hno; reflexivity].
              inversion E; subst. cbn [snd]. destruct (IH _ _ _ _ _ E3) as [H1 H2]. split; [exact H1|].
              intros Hx. destruct (H2 Hx) as (new & L & F). eapply Hext; [exact Hl | rewrite (Hok' a eq_refl); exact I | exact L | exact F].
           ++ pose proof (call_api_err _ _ _ _ _ Ep) as Hle.
              destruct er; destruct (IH _ _ _ _ _ E) as [H1 H2];
                try (split; [exact H1|]; intros Hx; destruct (H2 Hx) as (new & L & F); eapply Hext; [exact Hle | exact I | exact L | exact F]);
                (split; [intros _; apply H1; reflexivity|]; intros Hx; rewrite (H1 eq_refl) in Hx; discriminate).
        -- destruct (IH _ _ _ _ _ E) as [H1 H2]. split; [intros _; apply H1; reflexivity|].
           intros Hx. rewrite (H1 eq_refl) in Hx. discriminate.
      * inversion Hr; subst ok' memo'. destruct ok; cbn [negb] in E.
        -- destruct (Hok eq_refl) as [-> _].
           apply bind_inv in E. destruct E as [(y & s2 & E2 & E)|[_ Hno]]; [|exfalso; eapply Hno; reflexivity].
           unfold try in E2. destruct (api_patch_pod s (p_name p) true s1) as [rp sp] eqn:Ep. unfold api_patch_pod in Ep.
           destruct (call_api_entry _ _ _ _ _ Ep) as (e & Hl2 & _ & Hok' & Hres).
           assert (Hext2 : forall s3 new e2, rs_log sp = (CPatchPod (p_name p) true, e2) :: rs_log s1 -> benign (CPatchPod (p_name p) true, e2) ->
                     rs_log s3 = new ++ rs_log sp -> Forall benign new ->
                     exists new', rs_log s3 = new' ++ rs_log st /\ Forall benign new').
           { intros s3 new e2 Hs Hb L F. exists (new ++ [(CPatchPod (p_name p) true, e2); (CGetSet, None)]).
             split; [rewrite L, Hs, Hl, <- app_assoc; reflexivity|]. apply Forall_app. split; [exact F|].
             constructor; [exact Hb | constructor; [exact I | constructor]]. }
           destruct Hres as [[a ->]|[er ->]]; inversion E2; subst y s2.
           ++ apply bind_inv in E. destruct E as [(z & s3 & E3 & E)|[_ Hno]]; [|exfalso; eapply Hno; reflexivity].
              inversion E; subst. cbn [snd]. destruct (IH _ _ _ _ _ E3) as [H1 H2]. split; [exact H1|].
              intros Hx. destruct (H2 Hx) as (new & L & F). eapply Hext2; [exact Hl2 | rewrite (Hok' a eq_refl); exact I | exact L | exact F].
           ++ pose proof (call_api_err _ _ _ _ _ Ep) as Hle.
              destruct er; destruct (IH _ _ _ _ _ E) as [H1 H2];
                try (split; [exact H1|]; intros Hx; destruct (H2 Hx) as (new & L & F); eapply Hext2; [exact Hle | exact I | exact L | exact F]);
                (split; [intros _; apply H1; reflexivity|]; intros Hx; rewrite (H1 eq_refl) in Hx; discriminate).
        -- destruct (IH _ _ _ _ _ E) as [H1 H2]. split; [intros _; apply H1; reflexivity|].
           intros Hx. rewrite (H1 eq_refl) in Hx. discriminate.
Qed.

Theorem sync_okb cache : okb (sync hashes cache).
Proof.
  unfold sync. destruct (w_set cache) as [s|]; [|apply okb_ret].
  destruct (get_paused (s_pause s)); [apply okb_ret|]. destruct (s_selector s); [|apply okb_ret].
  apply okb_bind; [apply okb_adopt|]. intros _.
  intros st a st' E. apply bind_inv in E. destruct E as [(x & s1 & E1 & E)|[_ Hno]]; [|exfalso; eapply Hno; reflexivity].
  destruct (claim_pods_flag _ _ _ _ _ _ _ E1) as [_ H2].
  destruct (snd x) eqn:Hx; [inversion E|].
  destruct (H2 eq_refl) as (n1 & L1 & F1). destruct (okb_uss _ _ _ _ _ _ E) as (n2 & L2 & F2).
  exists (n2 ++ n1). split; [rewrite L2, L1, app_assoc; reflexivity | apply Forall_app; split; assumption].
Qed.
End Reported.

(* a reconcile that reports success has met only benign errors: contrapositive — any other failing call
   makes the reconcile report failure (so the worker re-queues the key with back-off, C16) *)
Theorem reconcile_success_only_benign_errors hashes api cache faults log w' :
  reconcile hashes api cache faults = (OOk, log, w') -> Forall benign log.
Proof.
  unfold reconcile. destruct (sync hashes cache _) as [r st] eqn:E. intros H. inversion H as [[Ho Hl Hw]].
  destruct r as [a|e|p|]; cbn in Ho; try discriminate.
  destruct (sync_okb hashes cache _ _ _ E) as (new & L & F). cbn in L. rewrite app_nil_r in L. rewrite L.
  apply Forall_rev. exact F.
Qed.

(* the executor stops at the first failing action: the actions executed are a prefix of the plan *)
Lemma forM_prefix {A} (f : A -> M unit) : forall l st r st',
  forM l f st = (r, st') ->
  (r = Ok tt) \/ (exists pre x post, l = pre ++ x :: post /\ forall a, r <> Ok a).
Proof.
  induction l as [|x t IH]; intros st r st' E; cbn [forM] in E.
  - inversion E; subst. left. reflexivity.
  - apply bind_inv in E. destruct E as [(u & s1 & E1 & E)|[E1 Hno]].
    + destruct (IH _ _ _ E) as [Hr|(pre & y & post & Hl & Hn)]; [left; exact Hr|].
      right. exists (x :: pre), y, post. split; [rewrite Hl; reflexivity | exact Hn].
    + right. exists [], x, t. split; [reflexivity | exact Hno].
Qed.
