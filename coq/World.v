(* World.v — abstract Kubernetes objects, API calls and the state/error monad of the
   reconcile model.  Definitions only. *)
From ASTS Require Import Base Slots Names.

Record owner := { o_kind : string; o_name : string; o_uid : string }.

Record status := { st_replicas : Z; st_ready : Z; st_current : Z; st_updated : Z;
                   st_currev : string; st_updrev : string; st_obsgen : Z; st_coll : option Z }.

Inductive sel_kind := SelOk | SelInvalid.

Record sset := {
  s_name : string; s_uid : string; s_gen : Z; s_deleting : bool;
  s_slots : option string;            (* raw delete-slots annotation *)
  s_pause : option string;            (* raw paused-reconcile annotation *)
  s_replicas : option Z;              (* *int32 *)
  s_selector : sel_kind;
  s_policy : string; s_strategy : string;
  s_rolling : option (option Z);      (* rollingUpdate block present / partition present *)
  s_tmpl : Z;                         (* pod template, up to equality of its encoding *)
  s_claims : list string;             (* names of the volumeClaimTemplates *)
  s_service : string; s_rhl : option Z;
  s_status : status; s_rv : Z }.

Record vol := { v_name : string; v_claim : option string }.

Record pod := {
  p_name : string;
  p_match : bool;                     (* labels match the set's selector *)
  p_owner : option owner;             (* the controller owner reference *)
  p_phase : string; p_ready : bool; p_term : bool;
  p_rev : string;                     (* controller-revision-hash label, "" when absent *)
  p_namelabel : option string;        (* statefulset.kubernetes.io/pod-name label *)
  p_vols : list vol;
  p_tmpl : Z }.

Record rev := {
  r_name : string; r_revision : Z; r_tmpl : Z;
  r_owner : option owner;
  r_match : bool;                     (* carries the selector labels *)
  r_marker : option string;           (* upgrade marker label value *)
  r_hash : option string;             (* controller.kubernetes.io/hash label *)
  r_created : Z; r_labels_nil : bool }.

Record world := { w_set : option sset; w_pods : list pod; w_revs : list rev; w_claims : list string }.

(* ---------------- API calls as they appear in the log -------------------------------------- *)
Inductive call :=
| CListRevs (marker : bool)
| CGetSet
| CPatchRev (name : string)
| CPatchPod (name : string) (adopt : bool)
| CCreateRev (name : string) (revision : Z) (tmpl : Z)
| CGetRev (name : string)
| CUpdateRev (name : string) (revision : Z) (sel_labels : bool)
| CDeletePod (name : string)
| CCreateClaim (name : string)
| CCreatePod (name : string) (revlabel : string) (tmpl : Z)
| CUpdatePod (name : string)
| CUpdateStatus (st : status) (rv : Z)
| CDeleteRev (name : string).

Inductive errkind := E500 | EConflict | ENotFound | EExists | EInvalid | ETimeout | EOther.
Inductive fkind := F500 | FConflict | FNotFound | FExists | FInvalid | FTimeout | FTimeoutApplied.
Definition err_of_fault (f : fkind) : errkind :=
  match f with F500 => E500 | FConflict => EConflict | FNotFound => ENotFound | FExists => EExists
             | FInvalid => EInvalid | FTimeout | FTimeoutApplied => ETimeout end.

(* a fault is addressed by the index of the call within the reconcile, or by the call's
   (verb/resource/name) shape; each fault fires once *)
Inductive fault_addr := FAt (n : nat) | FOn (shape : string).
Definition fault := (fault_addr * fkind)%type.

Inductive res (A : Type) := Ok (a : A) | Err (e : errkind) | Panic (site : string) | OutOfFuel.
Arguments Ok {A}. Arguments Err {A}. Arguments Panic {A}. Arguments OutOfFuel {A}.

Record rstate := { rs_api : world; rs_log : list (call * option errkind);   (* newest first *)
                   rs_n : nat; rs_faults : list fault }.

Definition M (A : Type) := rstate -> res A * rstate.
Definition ret {A} (a : A) : M A := fun s => (Ok a, s).
Definition fail {A} (e : errkind) : M A := fun s => (Err e, s).
Definition panic {A} (site : string) : M A := fun s => (Panic site, s).
Definition out_of_fuel {A} : M A := fun s => (OutOfFuel, s).
Definition bind {A B} (m : M A) (f : A -> M B) : M B := fun s =>
  match m s with
  | (Ok a, s') => f a s'
  | (Err e, s') => (Err e, s')
  | (Panic p, s') => (Panic p, s')
  | (OutOfFuel, s') => (OutOfFuel, s')
  end.
Notation "x <- m ;; f" := (bind m (fun x => f)) (at level 61, m at next level, right associativity).
Notation "m ;;; f" := (bind m (fun _ => f)) (at level 61, right associativity).
(* run m and hand its outcome (success or API error) to the continuation *)
Definition try {A} (m : M A) : M (A + errkind) := fun s =>
  match m s with
  | (Ok a, s') => (Ok (inl a), s')
  | (Err e, s') => (Ok (inr e), s')
  | (Panic p, s') => (Panic p, s')
  | (OutOfFuel, s') => (OutOfFuel, s')
  end.

Fixpoint forM {A} (l : list A) (f : A -> M unit) : M unit :=
  match l with
  | [] => ret tt
  | x :: t => f x ;;; forM t f
  end.

(* shape of a call for FOn addressing: "verb resource name" *)
Definition shape_of (c : call) : string :=
  match c with
  | CListRevs m => if m then "list controllerrevisions marker" else "list controllerrevisions selector"
  | CGetSet => "get statefulsets"
  | CPatchRev n => "patch controllerrevisions " +++ n
  | CPatchPod n _ => "patch pods " +++ n
  | CCreateRev n _ _ => "create controllerrevisions " +++ n
  | CGetRev n => "get controllerrevisions " +++ n
  | CUpdateRev n _ _ => "update controllerrevisions " +++ n
  | CDeletePod n => "delete pods " +++ n
  | CCreateClaim n => "create persistentvolumeclaims " +++ n
  | CCreatePod n _ _ => "create pods " +++ n
  | CUpdatePod n => "update pods " +++ n
  | CUpdateStatus _ _ => "update statefulsets/status"
  | CDeleteRev n => "delete controllerrevisions " +++ n
  end.

Definition fault_hits (n : nat) (c : call) (f : fault) : bool :=
  match fst f with
  | FAt k => Nat.eqb k n
  | FOn sh => String.eqb sh (shape_of c)
  end.

Fixpoint take_fault (n : nat) (c : call) (fs : list fault) : option fkind * list fault :=
  match fs with
  | [] => (None, [])
  | f :: t => if fault_hits n c f then (Some (snd f), t)
              else let '(r, t') := take_fault n c t in (r, f :: t')
  end.

(* one API call: consult the oracle, otherwise apply the API-server semantics *)
Definition call_api {A} (c : call) (apply : world -> (A + errkind) * world) : M A := fun s =>
  let '(fo, fs') := take_fault (rs_n s) c (rs_faults s) in
  match fo with
  | Some FTimeoutApplied =>
      let '(_, w') := apply (rs_api s) in
      (Err ETimeout, {| rs_api := w'; rs_log := (c, Some ETimeout) :: rs_log s; rs_n := S (rs_n s); rs_faults := fs' |})
  | Some f =>
      (Err (err_of_fault f), {| rs_api := rs_api s; rs_log := (c, Some (err_of_fault f)) :: rs_log s;
                                rs_n := S (rs_n s); rs_faults := fs' |})
  | None =>
      match apply (rs_api s) with
      | (inl a, w') => (Ok a, {| rs_api := w'; rs_log := (c, None) :: rs_log s; rs_n := S (rs_n s); rs_faults := fs' |})
      | (inr e, w') => (Err e, {| rs_api := w'; rs_log := (c, Some e) :: rs_log s; rs_n := S (rs_n s); rs_faults := fs' |})
      end
  end.

(* ---------------- small list helpers ------------------------------------------------------- *)
Definition find_pod (n : string) (l : list pod) : option pod := find (fun p => String.eqb (p_name p) n) l.
Definition find_rev (n : string) (l : list rev) : option rev := find (fun r => String.eqb (r_name r) n) l.
Definition remove_pod (n : string) (l : list pod) : list pod := filter (fun p => negb (String.eqb (p_name p) n)) l.
Definition remove_rev (n : string) (l : list rev) : list rev := filter (fun r => negb (String.eqb (r_name r) n)) l.
Definition replace_pod (q : pod) (l : list pod) : list pod :=
  map (fun p => if String.eqb (p_name p) (p_name q) then q else p) l.
Definition replace_rev (q : rev) (l : list rev) : list rev :=
  map (fun r => if String.eqb (r_name r) (r_name q) then q else r) l.
Definition smemb (x : string) (l : list string) : bool := existsb (String.eqb x) l.

Definition with_pods (w : world) (l : list pod) : world :=
  {| w_set := w_set w; w_pods := l; w_revs := w_revs w; w_claims := w_claims w |}.
Definition with_revs (w : world) (l : list rev) : world :=
  {| w_set := w_set w; w_pods := w_pods w; w_revs := l; w_claims := w_claims w |}.
Definition with_claims (w : world) (l : list string) : world :=
  {| w_set := w_set w; w_pods := w_pods w; w_revs := w_revs w; w_claims := l |}.
Definition with_set (w : world) (s : option sset) : world :=
  {| w_set := s; w_pods := w_pods w; w_revs := w_revs w; w_claims := w_claims w |}.
