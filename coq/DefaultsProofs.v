(* DefaultsProofs.v — idempotence of the combinators of Defaults.v and of the defaulters built
   from them.  The property statements live in C19.v. *)
From ASTS Require Import Base Slots Json Defaults.
Open Scope string_scope.
Open Scope Z_scope.

Definition idem (f : upd) : Prop := forall v, f (f v) = f v.
(* f never turns a value into null *)
Definition nn (f : upd) : Prop := forall v, v <> JNull -> f v <> JNull.

(* ====================================================================================== *)
(* 1. value-level combinators                                                             *)
(* ====================================================================================== *)
Lemma idem_id : idem (fun v => v).
Proof. intros v. reflexivity. Qed.

Lemma idem_set_if_null c : idem (set_if_null c).
Proof. intros v. destruct v; cbn; try reflexivity. destruct c; reflexivity. Qed.

Lemma idem_set_if_zero c : idem (set_if_zero c).
Proof.
  intros v. unfold set_if_zero. destruct (is_zero v) eqn:Ev; cbn [andb].
  - destruct (is_zero c) eqn:Ec; cbn [negb]; [rewrite Ev; reflexivity | rewrite Ec; reflexivity].
  - rewrite Ev. reflexivity.
Qed.

Lemma idem_opt g : idem g -> idem (opt g).
Proof.
  intros Hg v. destruct v; cbn [opt]; try reflexivity;
    match goal with |- opt g ?x = _ => destruct x eqn:E; cbn [opt]; try reflexivity; rewrite <- E; apply Hg end.
Qed.

Lemma map_idem {A} (g : A -> A) l : (forall x, g (g x) = g x) -> map g (map g l) = map g l.
Proof. intros H. rewrite map_map. apply map_ext. exact H. Qed.

Lemma idem_each g : idem g -> idem (each g).
Proof. intros Hg v. destruct v; cbn [each]; try reflexivity. rewrite map_idem by exact Hg. reflexivity. Qed.

Lemma idem_map_values g : idem g -> idem (map_values g).
Proof.
  intros Hg v. destruct v; cbn [map_values]; try reflexivity. f_equal.
  rewrite map_map. apply map_ext. intros [k x]. cbn [fst snd]. rewrite Hg. reflexivity.
Qed.

Lemma idem_at_obj g : idem g -> nn g -> idem (at_obj g).
Proof.
  intros Hg Hn v. unfold at_obj.
  set (w := match v with JNull => JObj [] | _ => v end).
  assert (Hw : w <> JNull) by (destruct v; discriminate).
  pose proof (Hn w Hw) as Hgw. pose proof (Hg w) as Hi.
  destruct (g w) eqn:E; try (exfalso; apply Hgw; reflexivity); exact Hi.
Qed.

Lemma nn_at_obj g : nn g -> nn (at_obj g).
Proof. intros Hn v Hv. unfold at_obj. apply Hn. destruct v; discriminate. Qed.

Lemma idem_compose (f g : upd) : idem f -> idem g -> (forall v, f (g (f v)) = g (f v)) ->
  idem (fun v => g (f v)).
Proof. intros Hf Hg Hs v. cbv beta. rewrite Hs. apply Hg. Qed.

(* ====================================================================================== *)
(* 2. keyed updates                                                                        *)
(* ====================================================================================== *)
Lemma getv_upd_key_same k f l : getv k (upd_key k f l) = f (getv k l).
Proof.
  unfold upd_key. destruct (jlookup k l) as [v0|] eqn:E.
  - destruct (f (getv k l)); apply getv_jset_same.
  - destruct (f (getv k l)) eqn:Ef; try apply getv_jset_same.
    unfold getv. rewrite E. reflexivity.
Qed.

Lemma jlookup_upd_key_other k f l k2 : k2 <> k -> jlookup k2 (upd_key k f l) = jlookup k2 l.
Proof.
  intros Hne. unfold upd_key.
  destruct (jlookup k l); destruct (f (getv k l)); try reflexivity; apply jlookup_jset_other; exact Hne.
Qed.

Lemma upd_key_fix k f l : f (getv k l) = getv k l -> upd_key k f l = l.
Proof.
  intros H. unfold upd_key. rewrite H. unfold getv. destruct (jlookup k l) as [v0|] eqn:E.
  - destruct v0; apply jset_same; exact E.
  - reflexivity.
Qed.

Lemma jlookup_upd_keys_notin us : forall l k, ~ In k (map fst us) -> jlookup k (upd_keys us l) = jlookup k l.
Proof.
  induction us as [|[k0 f0] t IH]; intros l k Hn; cbn [upd_keys]; [reflexivity|].
  cbn [map fst In] in Hn. rewrite IH by tauto. apply jlookup_upd_key_other. intros ->. tauto.
Qed.

Lemma getv_upd_keys_notin us l k : ~ In k (map fst us) -> getv k (upd_keys us l) = getv k l.
Proof. intros H. unfold getv. rewrite jlookup_upd_keys_notin by exact H. reflexivity. Qed.

Lemma getv_upd_keys_in us : forall l k f, NoDup (map fst us) -> In (k, f) us ->
  getv k (upd_keys us l) = f (getv k l).
Proof.
  induction us as [|[k0 f0] t IH]; intros l k f Hnd Hin; [destruct Hin|].
  cbn [map fst] in Hnd. inversion Hnd as [|? ? Hn Ht]; subst. cbn [upd_keys].
  destruct Hin as [E|Hin].
  - inversion E; subst. rewrite getv_upd_keys_notin by exact Hn. apply getv_upd_key_same.
  - rewrite (IH _ k f Ht Hin). f_equal. unfold getv. rewrite jlookup_upd_key_other; [reflexivity|].
    intros ->. apply Hn. apply in_map_iff. exists (k0, f). split; [reflexivity | exact Hin].
Qed.

Lemma upd_keys_fix us : forall l, (forall k f, In (k, f) us -> f (getv k l) = getv k l) -> upd_keys us l = l.
Proof.
  induction us as [|[k0 f0] t IH]; intros l H; cbn [upd_keys]; [reflexivity|].
  rewrite upd_key_fix by (apply H; left; reflexivity). apply IH. intros k f Hin. apply H. right. exact Hin.
Qed.

Lemma upd_keys_idem us l : NoDup (map fst us) -> (forall k f, In (k, f) us -> idem f) ->
  upd_keys us (upd_keys us l) = upd_keys us l.
Proof.
  intros Hnd Hid. apply upd_keys_fix. intros k f Hin.
  rewrite (getv_upd_keys_in us l k f Hnd Hin). apply (Hid k f Hin).
Qed.

Definition all_idem (us : list (string * upd)) : Prop := Forall (fun kf => idem (snd kf)) us.

Lemma all_idem_in us k f : all_idem us -> In (k, f) us -> idem f.
Proof. intros H Hin. unfold all_idem in H. rewrite Forall_forall in H. exact (H (k, f) Hin). Qed.

Lemma idem_obj us : NoDup (map fst us) -> all_idem us -> idem (obj us).
Proof.
  intros Hnd Hall v. destruct v; cbn [obj]; try reflexivity. f_equal.
  apply upd_keys_idem; [exact Hnd|]. intros k f. apply all_idem_in. exact Hall.
Qed.

Lemma nn_obj us : nn (obj us).
Proof. intros v Hv. destruct v; cbn [obj]; try discriminate. contradiction. Qed.

(* updates that read a sibling none of them writes *)
Lemma idem_obj_with {T} (rd : jobj -> T) (us : T -> list (string * upd)) :
  (forall t, NoDup (map fst (us t))) -> (forall t, all_idem (us t)) ->
  (forall t l, rd (upd_keys (us t) l) = rd l) ->
  idem (obj_with rd us).
Proof.
  intros Hnd Hall Hrd v. destruct v; cbn [obj_with]; try reflexivity. f_equal.
  rewrite Hrd. apply upd_keys_idem; [apply Hnd|]. intros k f. apply all_idem_in. apply Hall.
Qed.

Lemma nn_obj_with {T} (rd : jobj -> T) us : nn (obj_with rd us).
Proof. intros v Hv. destruct v; cbn [obj_with]; try discriminate. contradiction. Qed.

Lemma nodup_keys (l : list string) : (forall x y, In x l -> In y l -> True) -> True.
Proof. trivial. Qed.

Fixpoint nodup_strb (l : list string) : bool :=
  match l with [] => true | x :: t => negb (existsb (String.eqb x) t) && nodup_strb t end.
Lemma nodup_strb_NoDup l : nodup_strb l = true -> NoDup l.
Proof.
  induction l as [|x t IH]; cbn [nodup_strb]; [constructor|]. intros H.
  apply andb_true_iff in H. destruct H as [H1 H2]. constructor; [|apply IH; exact H2].
  intros Hin. apply negb_true_iff in H1.
  assert (existsb (String.eqb x) t = true) by (apply existsb_exists; exists x; split; [exact Hin | apply String.eqb_refl]).
  congruence.
Qed.

(* ====================================================================================== *)
(* 3. the updateStrategy block of SetDefaults_StatefulSet                                  *)
(* ====================================================================================== *)
Lemma is_zero_str_ru : is_zero (JStr "RollingUpdate") = false.
Proof. reflexivity. Qed.

(* second half of the block: fills the partition; a fixpoint once the partition is there *)
Definition fill_partition (l1 : jobj) : json :=
  match getv "type" l1, getv "rollingUpdate" l1 with
  | JStr t, JObj ru =>
      if String.eqb t "RollingUpdate" && is_null (getv "partition" ru)
      then JObj (jset "rollingUpdate" (JObj (jset "partition" (JNum 0) ru)) l1)
      else JObj l1
  | _, _ => JObj l1
  end.

Lemma fill_partition_type l1 l2 : fill_partition l1 = JObj l2 -> getv "type" l2 = getv "type" l1.
Proof.
  unfold fill_partition.
  destruct (getv "type" l1) eqn:Et; destruct (getv "rollingUpdate" l1) eqn:Er;
    try (intros H; injection H as <-; exact Et).
  destruct (String.eqb s "RollingUpdate" && is_null (getv "partition" l)); intros H; injection H as <-; [|exact Et].
  rewrite getv_jset_other by discriminate. exact Et.
Qed.

Lemma fill_partition_idem l1 l2 : fill_partition l1 = JObj l2 -> fill_partition l2 = JObj l2.
Proof.
  unfold fill_partition at 1.
  destruct (getv "type" l1) eqn:Et; destruct (getv "rollingUpdate" l1) eqn:Er;
    try (intros H; injection H as <-; unfold fill_partition; rewrite Et; try rewrite Er; reflexivity).
  destruct (String.eqb s "RollingUpdate" && is_null (getv "partition" l)) eqn:Ec; intros H; injection H as <-.
  - unfold fill_partition. rewrite getv_jset_other by discriminate. rewrite Et, !getv_jset_same.
    cbn [is_null]. rewrite andb_false_r. reflexivity.
  - unfold fill_partition. rewrite Et, Er, Ec. reflexivity.
Qed.

Lemma fill_partition_obj l1 : exists l2, fill_partition l1 = JObj l2.
Proof.
  unfold fill_partition. destruct (getv "type" l1); try (eexists; reflexivity).
  destruct (getv "rollingUpdate" l1); try (eexists; reflexivity).
  destruct (String.eqb s "RollingUpdate" && is_null (getv "partition" l)); eexists; reflexivity.
Qed.

Lemma us_default_eq l : us_default (JObj l) =
  fill_partition (if is_zero (getv "type" l)
                  then jset "rollingUpdate" (JObj []) (jset "type" (JStr "RollingUpdate") l) else l).
Proof. reflexivity. Qed.

Lemma us_default_keep_eq l : us_default_keep (JObj l) =
  fill_partition (if is_zero (getv "type" l)
                  then (let l0 := jset "type" (JStr "RollingUpdate") l in
                        if is_null (getv "rollingUpdate" l0) then jset "rollingUpdate" (JObj []) l0 else l0)
                  else l).
Proof. reflexivity. Qed.

Lemma idem_us_default : idem us_default.
Proof.
  intros v. destruct v; try reflexivity. rewrite us_default_eq.
  match goal with |- context [fill_partition ?x] => set (l1 := x) end.
  destruct (fill_partition_obj l1) as [l2 E]. rewrite E, us_default_eq.
  assert (Ht : is_zero (getv "type" l2) = false).
  { rewrite (fill_partition_type l1 l2 E). unfold l1. destruct (is_zero (getv "type" l)) eqn:Ez; [|exact Ez].
    rewrite getv_jset_other by discriminate. rewrite getv_jset_same. reflexivity. }
  rewrite Ht. eapply fill_partition_idem. exact E.
Qed.

Lemma idem_us_default_keep : idem us_default_keep.
Proof.
  intros v. destruct v; try reflexivity. rewrite us_default_keep_eq.
  match goal with |- context [fill_partition ?x] => set (l1 := x) end.
  destruct (fill_partition_obj l1) as [l2 E]. rewrite E, us_default_keep_eq.
  assert (Ht : is_zero (getv "type" l2) = false).
  { rewrite (fill_partition_type l1 l2 E). unfold l1. destruct (is_zero (getv "type" l)) eqn:Ez; [|exact Ez].
    cbv zeta. destruct (is_null (getv "rollingUpdate" (jset "type" (JStr "RollingUpdate") l))).
    - rewrite getv_jset_other by discriminate. rewrite getv_jset_same. reflexivity.
    - rewrite getv_jset_same. reflexivity. }
  rewrite Ht. eapply fill_partition_idem. exact E.
Qed.

Lemma nn_us_default : nn us_default.
Proof.
  intros v Hv. destruct v; try discriminate; try contradiction. rewrite us_default_eq.
  match goal with |- fill_partition ?x <> _ => destruct (fill_partition_obj x) as [l2 E]; rewrite E; discriminate end.
Qed.
Lemma nn_us_default_keep : nn us_default_keep.
Proof.
  intros v Hv. destruct v; try discriminate; try contradiction. rewrite us_default_keep_eq.
  match goal with |- fill_partition ?x <> _ => destruct (fill_partition_obj x) as [l2 E]; rewrite E; discriminate end.
Qed.

(* what the two variants do to a partition the writer supplied without a strategy type *)
Definition partition_of (v : json) : json := get_field "partition" (get_field "rollingUpdate" v).

Lemma us_default_keep_partition l ru : getv "rollingUpdate" l = JObj ru ->
  is_null (getv "partition" ru) = false ->
  partition_of (us_default_keep (JObj l)) = getv "partition" ru.
Proof.
  intros Hr Hp. rewrite us_default_keep_eq.
  match goal with |- context [fill_partition ?x] => set (l1 := x) end.
  assert (Hr1 : getv "rollingUpdate" l1 = JObj ru).
  { unfold l1. destruct (is_zero (getv "type" l)); [|exact Hr]. cbv zeta.
    rewrite getv_jset_other by discriminate. rewrite Hr. cbn [is_null].
    rewrite getv_jset_other by discriminate. exact Hr. }
  unfold fill_partition. rewrite Hr1.
  destruct (getv "type" l1); unfold partition_of; cbn [get_field]; try (rewrite Hr1; reflexivity).
  rewrite Hp, andb_false_r. cbn [get_field]. rewrite Hr1. reflexivity.
Qed.

(* ====================================================================================== *)
(* 4. the leaves                                                                           *)
(* ====================================================================================== *)
Ltac keys_nodup := apply nodup_strb_NoDup; vm_compute; reflexivity.

Ltac solve_idem :=
  repeat first
    [ assumption
    | exact idem_id
    | apply idem_set_if_null
    | apply idem_set_if_zero
    | apply idem_opt
    | apply idem_each
    | apply idem_map_values
    | apply idem_at_obj; [|first [apply nn_obj | apply nn_obj_with | apply nn_at_obj; apply nn_obj | assumption]]
    | apply idem_obj; [keys_nodup | unfold all_idem; repeat (apply Forall_cons; [cbn [snd]|]); try apply Forall_nil]
    | assumption ].

Lemma idem_field_ref_default : idem field_ref_default.
Proof. unfold field_ref_default. solve_idem. Qed.
Lemma idem_http_get_default : idem http_get_default.
Proof. unfold http_get_default. solve_idem. Qed.
Lemma idem_probe_default : idem probe_default.
Proof. unfold probe_default. pose proof idem_http_get_default. solve_idem. Qed.
Lemma idem_handler_default : idem handler_default.
Proof. unfold handler_default. pose proof idem_http_get_default. solve_idem. Qed.
Lemma idem_lifecycle_default : idem lifecycle_default.
Proof. unfold lifecycle_default. pose proof idem_handler_default. solve_idem. Qed.
Lemma idem_env_default : idem env_default.
Proof. unfold env_default. pose proof idem_field_ref_default. solve_idem. Qed.

Definition idem_lib (L : libs) : Prop := forall q, roundq L (roundq L q) = roundq L q.

Lemma idem_resource_list L : idem_lib L -> idem (resource_list L).
Proof. intros HL. unfold resource_list. apply idem_map_values. exact HL. Qed.
Lemma idem_resources_default L : idem_lib L -> idem (resources_default L).
Proof. intros HL. unfold resources_default. pose proof (idem_resource_list L HL). solve_idem. Qed.

Lemma idem_port_default hn : idem (port_default hn).
Proof.
  unfold port_default. apply idem_obj_with.
  - intros cp. keys_nodup.
  - intros cp. unfold all_idem. repeat (apply Forall_cons; [cbn [snd]|]); try apply Forall_nil.
    + apply idem_set_if_zero.
    + destruct hn; [apply idem_set_if_zero | apply idem_id].
  - intros cp l. apply getv_upd_keys_notin. cbn. intros [H|[H|[]]]; discriminate.
Qed.

Lemma all_idem_container_common L hn : idem_lib L -> all_idem (container_common L hn).
Proof.
  intros HL. pose proof (idem_port_default hn). pose proof idem_env_default.
  pose proof (idem_resources_default L HL). pose proof idem_probe_default. pose proof idem_lifecycle_default.
  unfold container_common, all_idem. repeat (apply Forall_cons; [cbn [snd]; solve_idem|]). apply Forall_nil.
Qed.

Lemma idem_container_default L hn : idem_lib L -> idem (container_default L hn).
Proof.
  intros HL. unfold container_default. apply idem_obj_with.
  - intros image. keys_nodup.
  - intros image. unfold all_idem. repeat (apply Forall_cons; [cbn [snd]; apply idem_set_if_zero|]).
    apply all_idem_container_common. exact HL.
  - intros image l. f_equal. apply getv_upd_keys_notin. cbn.
    intros H. repeat (destruct H as [H|H]; [discriminate|]). exact H.
Qed.

Lemma idem_ephemeral_default L : idem_lib L -> idem (ephemeral_default L).
Proof.
  intros HL. unfold ephemeral_default. apply idem_obj; [keys_nodup | apply all_idem_container_common; exact HL].
Qed.

(* --- volumes --- *)
Definition no_source (l : jobj) : bool :=
  forallb (fun kv => String.eqb (fst kv) "name" || is_null (snd kv)) l.

Lemma idem_volume_source_default : idem volume_source_default.
Proof.
  intros v. destruct v; try reflexivity. cbn [volume_source_default]. fold (no_source l).
  destruct (no_source l) eqn:E; cbn [volume_source_default]; fold (no_source l); [|rewrite E; reflexivity].
  replace (forallb (fun kv => String.eqb (fst kv) "name" || is_null (snd kv)) (jset "emptyDir" (JObj []) l)) with false;
    [reflexivity|].
  symmetry. clear E. induction l as [|[k x] t IH]; [reflexivity|]. cbn [jset].
  destruct (String.eqb "emptyDir" k) eqn:Ek; cbn [forallb fst snd]; [reflexivity|].
  rewrite IH. apply andb_false_r.
Qed.

(* an update that keeps null null and non-null non-null does not change whether a volume has a source *)
Definition null_pres (f : upd) : Prop := forall v, is_null (f v) = is_null v.

Lemma null_pres_opt g : nn g -> null_pres (opt g).
Proof.
  intros Hn v. destruct v; cbn [opt]; try reflexivity;
    match goal with |- is_null (g ?x) = _ => pose proof (Hn x ltac:(discriminate)) as H; destruct (g x); try reflexivity; contradiction end.
Qed.

Lemma no_source_jset k v l : (String.eqb k "name" || is_null v) = (String.eqb k "name" || is_null (getv k l)) ->
  jlookup k l <> None -> no_source (jset k v l) = no_source l.
Proof.
  unfold no_source, getv. induction l as [|[k' x] t IH]; intros H Hl; [contradiction|].
  cbn [jset jlookup] in *. destruct (String.eqb_spec k k') as [<-|Hne]; cbn [forallb fst snd].
  - rewrite H. reflexivity.
  - rewrite IH by assumption. reflexivity.
Qed.

Lemma no_source_upd_key k f l : null_pres f -> no_source (upd_key k f l) = no_source l.
Proof.
  intros Hf. unfold upd_key. destruct (jlookup k l) as [v0|] eqn:E.
  - assert (no_source (jset k (f (getv k l)) l) = no_source l).
    { apply no_source_jset; [rewrite Hf; reflexivity | congruence]. }
    destruct (f (getv k l)); assumption.
  - assert (Hg : getv k l = JNull) by (unfold getv; rewrite E; reflexivity).
    pose proof (Hf (getv k l)) as Hn. rewrite Hg in Hn. rewrite Hg.
    destruct (f JNull); try discriminate. reflexivity.
Qed.

Lemma no_source_upd_keys us : forall l, Forall (fun kf => null_pres (snd kf)) us ->
  no_source (upd_keys us l) = no_source l.
Proof.
  induction us as [|[k f] t IH]; intros l H; cbn [upd_keys]; [reflexivity|].
  inversion H; subst. rewrite IH by assumption. apply no_source_upd_key. assumption.
Qed.

Lemma idem_downward_items : idem downward_items.
Proof. unfold downward_items. pose proof idem_field_ref_default. solve_idem. Qed.

Lemma idem_volume_leaves : idem volume_leaves.
Proof.
  unfold volume_leaves, volume_leaf_updates. pose proof idem_downward_items. pose proof idem_field_ref_default. solve_idem.
Qed.

Lemma volume_leaves_no_source l : no_source (upd_keys volume_leaf_updates l) = no_source l.
Proof.
  apply no_source_upd_keys. unfold volume_leaf_updates.
  repeat (apply Forall_cons; [cbn [snd]; apply null_pres_opt; apply nn_obj|]). apply Forall_nil.
Qed.

Lemma no_source_emptyDir lw : no_source (jset "emptyDir" (JObj []) lw) = false.
Proof.
  unfold no_source. induction lw as [|[k x] t IH]; [reflexivity|]. cbn [jset].
  destruct (String.eqb "emptyDir" k) eqn:Ek; cbn [forallb fst snd]; [reflexivity|]. rewrite IH. apply andb_false_r.
Qed.

Lemma volume_source_default_obj l :
  volume_source_default (JObj l) = JObj (if no_source l then jset "emptyDir" (JObj []) l else l).
Proof. cbn [volume_source_default]. fold (no_source l). destruct (no_source l); reflexivity. Qed.

Lemma volume_leaves_source lw : no_source lw = false ->
  volume_source_default (volume_leaves (JObj lw)) = volume_leaves (JObj lw).
Proof.
  intros Hlw. unfold volume_leaves. cbn [obj]. rewrite volume_source_default_obj, volume_leaves_no_source, Hlw.
  reflexivity.
Qed.

Lemma idem_volume_default : idem volume_default.
Proof.
  unfold volume_default. apply idem_compose; [exact idem_volume_source_default | exact idem_volume_leaves|].
  intros v. destruct v; try reflexivity.
  rewrite volume_source_default_obj. destruct (no_source l) eqn:E.
  - apply volume_leaves_source. apply no_source_emptyDir.
  - apply volume_leaves_source. exact E.
Qed.

(* --- pod spec, claims, the whole object --- *)
Lemma idem_podspec_default L : idem_lib L -> idem (podspec_default L).
Proof.
  intros HL. unfold podspec_default. apply idem_obj_with.
  - intros hn. keys_nodup.
  - intros hn. pose proof idem_volume_default. pose proof (idem_container_default L hn HL).
    pose proof (idem_ephemeral_default L HL). pose proof (idem_resource_list L HL).
    unfold all_idem. repeat (apply Forall_cons; [cbn [snd]; solve_idem|]). apply Forall_nil.
  - intros hn l. f_equal. apply getv_upd_keys_notin. cbn.
    intros H. repeat (destruct H as [H|H]; [discriminate|]). exact H.
Qed.

Lemma idem_pvc_default L : idem_lib L -> idem (pvc_default L).
Proof.
  intros HL. unfold pvc_default. pose proof (idem_resources_default L HL). pose proof (idem_resource_list L HL).
  solve_idem.
Qed.

Lemma idem_spec_default_with usd L : idem usd -> nn usd -> idem_lib L -> idem (spec_default_with usd L).
Proof.
  intros Hu Hn HL. unfold spec_default_with.
  pose proof (idem_podspec_default L HL). pose proof (idem_pvc_default L HL).
  apply idem_obj; [keys_nodup|]. unfold all_idem.
  repeat (apply Forall_cons; [cbn [snd]|]); try apply Forall_nil.
  - apply idem_set_if_zero.
  - apply idem_at_obj; assumption.
  - apply idem_set_if_null.
  - apply idem_set_if_null.
  - apply idem_at_obj; [|apply nn_obj]. apply idem_obj; [keys_nodup|]. unfold all_idem.
    apply Forall_cons; [cbn [snd]|apply Forall_nil]. apply idem_at_obj; [assumption | apply nn_obj_with].
  - apply idem_each. assumption.
Qed.

Lemma idem_sts_default_with usd L : idem usd -> nn usd -> idem_lib L -> idem (sts_default_with usd L).
Proof.
  intros Hu Hn HL. unfold sts_default_with. pose proof (idem_spec_default_with usd L Hu Hn HL).
  apply idem_obj; [keys_nodup|]. unfold all_idem. apply Forall_cons; [cbn [snd]|apply Forall_nil].
  apply idem_at_obj; [assumption | apply nn_obj].
Qed.

Lemma idem_sts_default L : idem_lib L -> forall j, sts_default L (sts_default L j) = sts_default L j.
Proof. intros HL. apply idem_sts_default_with; [exact idem_us_default | exact nn_us_default | exact HL]. Qed.

Lemma idem_sts_default_keep L : idem_lib L -> forall j, sts_default_keep L (sts_default_keep L j) = sts_default_keep L j.
Proof. intros HL. apply idem_sts_default_with; [exact idem_us_default_keep | exact nn_us_default_keep | exact HL]. Qed.

Lemma idem_set_level usd : idem usd -> nn usd -> idem (set_level_default usd).
Proof.
  intros Hu Hn. unfold set_level_default.
  apply idem_obj; [keys_nodup|]. unfold all_idem. apply Forall_cons; [cbn [snd]|apply Forall_nil].
  apply idem_at_obj; [|apply nn_obj]. apply idem_obj; [keys_nodup|]. unfold all_idem.
  repeat (apply Forall_cons; [cbn [snd]|]); try apply Forall_nil.
  - apply idem_set_if_zero.
  - apply idem_at_obj; assumption.
  - apply idem_set_if_null.
  - apply idem_set_if_null.
Qed.

(* the pod template of a defaulted object is a fixpoint: a second pass leaves it as it is *)
Lemma template_fixpoint usd L : idem usd -> nn usd -> idem_lib L -> forall j,
  let d := sts_default_with usd L j in
  get_field "template" (get_field "spec" (sts_default_with usd L d)) = get_field "template" (get_field "spec" d).
Proof. intros Hu Hn HL j d. unfold d. rewrite idem_sts_default_with by assumption. reflexivity. Qed.

(* ====================================================================================== *)
(* 5. the concrete model of Quantity.RoundUp used by the correspondence is idempotent      *)
(* ====================================================================================== *)
From ASTS Require Import CodecProofs.

Lemma read_digits_nonneg s : forall acc n, 0 <= acc -> 0 <= fst (fst (read_digits s acc n)).
Proof.
  induction s as [|c t IH]; intros acc n H; cbn [read_digits]; [exact H|].
  destruct (is_digit c); [|exact H]. apply IH. unfold digit_val. lia.
Qed.

(* whatever the printer writes in front of acc is a run of digits *)
Lemma read_digits_dec_any f : forall n acc a k, 0 <= n ->
  exists a' k', read_digits (dec_pos_fuel f n acc) a k = read_digits acc a' k'.
Proof.
  induction f as [|f IH]; intros n acc a k Hn; cbn [dec_pos_fuel]; [eauto|].
  assert (Hm : 0 <= n mod 10 < 10) by (apply Z.mod_pos_bound; lia).
  destruct (n <? 10).
  - cbn [read_digits]. rewrite is_digit_digit_char by exact Hm. eauto.
  - destruct (IH (n / 10) (String (digit_char (n mod 10)) acc) a k ltac:(apply Z.div_pos; lia)) as (a' & k' & E).
    rewrite E. cbn [read_digits]. rewrite is_digit_digit_char by exact Hm. eauto.
Qed.

Definition stable_suffix (sfx : string) : Prop := sfx = "" \/ sfx = "m" \/ sfx = "e-3".

Lemma round_str_dec c sfx : 0 <= c -> stable_suffix sfx -> round_str (dec c ++ sfx) = dec c ++ sfx.
Proof.
  intros Hc Hs. unfold dec. destruct (Z.ltb_spec c 0); [lia|].
  unfold dec_nonneg. rewrite dec_pos_fuel_app. cbn [append].
  unfold round_str.
  destruct (read_digits_dec_any 20 c sfx 0 0%nat Hc) as (a' & k' & E). rewrite E.
  destruct Hs as [->|[->| ->]].
  - replace (read_digits "" a' k') with (a', k', "") by reflexivity. cbv beta iota.
    destruct (Nat.eqb k' 0); reflexivity.
  - replace (read_digits "m" a' k') with (a', k', "m") by reflexivity. cbv beta iota.
    destruct (Nat.eqb k' 0); reflexivity.
  - replace (read_digits "e-3" a' k') with (a', k', "e-3") by reflexivity. cbv beta iota.
    destruct (Nat.eqb k' 0); reflexivity.
Qed.

Lemma print_milli_stable c : 0 <= c -> round_str (print_milli c) = print_milli c.
Proof.
  intros Hc. unfold print_milli. destruct (c mod 1000 =? 0).
  - assert (E : forall s : string, s ++ "" = s) by (induction s as [|x s IH]; cbn; [reflexivity | rewrite IH; reflexivity]).
    pose proof (round_str_dec (c / 1000) "" ltac:(apply Z.div_pos; lia) ltac:(left; reflexivity)) as H.
    rewrite E in H. exact H.
  - apply round_str_dec; [exact Hc | right; left; reflexivity].
Qed.

Lemma ceil_div_nonneg a b : 0 <= a -> 0 < b -> 0 <= ceil_div a b.
Proof. intros Ha Hb. unfold ceil_div. apply Z.div_pos; lia. Qed.

Lemma round_str_shape s :
  round_str s = s \/ (exists c, 0 <= c /\ round_str s = print_milli c)
  \/ (exists c, 0 <= c /\ round_str s = dec c ++ "e-3").
Proof.
  unfold round_str.
  pose proof (read_digits_nonneg s 0 0%nat ltac:(lia)) as Hd.
  destruct (read_digits s 0 0%nat) as [[d n] rest]. cbn [fst] in Hd.
  destruct (Nat.eqb n 0); [left; reflexivity|].
  destruct (String.eqb rest "u").
  { right; left. eexists. split; [|reflexivity]. apply ceil_div_nonneg; lia. }
  destruct (String.eqb rest "n").
  { right; left. eexists. split; [|reflexivity]. apply ceil_div_nonneg; lia. }
  destruct rest as [|c1 r1]; [left; reflexivity|].
  destruct (Ascii.eqb c1 "e"%char) eqn:E1.
  2:{ left. destruct c1 as [[] [] [] [] [] [] [] []]; try discriminate E1; reflexivity. }
  apply Ascii.eqb_eq in E1. subst c1.
  destruct r1 as [|c2 r2]; [left; reflexivity|].
  destruct (Ascii.eqb c2 "-"%char) eqn:E2.
  2:{ left. destruct c2 as [[] [] [] [] [] [] [] []]; try discriminate E2; reflexivity. }
  apply Ascii.eqb_eq in E2. subst c2. cbv beta iota.
  destruct (read_digits r2 0 0%nat) as [[k m] rest2].
  destruct (negb (Nat.eqb m 0) && String.eqb rest2 "" && (3 <? k)) eqn:Ec; [|left; reflexivity].
  apply andb_true_iff in Ec. destruct Ec as [_ Hk]. apply Z.ltb_lt in Hk.
  right; right. eexists. split; [|reflexivity].
  apply ceil_div_nonneg; [lia|]. apply Z.pow_pos_nonneg; lia.
Qed.

Lemma round_str_idem s : round_str (round_str s) = round_str s.
Proof.
  destruct (round_str_shape s) as [E|[(c & Hc & E)|(c & Hc & E)]]; rewrite E.
  - exact E.
  - apply print_milli_stable. exact Hc.
  - apply round_str_dec; [exact Hc | right; right; reflexivity].
Qed.

Lemma idem_lib_model : idem_lib libs_model.
Proof. intros q. destruct q; cbn; try reflexivity. rewrite round_str_idem. reflexivity. Qed.

Lemma idem_sts_default_model j :
  sts_default libs_model (sts_default libs_model j) = sts_default libs_model j.
Proof. apply idem_sts_default. exact idem_lib_model. Qed.

(* ---------- statements in the form used by C19.v ------------------------------------------ *)
Definition keeps_partition (usd : upd) : Prop :=
  forall l ru, getv "rollingUpdate" l = JObj ru -> is_null (getv "partition" ru) = false ->
    partition_of (usd (JObj l)) = getv "partition" ru.

Lemma us_default_loses_partition : ~ keeps_partition us_default.
Proof.
  intros H. specialize (H [("rollingUpdate", JObj [("partition", JNum 3)])] [("partition", JNum 3)] eq_refl eq_refl).
  vm_compute in H. discriminate.
Qed.

Lemma combinators_idempotent :
  (forall c, idem (set_if_null c)) /\ (forall c, idem (set_if_zero c))
  /\ (forall g, idem g -> idem (opt g)) /\ (forall g, idem g -> idem (each g))
  /\ (forall g, idem g -> idem (map_values g)) /\ (forall g, idem g -> nn g -> idem (at_obj g))
  /\ (forall us, NoDup (map fst us) -> all_idem us -> idem (obj us)).
Proof.
  repeat split; [exact idem_set_if_null | exact idem_set_if_zero | exact idem_opt | exact idem_each
                | exact idem_map_values | exact idem_at_obj | exact idem_obj].
Qed.
