(* ExampleWorld.v — concrete worlds used by the non-vacuity Examples of the property files. *)
From ASTS Require Import Base Slots Names World Reconcile.

Definition ex_me : owner := {| o_kind := "StatefulSet"; o_name := "web"; o_uid := "u1" |}.
Definition ex_status (n : Z) (cur upd : string) : status :=
  {| st_replicas := n; st_ready := n; st_current := n; st_updated := n; st_currev := cur; st_updrev := upd;
     st_obsgen := 1; st_coll := Some 0 |}.
Definition ex_set (replicas : Z) (slots : option string) (policy : string) (tmpl : Z) (part : Z) (st : status) : sset :=
  {| s_name := "web"; s_uid := "u1"; s_gen := 1; s_deleting := false; s_slots := slots; s_pause := None;
     s_replicas := Some replicas; s_selector := SelOk; s_policy := policy; s_strategy := "RollingUpdate";
     s_rolling := Some (Some part); s_tmpl := tmpl; s_claims := ["data"%string]; s_service := "svc"; s_rhl := Some 10;
     s_status := st; s_rv := 5 |}.
Definition ex_pod (i : Z) (revname : string) (phase : string) (ready : bool) : pod :=
  {| p_name := pod_name "web" i; p_match := true; p_owner := Some ex_me; p_phase := phase; p_ready := ready;
     p_term := false; p_rev := revname; p_namelabel := Some (pod_name "web" i);
     p_vols := [{| v_name := "data"; v_claim := Some (claim_name "data" "web" i) |}; {| v_name := "home"; v_claim := None |}];
     p_tmpl := 1 |}.
Definition ex_rev (name : string) (n tmpl : Z) : rev :=
  {| r_name := name; r_revision := n; r_tmpl := tmpl; r_owner := Some ex_me; r_match := true; r_marker := None;
     r_hash := Some name; r_created := 0; r_labels_nil := false |}.
Definition ex_hashes : list ((Z * Z) * string) := [((1, 0), "h1"%string); ((2, 0), "h2"%string); ((1, 1), "h1b"%string)].
Definition ex_claims (l : list Z) : list string := map (claim_name "data" "web") l.

(* three healthy pods at revision web-h1, template 1; nothing to do *)
Definition ex_world (s : sset) (pods : list pod) (revs : list rev) : world :=
  {| w_set := Some s; w_pods := pods; w_revs := revs; w_claims := ex_claims [0; 1; 2; 3; 4] |}.
Definition ex_healthy3 : list pod := [ex_pod 0 "web-h1" "Running" true; ex_pod 1 "web-h1" "Running" true; ex_pod 2 "web-h1" "Running" true].
Definition ex_log (s : sset) (pods : list pod) (revs : list rev) : list (call * option errkind) :=
  snd (fst (reconcile ex_hashes (ex_world s pods revs) (ex_world s pods revs) [])).
