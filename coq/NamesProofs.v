(* NamesProofs.v — the name printer and the parent/ordinal parser are inverse to each other (C06 a). *)
From ASTS Require Import Base Slots Names.

Lemma nat_of_digit d : (d < 10)%nat -> nat_of_ascii (ascii_of_nat (48 + d)) = (48 + d)%nat.
Proof. intros H. apply nat_ascii_embedding. lia. Qed.

Lemma digit_char_props d : 0 <= d < 10 ->
  is_digit (digit_char d) = true /\ digit_val (digit_char d) = d /\ Ascii.eqb (digit_char d) "-"%char = false.
Proof.
  intros H. unfold digit_char, is_digit, digit_val.
  assert (Hn : nat_of_ascii (ascii_of_nat (48 + Z.to_nat d)) = (48 + Z.to_nat d)%nat) by (apply nat_of_digit; lia).
  rewrite Hn. repeat split.
  - apply andb_true_iff. split; apply Nat.leb_le; lia.
  - lia.
  - destruct (Ascii.eqb _ "-"%char) eqn:E; [|reflexivity]. apply Ascii.eqb_eq in E.
    apply (f_equal nat_of_ascii) in E. rewrite Hn in E. cbn in E. lia.
Qed.

(* the decimal printer: all digits, non-empty, and read back by digits_val *)
Lemma dec_pos_fuel_spec : forall fuel n acc, 0 <= n < 10 ^ Z.of_nat fuel -> (fuel > 0)%nat ->
  exists ds, dec_pos_fuel fuel n acc = ds +++ acc /\ ds <> EmptyString /\ all_digits ds = true
             /\ (forall a rest, digits_val (ds +++ rest) a = digits_val rest (a * 10 ^ Z.of_nat (String.length ds) + n)).
Proof.
  induction fuel as [|f IH]; intros n acc Hn Hf; [lia|].
  cbn [dec_pos_fuel].
  assert (Hd : 0 <= n mod 10 < 10) by (apply Z.mod_pos_bound; lia).
  destruct (digit_char_props (n mod 10) Hd) as (D1 & D2 & D3).
  destruct (n <? 10) eqn:E.
  - apply Z.ltb_lt in E. exists (String (digit_char (n mod 10)) EmptyString). cbn [String.append].
    split; [reflexivity|]. split; [discriminate|]. split; [cbn [all_digits]; rewrite D1; reflexivity|].
    intros a rest. cbn [String.append digits_val String.length]. rewrite D2, Z.mod_small by lia.
    f_equal; try (change (Z.of_nat 1) with 1); try lia.
  - apply Z.ltb_ge in E.
    assert (Hq : 0 <= n / 10 < 10 ^ Z.of_nat f).
    { split; [apply Z.div_pos; lia|]. apply Z.div_lt_upper_bound; [lia|].
      rewrite Nat2Z.inj_succ, Z.pow_succ_r in Hn by lia. lia. }
    assert (Hf' : (f > 0)%nat).
    { destruct f; [|lia]. cbn in Hq. lia. }
    destruct (IH (n / 10) (String (digit_char (n mod 10)) acc) Hq Hf') as (ds & E1 & E2 & E3 & E4).
    exists (ds +++ String (digit_char (n mod 10)) EmptyString). split; [|split; [|split]].
    + rewrite E1. clear. induction ds as [|c t IHt]; cbn [String.append]; [reflexivity | rewrite IHt; reflexivity].
    + destruct ds; [congruence | discriminate].
    + clear -E3 D1. induction ds as [|c t IHt]; cbn [String.append all_digits] in *; [rewrite D1; reflexivity|].
      apply andb_true_iff in E3. destruct E3 as [H1 H2]. rewrite H1. apply IHt. exact H2.
    + intros a rest.
      assert (Happ : (ds +++ String (digit_char (n mod 10)) EmptyString) +++ rest = ds +++ String (digit_char (n mod 10)) rest).
      { clear. induction ds as [|c t IHt]; cbn [String.append]; [reflexivity | rewrite IHt; reflexivity]. }
      rewrite Happ, E4. cbn [digits_val]. rewrite D2.
      assert (Hlen : String.length (ds +++ String (digit_char (n mod 10)) EmptyString) = S (String.length ds)).
      { clear. induction ds as [|c t IHt]; cbn [String.append String.length]; [reflexivity | rewrite IHt; reflexivity]. }
      rewrite Hlen, Nat2Z.inj_succ, Z.pow_succ_r by lia. f_equal.
      pose proof (Z.div_mod n 10 ltac:(lia)). lia.
Qed.

Lemma dec_nonneg_spec n : 0 <= n <= max_i32 ->
  dec_nonneg n <> EmptyString /\ all_digits (dec_nonneg n) = true /\ digits_val (dec_nonneg n) 0 = n.
Proof.
  intros Hn. unfold dec_nonneg.
  destruct (dec_pos_fuel_spec 20 n EmptyString) as (ds & E1 & E2 & E3 & E4); [unfold max_i32 in Hn; cbn; lia | lia|].
  assert (Hnil : forall x, x +++ EmptyString = x) by (induction x as [|c t IHt]; cbn [String.append]; [reflexivity | rewrite IHt; reflexivity]).
  rewrite E1, Hnil. split; [exact E2|]. split; [exact E3|].
  specialize (E4 0 EmptyString). rewrite Hnil in E4. rewrite E4. cbn [digits_val]. lia.
Qed.

(* the splitter finds the last dash followed by digits only *)
Lemma all_digits_no_dash x ds : all_digits (x +++ String "-"%char ds) = false.
Proof.
  induction x as [|c t IH]; cbn [String.append all_digits]; [reflexivity|]. rewrite IH. apply andb_false_r.
Qed.

Lemma split_last_dash_spec ds : ds <> EmptyString -> all_digits ds = true ->
  forall S acc best, split_last_dash (S +++ String "-"%char ds) acc best = Some (acc +++ S, ds).
Proof.
  intros Hne Had.
  assert (Htail : forall acc best, split_last_dash ds acc best = best).
  { clear Hne. induction ds as [|c t IH]; intros acc best; cbn [split_last_dash]; [reflexivity|].
    cbn [all_digits] in Had. apply andb_true_iff in Had. destruct Had as [Hc Ht].
    assert (Ascii.eqb c "-"%char = false).
    { destruct (Ascii.eqb c "-"%char) eqn:E; [|reflexivity]. apply Ascii.eqb_eq in E. subst c. discriminate. }
    rewrite H. cbn [andb]. apply IH. exact Ht. }
  assert (Happ1 : forall a c, (a +++ String c EmptyString) = a +++ String c EmptyString) by reflexivity.
  induction S as [|c t IH]; intros acc best; cbn [String.append split_last_dash].
  - rewrite Ascii.eqb_refl. cbn [andb].
    assert (Hn : negb (String.eqb ds "") = true).
    { destruct ds; [congruence | reflexivity]. }
    rewrite Hn, Had. cbn [andb]. rewrite Htail.
    assert (acc +++ "" = acc) by (clear; induction acc as [|c t IHt]; cbn [String.append]; [reflexivity | rewrite IHt; reflexivity]).
    rewrite H. reflexivity.
  - assert (Hnot : (Ascii.eqb c "-"%char && negb (String.eqb (t +++ String "-"%char ds) "") && all_digits (t +++ String "-"%char ds)) = false).
    { rewrite all_digits_no_dash. apply andb_false_r. }
    rewrite Hnot. rewrite IH.
    assert (Hassoc : (acc +++ String c EmptyString) +++ t = acc +++ String c t).
    { clear. induction acc as [|a u IHu]; cbn [String.append]; [reflexivity | rewrite IHu; reflexivity]. }
    rewrite Hassoc. reflexivity.
Qed.

(* C06 (a): for EVERY set name (dashes and digits inside included) and every ordinal in int32 *)
Theorem parse_pod_name S i : 0 <= i <= max_i32 -> parse_name (pod_name S i) = (S, i).
Proof.
  intros Hi. unfold pod_name, parse_name, dec.
  replace (i <? 0) with false by (symmetry; apply Z.ltb_ge; lia).
  destruct (dec_nonneg_spec i Hi) as (H1 & H2 & H3).
  change (S +++ "-" +++ dec_nonneg i) with (S +++ String "-"%char (dec_nonneg i)).
  rewrite (split_last_dash_spec (dec_nonneg i) H1 H2 S EmptyString None). cbn [String.append].
  rewrite H3. replace (i <=? max_i32) with true by (symmetry; apply Z.leb_le; lia). reflexivity.
Qed.

Corollary pod_name_injective S i j : 0 <= i <= max_i32 -> 0 <= j <= max_i32 -> pod_name S i = pod_name S j -> i = j.
Proof.
  intros Hi Hj E. pose proof (parse_pod_name S i Hi) as Pi. rewrite E, (parse_pod_name S j Hj) in Pi. congruence.
Qed.
