(* Json.v — JSON trees as encoding/json sees them, with objects as association lists.
   Used by Convert.v (conversion between the two StatefulSet APIs) and Defaults.v
   (client-side defaulting).  Definitions and elementary lemmas only; no property theorem. *)
From ASTS Require Import Base.
Open Scope string_scope.

Inductive json :=
| JNull
| JBool (b : bool)
| JNum (z : Z)            (* integer literal *)
| JRaw (s : string)       (* any other number literal, kept as text *)
| JStr (s : string)
| JArr (l : list json)
| JObj (l : list (string * json)).

Definition jobj := list (string * json).

(* ---------- induction principle through the nested lists --------------------------------- *)
Fixpoint json_ind' (P : json -> Prop)
  (Hnull : P JNull) (Hbool : forall b, P (JBool b)) (Hnum : forall z, P (JNum z))
  (Hraw : forall s, P (JRaw s)) (Hstr : forall s, P (JStr s))
  (Harr : forall l, Forall P l -> P (JArr l))
  (Hobj : forall l, Forall (fun kv => P (snd kv)) l -> P (JObj l))
  (j : json) {struct j} : P j :=
  match j with
  | JNull => Hnull
  | JBool b => Hbool b
  | JNum z => Hnum z
  | JRaw s => Hraw s
  | JStr s => Hstr s
  | JArr l => Harr l ((fix go (l : list json) : Forall P l :=
                         match l with
                         | [] => Forall_nil P
                         | x :: t => Forall_cons x (json_ind' P Hnull Hbool Hnum Hraw Hstr Harr Hobj x) (go t)
                         end) l)
  | JObj l => Hobj l ((fix go (l : jobj) : Forall (fun kv => P (snd kv)) l :=
                         match l with
                         | [] => Forall_nil _
                         | kv :: t => Forall_cons kv (json_ind' P Hnull Hbool Hnum Hraw Hstr Harr Hobj (snd kv)) (go t)
                         end) l)
  end.

(* ---------- objects ------------------------------------------------------------------------ *)
Fixpoint jlookup (k : string) (l : jobj) : option json :=
  match l with
  | [] => None
  | (k', v) :: t => if String.eqb k k' then Some v else jlookup k t
  end.
(* value under a key; an absent key reads as null (encoding/json leaves the zero value) *)
Definition getv (k : string) (l : jobj) : json :=
  match jlookup k l with Some v => v | None => JNull end.
(* m[k] = v: replace in place, or append *)
Fixpoint jset (k : string) (v : json) (l : jobj) : jobj :=
  match l with
  | [] => [(k, v)]
  | (k', v') :: t => if String.eqb k k' then (k, v) :: t else (k', v') :: jset k v t
  end.
Definition jkeys (l : jobj) : list string := map fst l.

Definition is_null (j : json) : bool := match j with JNull => true | _ => false end.

Definition set_field (k : string) (v : json) (j : json) : json :=
  match j with JObj l => JObj (jset k v l) | _ => j end.
Definition get_field (k : string) (j : json) : json :=
  match j with JObj l => getv k l | _ => JNull end.

(* ---------- equality (exact) and equality up to the order of object keys -------------------- *)
Fixpoint json_eqb (a b : json) {struct a} : bool :=
  match a, b with
  | JNull, JNull => true
  | JBool x, JBool y => Bool.eqb x y
  | JNum x, JNum y => Z.eqb x y
  | JRaw x, JRaw y => String.eqb x y
  | JStr x, JStr y => String.eqb x y
  | JArr l1, JArr l2 =>
      (fix go (l1 l2 : list json) : bool :=
         match l1, l2 with
         | [], [] => true
         | x :: t, y :: u => json_eqb x y && go t u
         | _, _ => false
         end) l1 l2
  | JObj l1, JObj l2 =>
      (fix go (l1 l2 : jobj) : bool :=
         match l1, l2 with
         | [], [] => true
         | kv :: t, kw :: u => String.eqb (fst kv) (fst kw) && json_eqb (snd kv) (snd kw) && go t u
         | _, _ => false
         end) l1 l2
  | _, _ => false
  end.

(* a is contained in b: arrays pointwise, objects by key (same number of entries) *)
Fixpoint jsub (a b : json) {struct a} : bool :=
  match a, b with
  | JNull, JNull => true
  | JBool x, JBool y => Bool.eqb x y
  | JNum x, JNum y => Z.eqb x y
  | JRaw x, JRaw y => String.eqb x y
  | JStr x, JStr y => String.eqb x y
  | JArr l1, JArr l2 =>
      (fix go (l1 l2 : list json) : bool :=
         match l1, l2 with
         | [], [] => true
         | x :: t, y :: u => jsub x y && go t u
         | _, _ => false
         end) l1 l2
  | JObj l1, JObj l2 =>
      Nat.eqb (List.length l1) (List.length l2)
      && (fix go (l1 : jobj) : bool :=
            match l1 with
            | [] => true
            | kv :: t => match jlookup (fst kv) l2 with
                         | Some w => jsub (snd kv) w
                         | None => false
                         end && go t
            end) l1
  | _, _ => false
  end.
(* equality of trees whose objects have unique keys, regardless of key order *)
Definition json_equivb (a b : json) : bool := jsub a b && jsub b a.

Definition ojson_equivb (a b : option json) : bool :=
  match a, b with
  | Some x, Some y => json_equivb x y
  | None, None => true
  | _, _ => false
  end.

(* ---------- association-list lemmas ---------------------------------------------------------- *)
Lemma jlookup_jset_same k v l : jlookup k (jset k v l) = Some v.
Proof.
  induction l as [|[k' v'] t IH]; cbn [jset jlookup].
  - rewrite String.eqb_refl. reflexivity.
  - destruct (String.eqb k k') eqn:E; cbn [jlookup]; [rewrite String.eqb_refl; reflexivity|].
    rewrite E. exact IH.
Qed.

Lemma jlookup_jset_other k v l k2 : k2 <> k -> jlookup k2 (jset k v l) = jlookup k2 l.
Proof.
  intros Hne. induction l as [|[k' v'] t IH]; cbn [jset jlookup].
  - destruct (String.eqb_spec k2 k); [contradiction | reflexivity].
  - destruct (String.eqb_spec k k') as [<-|Hk]; cbn [jlookup].
    + destruct (String.eqb_spec k2 k); [contradiction | reflexivity].
    + rewrite IH. reflexivity.
Qed.

Lemma jset_same k v l : jlookup k l = Some v -> jset k v l = l.
Proof.
  induction l as [|[k' v'] t IH]; cbn [jset jlookup]; [discriminate|].
  destruct (String.eqb_spec k k') as [<-|Hk].
  - intros H. inversion H. reflexivity.
  - intros H. rewrite IH by exact H. reflexivity.
Qed.

Lemma jset_jset k v w l : jset k v (jset k w l) = jset k v l.
Proof.
  induction l as [|[k' v'] t IH]; cbn [jset].
  - rewrite String.eqb_refl. reflexivity.
  - destruct (String.eqb k k') eqn:E; cbn [jset]; [rewrite String.eqb_refl; reflexivity|].
    rewrite E, IH. reflexivity.
Qed.

Lemma getv_jset_same k v l : getv k (jset k v l) = v.
Proof. unfold getv. rewrite jlookup_jset_same. reflexivity. Qed.
Lemma getv_jset_other k v l k2 : k2 <> k -> getv k2 (jset k v l) = getv k2 l.
Proof. intros H. unfold getv. rewrite jlookup_jset_other by exact H. reflexivity. Qed.

Lemma jlookup_None_iff k l : jlookup k l = None <-> ~ In k (jkeys l).
Proof.
  unfold jkeys. induction l as [|[k' v'] t IH]; cbn [jlookup map fst In]; [tauto|].
  destruct (String.eqb_spec k k') as [<-|Hk].
  - split; [discriminate | intros H; exfalso; apply H; left; reflexivity].
  - rewrite IH. split; [intros H [E|E]; [congruence | contradiction] | tauto].
Qed.

Lemma jlookup_Some_In k l v : jlookup k l = Some v -> In (k, v) l.
Proof.
  induction l as [|[k' v'] t IH]; cbn [jlookup]; [discriminate|].
  destruct (String.eqb_spec k k') as [<-|Hk].
  - intros H; inversion H; left; reflexivity.
  - intros H; right; apply IH; exact H.
Qed.

Lemma jlookup_In_NoDup k v l : NoDup (jkeys l) -> In (k, v) l -> jlookup k l = Some v.
Proof.
  unfold jkeys. induction l as [|[k' v'] t IH]; intros Hnd Hin; [destruct Hin|].
  cbn [map fst] in Hnd. inversion Hnd as [|? ? Hn Ht]; subst. cbn [jlookup].
  destruct Hin as [E|Hin].
  - inversion E; subst. rewrite String.eqb_refl. reflexivity.
  - destruct (String.eqb_spec k k') as [<-|Hk].
    + exfalso. apply Hn. apply in_map_iff. exists (k, v). split; [reflexivity | exact Hin].
    + apply IH; assumption.
Qed.

Lemma jset_keys_in k v l x : In x (jkeys (jset k v l)) <-> x = k \/ In x (jkeys l).
Proof.
  unfold jkeys. induction l as [|[k' v'] t IH]; cbn [jset map fst In].
  - intuition.
  - destruct (String.eqb_spec k k') as [<-|Hk]; cbn [map fst In]; [intuition|].
    rewrite IH. intuition.
Qed.

Lemma jset_NoDup k v l : NoDup (jkeys l) -> NoDup (jkeys (jset k v l)).
Proof.
  unfold jkeys. induction l as [|[k' v'] t IH]; intros H; cbn [jset map fst].
  - constructor; [intros [] | constructor].
  - inversion H as [|? ? Hn Ht]; subst.
    destruct (String.eqb_spec k k') as [<-|Hk]; cbn [map fst].
    + constructor; assumption.
    + constructor; [|apply IH; exact Ht]. intros Hin. apply (jset_keys_in k v t k') in Hin.
      destruct Hin as [E|Hin]; [congruence | contradiction].
Qed.
