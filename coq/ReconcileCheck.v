(* ReconcileCheck.v — decidable comparison of the model's reconcile with an observation of the
   real controller (used by the correspondence files the driver writes).  Definitions only. *)
From ASTS Require Import Base Slots Names World Reconcile.

Definition opt_eqb {A} (f : A -> A -> bool) (a b : option A) : bool :=
  match a, b with Some x, Some y => f x y | None, None => true | _, _ => false end.
Definition status_eqb (a b : status) : bool :=
  (st_replicas a =? st_replicas b) && (st_ready a =? st_ready b) && (st_current a =? st_current b)
  && (st_updated a =? st_updated b) && String.eqb (st_currev a) (st_currev b)
  && String.eqb (st_updrev a) (st_updrev b) && (st_obsgen a =? st_obsgen b) && opt_eqb Z.eqb (st_coll a) (st_coll b).
Definition errkind_eqb (a b : errkind) : bool :=
  match a, b with
  | E500, E500 | EConflict, EConflict | ENotFound, ENotFound | EExists, EExists | EInvalid, EInvalid
  | ETimeout, ETimeout | EOther, EOther => true
  | _, _ => false end.
Definition call_eqb (a b : call) : bool :=
  match a, b with
  | CListRevs x, CListRevs y => Bool.eqb x y
  | CGetSet, CGetSet => true
  | CPatchRev x, CPatchRev y => String.eqb x y
  | CPatchPod x a1, CPatchPod y a2 => String.eqb x y && Bool.eqb a1 a2
  | CCreateRev x r1 t1, CCreateRev y r2 t2 => String.eqb x y && (r1 =? r2) && (t1 =? t2)
  | CGetRev x, CGetRev y => String.eqb x y
  | CUpdateRev x r1 m1, CUpdateRev y r2 m2 => String.eqb x y && (r1 =? r2) && Bool.eqb m1 m2
  | CDeletePod x, CDeletePod y => String.eqb x y
  | CCreateClaim x, CCreateClaim y => String.eqb x y
  | CCreatePod x r1 t1, CCreatePod y r2 t2 => String.eqb x y && String.eqb r1 r2 && (t1 =? t2)
  | CUpdatePod x, CUpdatePod y => String.eqb x y
  | CUpdateStatus s1 v1, CUpdateStatus s2 v2 => status_eqb s1 s2 && (v1 =? v2)
  | CDeleteRev x, CDeleteRev y => String.eqb x y
  | _, _ => false
  end.
Definition entry_eqb (a b : call * option errkind) : bool :=
  call_eqb (fst a) (fst b) && opt_eqb errkind_eqb (snd a) (snd b).
Fixpoint list_eqb {A} (f : A -> A -> bool) (a b : list A) : bool :=
  match a, b with
  | [], [] => true
  | x :: s, y :: t => f x y && list_eqb f s t
  | _, _ => false
  end.
Definition outcome_eqb (a b : outcome) : bool :=
  match a, b with OOk, OOk | OErr, OErr | OPanic, OPanic | OFuel, OFuel => true | _, _ => false end.

(* ---- canonical order inside the windows whose order the Go runtime leaves open (map iteration):
   the pod claim window (patch pods / the memoised fresh GET) and the claim creations of one pod *)
Definition entry := (call * option errkind)%type.
Definition in_claim_window (e : entry) : bool :=
  match fst e with CPatchPod _ _ | CGetSet => true | _ => false end.
Definition is_create_claim (e : entry) : bool :=
  match fst e with CCreateClaim _ => true | _ => false end.
Definition key_of (e : entry) : string :=
  match fst e with CGetSet => "" | c => shape_of c end.
Fixpoint insert_entry (e : entry) (l : list entry) : list entry :=
  match l with
  | [] => [e]
  | q :: t => if String.ltb (key_of e) (key_of q) then e :: l else q :: insert_entry e t
  end.
Definition sort_entries (l : list entry) : list entry := fold_right insert_entry [] l.
(* split off the maximal prefix satisfying f *)
Fixpoint span {A} (f : A -> bool) (l : list A) : list A * list A :=
  match l with
  | x :: t => if f x then let '(a, b) := span f t in (x :: a, b) else ([], l)
  | [] => ([], [])
  end.
Fixpoint canon_fuel (fuel : nat) (l : list entry) : list entry :=
  match fuel with
  | O => l
  | S f =>
    match l with
    | [] => []
    | e :: t =>
        if in_claim_window e then
          let '(w, rest) := span in_claim_window l in sort_entries w ++ canon_fuel f rest
        else if is_create_claim e then
          let '(w, rest) := span is_create_claim l in sort_entries w ++ canon_fuel f rest
        else e :: canon_fuel f t
    end
  end.
Definition canon (l : list entry) : list entry := canon_fuel (S (length l)) l.

(* ---- digests of the API state, insensitive to list order ---- *)
Definition bstr (b : bool) : string := if b then "T" else "F".
Definition ostr (o : option string) : string := match o with Some x => "=" +++ x | None => "~" end.
Definition owner_str (o : option owner) : string :=
  match o with Some x => o_kind x +++ "/" +++ o_name x +++ "/" +++ o_uid x | None => "~" end.
Fixpoint insert_str (x : string) (l : list string) : list string :=
  match l with
  | [] => [x]
  | y :: t => if String.ltb x y then x :: l else y :: insert_str x t
  end.
Definition sort_strs (l : list string) : list string := fold_right insert_str [] l.
Definition pod_digest (p : pod) : string :=
  "pod " +++ p_name p +++ " m" +++ bstr (p_match p) +++ " o" +++ owner_str (p_owner p) +++ " ph=" +++ p_phase p
  +++ " r" +++ bstr (p_ready p) +++ " t" +++ bstr (p_term p) +++ " rev=" +++ p_rev p +++ " nl" +++ ostr (p_namelabel p)
  +++ " tm" +++ dec (p_tmpl p) +++ " v["
  +++ String.concat "," (sort_strs (map (fun v => v_name v +++ ostr (v_claim v)) (p_vols p))) +++ "]".
Definition rev_digest (r : rev) : string :=
  "rev " +++ r_name r +++ " #" +++ dec (r_revision r) +++ " tm" +++ dec (r_tmpl r) +++ " o" +++ owner_str (r_owner r)
  +++ " m" +++ bstr (r_match r) +++ " mk" +++ ostr (r_marker r) +++ " h" +++ ostr (r_hash r) +++ " ln" +++ bstr (r_labels_nil r).
Definition status_digest (st : status) : string :=
  dec (st_replicas st) +++ "/" +++ dec (st_ready st) +++ "/" +++ dec (st_current st) +++ "/" +++ dec (st_updated st)
  +++ " cur=" +++ st_currev st +++ " upd=" +++ st_updrev st +++ " og" +++ dec (st_obsgen st)
  +++ " cc" +++ match st_coll st with Some c => dec c | None => "~" end.
Definition set_digest (s : option sset) : string :=
  match s with
  | None => "set ~"
  | Some x => "set " +++ s_name x +++ " rv" +++ dec (s_rv x) +++ " d" +++ bstr (s_deleting x) +++ " st " +++ status_digest (s_status x)
  end.
Definition world_digest (w : world) : list string :=
  set_digest (w_set w) :: sort_strs (map pod_digest (w_pods w)) ++ sort_strs (map rev_digest (w_revs w))
  ++ sort_strs (map (fun c => "claim " +++ c) (w_claims w)).

(* ---- the case record the driver fills in ---- *)
Record recon_case := {
  rc_hashes : list ((Z * Z) * string);
  rc_api : world; rc_cache : world; rc_faults : list fault;
  rc_out : outcome; rc_log : list entry;
  rc_final : option world }.

Definition recon_check (c : recon_case) : bool :=
  let '(o, l, w) := reconcile (rc_hashes c) (rc_api c) (rc_cache c) (rc_faults c) in
  outcome_eqb o (rc_out c) && list_eqb entry_eqb (canon l) (canon (rc_log c))
  && match rc_final c with
     | Some f => list_eqb String.eqb (world_digest w) (world_digest f)
     | None => true end.

(* what the model says, for replay output *)
Definition recon_model (c : recon_case) :=
  let '(o, l, w) := reconcile (rc_hashes c) (rc_api c) (rc_cache c) (rc_faults c) in
  (o, map (fun e => (shape_of (fst e), snd e)) (canon l), world_digest w).

(* ---- projections: each property compares only the calls it speaks about ---- *)
Definition pi_pod_delete (e : entry) : bool := match fst e with CDeletePod _ => true | _ => false end.
Definition pi_pod_create (e : entry) : bool := match fst e with CCreatePod _ _ _ => true | _ => false end.
Definition pi_pod_cd (e : entry) : bool := pi_pod_delete e || pi_pod_create e.
Definition pi_pod_write (e : entry) : bool :=
  match fst e with CDeletePod _ | CCreatePod _ _ _ | CUpdatePod _ | CPatchPod _ _ | CCreateClaim _ => true | _ => false end.
Definition pi_status (e : entry) : bool := match fst e with CUpdateStatus _ _ => true | _ => false end.
Definition pi_rev_delete (e : entry) : bool := match fst e with CDeleteRev _ => true | _ => false end.
Definition pi_rev_write (e : entry) : bool :=
  match fst e with CCreateRev _ _ _ | CUpdateRev _ _ _ | CPatchRev _ | CDeleteRev _ => true | _ => false end.
Definition pi_write (e : entry) : bool :=
  match fst e with CListRevs _ | CGetSet | CGetRev _ => false | _ => true end.
Definition pi_own (e : entry) : bool :=
  match fst e with CPatchPod _ _ | CPatchRev _ | CGetSet | CUpdateRev _ _ _ | CDeleteRev _ | CDeletePod _ | CUpdatePod _ => true | _ => false end.
Definition pi_all (e : entry) : bool := true.

Definition recon_check_proj (pi : entry -> bool) (cmp_outcome : bool) (c : recon_case) : bool :=
  let '(o, l, w) := reconcile (rc_hashes c) (rc_api c) (rc_cache c) (rc_faults c) in
  (if cmp_outcome then outcome_eqb o (rc_out c) else true)
  && list_eqb entry_eqb (filter pi (canon l)) (filter pi (canon (rc_log c))).
Definition recon_model_proj (pi : entry -> bool) (c : recon_case) :=
  let '(o, l, w) := reconcile (rc_hashes c) (rc_api c) (rc_cache c) (rc_faults c) in
  (o, map (fun e => (shape_of (fst e), snd e)) (filter pi (canon l))).
(* panic flag only (C15) *)
Definition recon_check_panic (c : recon_case) : bool :=
  let '(o, l, w) := reconcile (rc_hashes c) (rc_api c) (rc_cache c) (rc_faults c) in
  Bool.eqb (outcome_eqb o OPanic) (outcome_eqb (rc_out c) OPanic).
