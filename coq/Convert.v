(* Convert.v — model of the conversion between the built-in StatefulSet API and the Advanced
   StatefulSet API (client/apis/apps/v1/helper/hijack.go: FromBuiltinStatefulSet,
   ToBuiltinStatefulSet, ToBuiltinStetefulsetList).  The Go code is
       json.Marshal(x) ; json.Unmarshal(data, &fresh value of the other struct type) ; fix apiVersion
   and the caller later marshals the result again.  At the level of JSON trees,
       conv S j  =  json.Marshal (json.Unmarshal j into a fresh value of the Go type described by S)
   for a schema S extracted from the Go types by reflection (harness_c19 command `schemas`).
   Definitions only. *)
From ASTS Require Import Base Json.
Open Scope string_scope.
Open Scope Z_scope.

(* ---------- schemas --------------------------------------------------------------------------
   scalar  : bool / intN, uintN (with range) / string kinds (incl. named string types) / float
   opaque  : a struct type of another package that is the identical Go type on both sides
             (ObjectMeta, PodTemplateSpec, PersistentVolumeClaim, LabelSelector, Time, ListMeta,
             IntOrString ...): its JSON is copied verbatim; `zero` is the JSON of its zero value
   pointer, slice, string-keyed map, struct (fields: json name, omitempty, schema; embedded
   structs are flattened by the translator, as encoding/json does).                           *)
Inductive skind := KBool | KInt (lo hi : Z) | KString | KFloat.

Inductive schema :=
| SScalar (k : skind)
| SOpaque (name : string) (zero : json)
| SPtr (s : schema)
| SSlice (s : schema)
| SMap (s : schema)
| SStruct (fs : list (string * bool * schema)).

Definition field := (string * bool * schema)%type.
Definition fname (f : field) : string := fst (fst f).
Definition fomit (f : field) : bool := snd (fst f).
Definition fsch (f : field) : schema := snd f.

Fixpoint flookup (k : string) (fs : list field) : option field :=
  match fs with
  | [] => None
  | f :: t => if String.eqb k (fname f) then Some f else flookup k t
  end.

(* ---------- emptiness (the omitempty test of encoding/json, by Go kind) ---------------------- *)
Definition never_empty (s : schema) : bool :=
  match s with SStruct _ | SOpaque _ _ => true | _ => false end.

Definition is_empty (s : schema) (v : json) : bool :=
  match s, v with
  | SScalar KBool, JBool false => true
  | SScalar (KInt _ _), JNum 0 => true
  | SScalar KString, JStr EmptyString => true
  | SScalar KFloat, JNum 0 => true
  | SPtr _, JNull => true
  | SSlice _, JNull => true
  | SSlice _, JArr [] => true
  | SMap _, JNull => true
  | SMap _, JObj [] => true
  | _, _ => false
  end.

(* ---------- scalars ---------------------------------------------------------------------------- *)
Definition zero_scalar (k : skind) : json :=
  match k with KBool => JBool false | KInt _ _ => JNum 0 | KString => JStr "" | KFloat => JNum 0 end.

(* Unmarshal into a fresh scalar then Marshal; null leaves the zero value; a JSON value of
   the wrong type or an integer out of range is an error (None) *)
Definition conv_scalar (k : skind) (j : json) : option json :=
  match k, j with
  | _, JNull => Some (zero_scalar k)
  | KBool, JBool _ => Some j
  | KInt lo hi, JNum z => if (lo <=? z) && (z <=? hi) then Some j else None
  | KString, JStr _ => Some j
  | KFloat, JNum _ => Some j
  | KFloat, JRaw _ => Some j
  | _, _ => None
  end.

(* ---------- helpers ---------------------------------------------------------------------------- *)
Fixpoint mapM {A B} (f : A -> option B) (l : list A) : option (list B) :=
  match l with
  | [] => Some []
  | x :: t => match f x, mapM f t with
              | Some y, Some r => Some (y :: r)
              | _, _ => None
              end
  end.
Definition omap {A B} (f : A -> B) (o : option A) : option B :=
  match o with Some x => Some (f x) | None => None end.

(* the fields of a struct, in declaration order; an absent key reads as null *)
Fixpoint conv_fields (cv : schema -> json -> option json) (fs : list field) (l : jobj)
  : option jobj :=
  match fs with
  | [] => Some []
  | f :: t =>
      match cv (fsch f) (getv (fname f) l), conv_fields cv t l with
      | Some v, Some r => Some (if fomit f && is_empty (fsch f) v then r else (fname f, v) :: r)
      | _, _ => None
      end
  end.

(* ---------- the conversion ----------------------------------------------------------------------- *)
Fixpoint conv (s : schema) (j : json) {struct s} : option json :=
  match s with
  | SScalar k => conv_scalar k j
  | SOpaque _ z => match j with JNull => Some z | _ => Some j end
  | SPtr s' => match j with JNull => Some JNull | _ => conv s' j end
  | SSlice s' =>
      match j with
      | JNull => Some JNull
      | JArr l => omap JArr (mapM (conv s') l)
      | _ => None
      end
  | SMap s' =>
      match j with
      | JNull => Some JNull
      | JObj l => omap JObj (mapM (fun kv => omap (pair (fst kv)) (conv s' (snd kv))) l)
      | _ => None
      end
  | SStruct fs =>
      match (match j with JNull => Some [] | JObj l => Some l | _ => None end) with
      | None => None
      | Some l =>
          omap JObj
            ((fix go (fs : list (string * bool * schema)) : option jobj :=
                match fs with
                | [] => Some []
                | f :: t =>
                    let '(nb, s') := f in
                    match conv s' (getv (fst nb) l), go t with
                    | Some v, Some r => Some (if snd nb && is_empty s' v then r else (fst nb, v) :: r)
                    | _, _ => None
                    end
                end) fs)
      end
  end.

(* From/ToBuiltinStatefulSet: convert, then overwrite TypeMeta.APIVersion *)
Definition api_key : string := "apiVersion".
Definition as_version : string := "apps.pingcap.com/v1".
Definition builtin_version : string := "apps/v1".

Definition convert_to (S : schema) (ver : string) (j : json) : option json :=
  omap (set_field api_key (JStr ver)) (conv S j).

(* ToBuiltinStetefulsetList: additionally every item gets the apiVersion *)
Definition items_key : string := "items".
Definition set_items_api (ver : string) (j : json) : json :=
  match j with
  | JObj l => match jlookup items_key l with
              | Some (JArr xs) => JObj (jset items_key (JArr (map (set_field api_key (JStr ver)) xs)) l)
              | _ => j
              end
  | _ => j
  end.
Definition convert_list_to (SL : schema) (ver : string) (j : json) : option json :=
  omap (fun x => set_items_api ver (set_field api_key (JStr ver) x)) (conv SL j).

Definition items_of (j : json) : list json :=
  match get_field items_key j with JArr xs => xs | _ => [] end.

(* ---------- well-formed schemas, compatibility ------------------------------------------------- *)
Fixpoint nodupb (l : list string) : bool :=
  match l with
  | [] => true
  | x :: t => negb (existsb (String.eqb x) t) && nodupb t
  end.

(* field names are pairwise distinct in every struct; 0 belongs to every integer range *)
Fixpoint wf_schema (s : schema) : bool :=
  match s with
  | SScalar (KInt lo hi) => (lo <=? 0) && (0 <=? hi)
  | SScalar _ | SOpaque _ _ => true
  | SPtr s' | SSlice s' | SMap s' => wf_schema s'
  | SStruct fs =>
      nodupb (map fname fs)
      && (fix go (fs : list (string * bool * schema)) : bool :=
            match fs with
            | [] => true
            | f :: t => let '(_, s') := f in wf_schema s' && go t
            end) fs
  end.

Definition skind_eqb (a b : skind) : bool :=
  match a, b with
  | KBool, KBool | KString, KString | KFloat, KFloat => true
  | KInt l1 h1, KInt l2 h2 => (l1 =? l2) && (h1 =? h2)
  | _, _ => false
  end.

(* compat A B: every field that A models exists in B under the same json name, with the same
   omitempty flag and a compatible type; B may have more fields (A drops them). *)
Fixpoint compat (a b : schema) {struct a} : bool :=
  match a, b with
  | SScalar k1, SScalar k2 => skind_eqb k1 k2
  | SOpaque n1 z1, SOpaque n2 z2 => String.eqb n1 n2 && json_eqb z1 z2
  | SPtr a', SPtr b' => compat a' b'
  | SSlice a', SSlice b' => compat a' b'
  | SMap a', SMap b' => compat a' b'
  | SStruct fa, SStruct fb =>
      (fix go (fa : list (string * bool * schema)) : bool :=
         match fa with
         | [] => true
         | f :: t =>
             let '(nb, sa) := f in
             match flookup (fst nb) fb with
             | Some g => Bool.eqb (snd nb) (fomit g) && compat sa (fsch g)
             | None => false
             end && go t
         end) fa
  | _, _ => false
  end.

(* the struct has the TypeMeta field apiVersion (string, omitempty) *)
Definition has_api (s : schema) : bool :=
  match s with
  | SStruct fs => match flookup api_key fs with
                  | Some (_, true, SScalar KString) => true
                  | _ => false
                  end
  | _ => false
  end.

(* field names that B has and A lacks, as paths (reported in the evidence: dropped by design) *)
Fixpoint dropped (pre : string) (a b : schema) {struct b} : list string :=
  match b, a with
  | SPtr b', SPtr a' | SSlice b', SSlice a' | SMap b', SMap a' => dropped pre a' b'
  | SStruct fb, SStruct fa =>
      (fix go (fb : list (string * bool * schema)) : list string :=
         match fb with
         | [] => []
         | g :: t =>
             let '(nb, sb) := g in
             app (match flookup (fst nb) fa with
                  | Some f => dropped (String.append pre (String.append (fst nb) ".")) (fsch f) sb
                  | None => [String.append pre (fst nb)]
                  end) (go t)
         end) fb
  | _, _ => []
  end.

(* ---------- canonical trees: what json.Marshal of a value of the Go type S can produce ------- *)
Definition canon_scalar (k : skind) (j : json) : Prop :=
  match k, j with
  | KBool, JBool _ => True
  | KInt lo hi, JNum z => lo <= z <= hi
  | KString, JStr _ => True
  | KFloat, JNum _ => True
  | KFloat, JRaw _ => True
  | _, _ => False
  end.

Fixpoint canon (s : schema) (j : json) {struct s} : Prop :=
  match s with
  | SScalar k => canon_scalar k j
  | SOpaque _ z => j = JNull -> z = JNull
  | SPtr s' => j = JNull \/ canon s' j
  | SSlice s' => j = JNull \/ exists l, j = JArr l /\ Forall (canon s') l
  | SMap s' => j = JNull \/ exists l, j = JObj l /\ NoDup (jkeys l) /\ Forall (fun kv => canon s' (snd kv)) l
  | SStruct fs =>
      exists l, j = JObj l /\ NoDup (jkeys l)
        /\ (forall k, In k (jkeys l) -> In k (map fname fs))
        /\ (fix go (fs : list (string * bool * schema)) : Prop :=
              match fs with
              | [] => True
              | f :: t =>
                  let '(nb, s') := f in
                  match jlookup (fst nb) l with
                  | Some v => canon s' v /\ (snd nb = true -> is_empty s' v = false)
                  | None => snd nb = true /\ never_empty s' = false
                  end /\ go t
              end) fs
  end.

(* ---------- agreement on the fields a schema models --------------------------------------------- *)
Fixpoint agree (s : schema) (x y : json) {struct s} : Prop :=
  match s with
  | SScalar _ | SOpaque _ _ => x = y
  | SPtr s' => (x = JNull /\ y = JNull) \/ (x <> JNull /\ y <> JNull /\ agree s' x y)
  | SSlice s' => (x = JNull /\ y = JNull)
                 \/ exists lx ly, x = JArr lx /\ y = JArr ly /\ Forall2 (agree s') lx ly
  | SMap s' => (x = JNull /\ y = JNull)
               \/ exists lx ly, x = JObj lx /\ y = JObj ly
                    /\ Forall2 (fun a b => fst a = fst b /\ agree s' (snd a) (snd b)) lx ly
  | SStruct fs =>
      exists lx ly, x = JObj lx /\ y = JObj ly
        /\ (fix go (fs : list (string * bool * schema)) : Prop :=
              match fs with
              | [] => True
              | f :: t =>
                  let '(nb, s') := f in
                  match jlookup (fst nb) lx, jlookup (fst nb) ly with
                  | Some a, Some b => agree s' a b
                  | None, None => True
                  | _, _ => False
                  end /\ go t
              end) fs
  end.

(* ---------- correspondence records (harness commands `convert`, `hijackrt`) --------------------- *)
(* one conversion step observed on the real code: input tree, output tree (None = error) *)
Record conv_case := { cv_to_as : bool;            (* true: FromBuiltin, false: ToBuiltin *)
                      cv_list : bool;             (* ToBuiltinStetefulsetList *)
                      cv_in : json; cv_out : option json }.

Definition conv_check (sa sb sbl : schema) (c : conv_case) : bool :=
  let m := if cv_list c then convert_list_to sbl builtin_version (cv_in c)
           else if cv_to_as c then convert_to sa as_version (cv_in c)
           else convert_to sb builtin_version (cv_in c) in
  ojson_equivb m (cv_out c).
