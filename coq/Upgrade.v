(* Upgrade.v — executable model of client/apis/apps/v1/helper/upgrade.go: func Upgrade
   (built-in StatefulSet -> Advanced StatefulSet), as it is in /repo after commit 5b12a75.
   A monadic program over two API states (built-in side: the StatefulSet and the namespace's
   ControllerRevisions; advanced side: the Advanced StatefulSet of the same name), a label
   selector with matchLabels and matchExpressions, a fault oracle addressed by call index and
   explicit process death.  Definitions only; proofs are in UpgradeProofs.v.

   Modelling decisions (each is exercised by the correspondence run of props/c17.py):
   - label maps are association lists (first binding wins; Go maps have distinct keys);
     a nil map is None; the correspondence compares label maps up to order;
   - spec, status and "metadata" (labels, annotations ...) of the two StatefulSet kinds are
     abstract values (Z); helper.FromBuiltinStatefulSet (a JSON re-typing) is the identity on
     them — the conversion itself is the subject of C18/C19, not of this model;
   - the advanced side is the slot "Advanced StatefulSet named like the built-in one"; every
     call carries the name it addresses;
   - API semantics follow the fake clientset tracker (create -> AlreadyExists, update ->
     NotFound, delete -> NotFound) plus what a real API server does for a custom resource with
     the status subresource: create ignores the status and refuses a resourceVersion, update
     keeps the stored status, update-status writes only the status, both check the
     resourceVersion; a delete whose propagation policy is not Orphan hands the dependents
     (the revisions owned by the set; and its pods: flag w_cascaded) to the garbage collector;
   - metav1.LabelSelectorAsSelector: nil selector -> Nothing, whose String() is "" and which the
     server therefore reads as Everything; In/NotIn need values, Exists/DoesNotExist must have
     none (syntax of keys and values is assumed valid);
   - LIST returns the revisions in store order (the harness supplies them in name order, the
     order of the tracker and of a real API server). *)
From ASTS Require Import Base.

(* ---------------- labels ------------------------------------------------------------------- *)
Definition labels := list (string * string).

Definition marker_key : string := "apps.pingcap.com/upgrade-to-asts"%string.

Definition smem (x : string) (l : list string) : bool := existsb (String.eqb x) l.

Fixpoint lookup (k : string) (l : labels) : option string :=
  match l with
  | [] => None
  | (k', v) :: t => if String.eqb k' k then Some v else lookup k t
  end.

(* delete(m, k) for every k of ks *)
Definition remove_keys (ks : list string) (l : labels) : labels :=
  filter (fun kv => negb (smem (fst kv) ks)) l.

(* m[k] = v *)
Definition set_label (k v : string) (l : labels) : labels := (k, v) :: remove_keys [k] l.

(* a nil map reads as the empty map *)
Definition lab_of (o : option labels) : labels := match o with Some l => l | None => [] end.

(* ---------------- label selectors ----------------------------------------------------------- *)
Inductive sel_op := OpIn | OpNotIn | OpExists | OpDoesNotExist.
Record sel_expr := { e_key : string; e_op : sel_op; e_vals : list string }.
Record selector := { sel_labels : labels; sel_exprs : list sel_expr }.

Definition is_nil {A} (l : list A) : bool := match l with [] => true | _ => false end.

(* labels.NewRequirement: In/NotIn need at least one value, Exists/DoesNotExist none *)
Definition expr_valid (e : sel_expr) : bool :=
  match e_op e with
  | OpIn | OpNotIn => negb (is_nil (e_vals e))
  | OpExists | OpDoesNotExist => is_nil (e_vals e)
  end.
Definition selector_valid (s : selector) : bool := forallb expr_valid (sel_exprs s).

(* Requirement.Matches *)
Definition eq_matches (k v : string) (l : labels) : bool :=
  match lookup k l with Some x => String.eqb x v | None => false end.
Definition expr_matches (e : sel_expr) (l : labels) : bool :=
  match e_op e with
  | OpIn => match lookup (e_key e) l with Some x => smem x (e_vals e) | None => false end
  | OpNotIn => match lookup (e_key e) l with Some x => negb (smem x (e_vals e)) | None => true end
  | OpExists => match lookup (e_key e) l with Some _ => true | None => false end
  | OpDoesNotExist => match lookup (e_key e) l with Some _ => false | None => true end
  end.
Definition sel_matches (s : selector) (l : labels) : bool :=
  forallb (fun kv => eq_matches (fst kv) (snd kv) l) (sel_labels s)
  && forallb (fun e => expr_matches e l) (sel_exprs s).

(* what LIST with ListOptions{LabelSelector: selector.String()} returns for an object *)
Definition list_matches (os : option selector) (ol : option labels) : bool :=
  match os with
  | None => true                       (* Nothing.String() = "" = no restriction *)
  | Some s => sel_matches s (lab_of ol)
  end.

(* ---------------- objects and API state ----------------------------------------------------- *)
Record revision := { rv_name : string; rv_labels : option labels; rv_owner : option string }.

(* the built-in StatefulSet object handed to Upgrade by its caller *)
Record bset := { b_name : string; b_selector : option selector; b_meta : Z; b_spec : Z; b_status : Z }.

(* the Advanced StatefulSet as stored *)
Record aset := { a_meta : Z; a_spec : Z; a_status : Z; a_rv : Z }.

Record world := {
  w_sts : bool;                 (* the built-in StatefulSet exists *)
  w_revs : list revision;       (* ControllerRevisions of the namespace *)
  w_asts : option aset;         (* the Advanced StatefulSet of the same name *)
  w_cascaded : bool }.          (* a cascading delete handed the set's pods to the garbage collector *)

Definition with_revs (w : world) (l : list revision) : world :=
  {| w_sts := w_sts w; w_revs := l; w_asts := w_asts w; w_cascaded := w_cascaded w |}.
Definition with_asts (w : world) (a : option aset) : world :=
  {| w_sts := w_sts w; w_revs := w_revs w; w_asts := a; w_cascaded := w_cascaded w |}.

(* ---------------- calls ---------------------------------------------------------------------- *)
Inductive policy := PNone | POrphan | PBackground | PForeground.

Inductive call :=
| CListRevs (sel : option selector)
| CUpdateRev (name : string) (lbl : labels)
| CGetAsts (name : string)
| CCreateAsts (name : string) (meta spec : Z) (rv : option Z)
| CUpdateAsts (name : string) (meta spec : Z) (rv : Z)
| CUpdateStatus (name : string) (status : Z) (rv : Z)
| CDeleteSts (name : string) (p : policy)
| COther (verb resource name : string).     (* anything else, e.g. a call on pods or claims *)

Inductive resource := RControllerRevisions | RAdvancedStatefulSets | RBuiltinStatefulSets | ROtherResource.
Definition call_resource (c : call) : resource :=
  match c with
  | CListRevs _ | CUpdateRev _ _ => RControllerRevisions
  | CGetAsts _ | CCreateAsts _ _ _ _ | CUpdateAsts _ _ _ _ | CUpdateStatus _ _ _ => RAdvancedStatefulSets
  | CDeleteSts _ _ => RBuiltinStatefulSets
  | COther _ _ _ => ROtherResource
  end.
Definition is_delete (c : call) : bool := match c with CDeleteSts _ _ => true | _ => false end.
Definition is_other (c : call) : bool := match c with COther _ _ _ => true | _ => false end.

Inductive errkind := E500 | EConflict | ENotFound | EExists | ETimeout | EBadRequest | EOther.

Inductive reply :=
| RRevs (l : list revision)
| RAsts (a : aset)
| RUnit
| RErr (e : errkind).

(* ---------------- API-server semantics ------------------------------------------------------- *)
Definition has_rev (n : string) (l : list revision) : bool :=
  existsb (fun r => String.eqb (rv_name r) n) l.
Definition upd_rev (n : string) (lbl : labels) (r : revision) : revision :=
  if String.eqb (rv_name r) n
  then {| rv_name := rv_name r; rv_labels := Some lbl; rv_owner := rv_owner r |}
  else r.
Definition owned_by (n : string) (r : revision) : bool :=
  match rv_owner r with Some o => String.eqb o n | None => false end.
Definition is_orphan_policy (p : policy) : bool := match p with POrphan => true | _ => false end.

Definition api_step (c : call) (w : world) : reply * world :=
  match c with
  | CListRevs sel => (RRevs (filter (fun r => list_matches sel (rv_labels r)) (w_revs w)), w)
  | CUpdateRev n lbl =>
      if has_rev n (w_revs w) then (RUnit, with_revs w (map (upd_rev n lbl) (w_revs w)))
      else (RErr ENotFound, w)
  | CGetAsts _ =>
      match w_asts w with Some a => (RAsts a, w) | None => (RErr ENotFound, w) end
  | CCreateAsts _ meta spec rv =>
      match rv with
      | Some _ => (RErr EBadRequest, w)
      | None =>
          match w_asts w with
          | Some _ => (RErr EExists, w)
          | None => let a := {| a_meta := meta; a_spec := spec; a_status := 0; a_rv := 1 |} in
                    (RAsts a, with_asts w (Some a))
          end
      end
  | CUpdateAsts _ meta spec rv =>
      match w_asts w with
      | None => (RErr ENotFound, w)
      | Some cur =>
          if a_rv cur =? rv
          then let a := {| a_meta := meta; a_spec := spec; a_status := a_status cur; a_rv := rv + 1 |} in
               (RAsts a, with_asts w (Some a))
          else (RErr EConflict, w)
      end
  | CUpdateStatus _ st rv =>
      match w_asts w with
      | None => (RErr ENotFound, w)
      | Some cur =>
          if a_rv cur =? rv
          then let a := {| a_meta := a_meta cur; a_spec := a_spec cur; a_status := st; a_rv := rv + 1 |} in
               (RAsts a, with_asts w (Some a))
          else (RErr EConflict, w)
      end
  | CDeleteSts n p =>
      if w_sts w
      then (RUnit, {| w_sts := false;
                      w_revs := if is_orphan_policy p then w_revs w
                                else filter (fun r => negb (owned_by n r)) (w_revs w);
                      w_asts := w_asts w;
                      w_cascaded := if is_orphan_policy p then w_cascaded w else true |})
      else (RErr ENotFound, w)
  | COther _ _ _ => (RUnit, w)
  end.

(* ---------------- faults, process death, the monad ------------------------------------------ *)
Inductive fkind := F500 | FConflict | FNotFound | FExists | FTimeoutLost | FTimeoutApplied
                 | FKillBefore      (* the process dies when it is about to send the call *)
                 | FKillAfter.      (* the process dies after the server has applied the call *)
Definition oracle := nat -> option fkind.      (* addressed by the index of the call in the run *)
Definition no_faults : oracle := fun _ => None.
Definition fault_at (k : nat) (f : fkind) : oracle := fun n => if Nat.eqb n k then Some f else None.

Definition err_of_fault (f : fkind) : errkind :=
  match f with
  | F500 => E500 | FConflict => EConflict | FNotFound => ENotFound | FExists => EExists
  | FTimeoutLost | FTimeoutApplied => ETimeout
  | FKillBefore | FKillAfter => EOther
  end.

Inductive outcome :=
| OOk (a : aset)            (* Upgrade returned (asts, nil) *)
| OErr (e : errkind)        (* Upgrade returned (nil, err) *)
| OPanic (site : string)    (* Upgrade panicked *)
| OKilled (k : nat).        (* the process died at call k *)

(* an entry of the call log: the call and the API state in which it arrives *)
Record event := { ev_call : call; ev_pre : world }.

Record rstate := { rs_w : world; rs_log : list event (* newest first *); rs_n : nat }.

Inductive res (A : Type) := Val (a : A) | Stop (o : outcome).
Arguments Val {A}. Arguments Stop {A}.

Definition M (A : Type) := rstate -> res A * rstate.
Definition ret {A} (a : A) : M A := fun s => (Val a, s).
Definition stop {A} (o : outcome) : M A := fun s => (Stop o, s).
Definition bind {A B} (m : M A) (f : A -> M B) : M B := fun s =>
  match m s with
  | (Val a, s') => f a s'
  | (Stop o, s') => (Stop o, s')
  end.
Notation "x <- m ;; f" := (bind m (fun x => f)) (at level 61, m at next level, right associativity).
Notation "m ;;; f" := (bind m (fun _ => f)) (at level 61, right associativity).

Definition logged (s : rstate) (c : call) (w' : world) : rstate :=
  {| rs_w := w'; rs_log := {| ev_call := c; ev_pre := rs_w s |} :: rs_log s; rs_n := S (rs_n s) |}.

(* one API call: consult the oracle, otherwise the API-server semantics *)
Definition do_call (orc : oracle) (c : call) : M reply := fun s =>
  match orc (rs_n s) with
  | Some FKillBefore => (Stop (OKilled (rs_n s)), logged s c (rs_w s))
  | Some FKillAfter => (Stop (OKilled (rs_n s)), logged s c (snd (api_step c (rs_w s))))
  | Some FTimeoutApplied => (Val (RErr ETimeout), logged s c (snd (api_step c (rs_w s))))
  | Some f => (Val (RErr (err_of_fault f)), logged s c (rs_w s))
  | None => (Val (fst (api_step c (rs_w s))), logged s c (snd (api_step c (rs_w s))))
  end.

Definition ill_typed {A} : M A := stop (OPanic "model: ill-typed reply"%string).

(* ---------------- the helper ----------------------------------------------------------------- *)
(* revision.Labels after the loop body: selector MatchLabels keys deleted, marker set *)
Definition relabel (name : string) (mlkeys : list string) (ol : option labels) : labels :=
  set_label marker_key name (remove_keys mlkeys (lab_of ol)).

Definition ml_keys (s : selector) : list string := map fst (sel_labels s).

(* for _, revision := range oldRevisionList.Items { ... Update ... } *)
Fixpoint relabel_loop (orc : oracle) (sts : bset) (items : list revision) : M unit :=
  match items with
  | [] => ret tt
  | r :: t =>
      match b_selector sts with
      | None => stop (OPanic "sts.Spec.Selector.MatchLabels: nil selector"%string)
      | Some s =>
          rep <- do_call orc (CUpdateRev (rv_name r) (relabel (b_name sts) (ml_keys s) (rv_labels r)));;
          match rep with
          | RUnit => relabel_loop orc sts t
          | RErr e => stop (OErr e)
          | _ => ill_typed
          end
      end
  end.

(* LabelSelectorAsSelector, List, the relabelling loop *)
Definition phase_revs (orc : oracle) (sts : bset) : M unit :=
  match b_selector sts with
  | Some s => if selector_valid s then ret tt else stop (OErr EOther)
  | None => ret tt
  end;;;
  rep <- do_call orc (CListRevs (b_selector sts));;
  match rep with
  | RRevs items => relabel_loop orc sts items
  | RErr e => stop (OErr e)
  | _ => ill_typed
  end.

(* Get; Create or Update; UpdateStatus *)
(* what follows the Get: Update of the found object with the converted spec, Create when the
   answer is NotFound, return on any other error *)
Definition second_call (sts : bset) (rep : reply) : call + outcome :=
  match rep with
  | RAsts a => inl (CUpdateAsts (b_name sts) (a_meta a) (b_spec sts) (a_rv a))
  | RErr ENotFound => inl (CCreateAsts (b_name sts) (b_meta sts) (b_spec sts) None)
  | RErr e => inr (OErr e)
  | _ => inr (OPanic "model: ill-typed reply"%string)
  end.
(* asts.Status = upgradedSts.Status; UpdateStatus(asts) on the object Create / Update returned *)
Definition finish_asts (orc : oracle) (sts : bset) (rep2 : reply) : M aset :=
  match rep2 with
  | RAsts a2 =>
      rep3 <- do_call orc (CUpdateStatus (b_name sts) (b_status sts) (a_rv a2));;
      match rep3 with
      | RAsts a3 => ret a3
      | RErr e => stop (OErr e)
      | _ => ill_typed
      end
  | RErr e => stop (OErr e)
  | _ => ill_typed
  end.
Definition phase_asts (orc : oracle) (sts : bset) : M aset :=
  rep <- do_call orc (CGetAsts (b_name sts));;
  match second_call sts rep with
  | inl c2 => rep2 <- do_call orc c2;; finish_asts orc sts rep2
  | inr o => stop o
  end.

(* Delete with DeletePropagationOrphan; NotFound is ignored *)
Definition phase_delete (orc : oracle) (sts : bset) (a : aset) : M aset :=
  rep <- do_call orc (CDeleteSts (b_name sts) POrphan);;
  match rep with
  | RUnit | RErr ENotFound => ret a
  | RErr e => stop (OErr e)
  | _ => ill_typed
  end.

Definition upgrade (orc : oracle) (sts : bset) : M aset :=
  phase_revs orc sts;;;
  a <- phase_asts orc sts;;
  phase_delete orc sts a.

Definition init_state (w : world) : rstate := {| rs_w := w; rs_log := []; rs_n := 0 |}.

Record run_result := { rr_out : outcome; rr_world : world; rr_log : list event (* oldest first *) }.

Definition run (orc : oracle) (sts : bset) (w : world) : run_result :=
  match upgrade orc sts (init_state w) with
  | (Val a, s) => {| rr_out := OOk a; rr_world := rs_w s; rr_log := rev (rs_log s) |}
  | (Stop o, s) => {| rr_out := o; rr_world := rs_w s; rr_log := rev (rs_log s) |}
  end.

(* a sequence of attempts, each from the API state its predecessor left; nobody else writes
   in between and every attempt is handed the same built-in object *)
Fixpoint run_attempts (sts : bset) (atts : list oracle) (w : world) : world :=
  match atts with
  | [] => w
  | o :: t => run_attempts sts t (rr_world (run o sts w))
  end.

(* ---------------- the projection on which runs are compared --------------------------------- *)
Record aview := { av_meta : Z; av_spec : Z; av_status : Z }.
Definition view_of (a : aset) : aview := {| av_meta := a_meta a; av_spec := a_spec a; av_status := a_status a |}.
Record projection := { pr_sts : bool; pr_revs : list revision; pr_asts : option aview; pr_cascaded : bool }.
Definition proj (w : world) : projection :=
  {| pr_sts := w_sts w; pr_revs := w_revs w; pr_asts := option_map view_of (w_asts w); pr_cascaded := w_cascaded w |}.

(* ---------------- what the property says about a revision ------------------------------------ *)
(* the revisions the selector lists in a given API state *)
Definition listed (sts : bset) (w : world) : list revision :=
  filter (fun r => list_matches (b_selector sts) (rv_labels r)) (w_revs w).
Definition listed_names (sts : bset) (w : world) : list string := map rv_name (listed sts w).

Definition has_marker (sts : bset) (ol : option labels) : bool :=
  match lookup marker_key (lab_of ol) with Some v => String.eqb v (b_name sts) | None => false end.
Definition has_no_key (ks : list string) (ol : option labels) : bool :=
  forallb (fun k => match lookup k (lab_of ol) with Some _ => false | None => true end) ks.

(* ---------------- correspondence cases (written by props/c17.py) ----------------------------- *)
Fixpoint list_eqb {A} (f : A -> A -> bool) (a b : list A) : bool :=
  match a, b with
  | [], [] => true
  | x :: s, y :: t => f x y && list_eqb f s t
  | _, _ => false
  end.
Definition opt_eqb {A} (f : A -> A -> bool) (a b : option A) : bool :=
  match a, b with
  | None, None => true
  | Some x, Some y => f x y
  | _, _ => false
  end.
(* equality of label maps up to order (the observed side comes from a Go map: distinct keys) *)
Definition sub_labels (a b : labels) : bool :=
  forallb (fun kv => match lookup (fst kv) b with Some v => String.eqb v (snd kv) | None => false end) a.
Definition labels_eqb (a b : labels) : bool :=
  sub_labels a b && sub_labels b a && Nat.eqb (length a) (length b).
Definition policy_eqb (a b : policy) : bool :=
  match a, b with
  | PNone, PNone | POrphan, POrphan | PBackground, PBackground | PForeground, PForeground => true
  | _, _ => false
  end.
Definition call_eqb (a b : call) : bool :=
  match a, b with
  | CListRevs _, CListRevs _ => true     (* the selector string is checked by the monitor *)
  | CUpdateRev n l, CUpdateRev n' l' => String.eqb n n' && labels_eqb l l'
  | CGetAsts n, CGetAsts n' => String.eqb n n'
  | CCreateAsts n m s rv, CCreateAsts n' m' s' rv' => String.eqb n n' && (m =? m') && (s =? s') && opt_eqb Z.eqb rv rv'
  | CUpdateAsts n m s rv, CUpdateAsts n' m' s' rv' => String.eqb n n' && (m =? m') && (s =? s') && (rv =? rv')
  | CUpdateStatus n st rv, CUpdateStatus n' st' rv' => String.eqb n n' && (st =? st') && (rv =? rv')
  | CDeleteSts n p, CDeleteSts n' p' => String.eqb n n' && policy_eqb p p'
  | COther v r n, COther v' r' n' => String.eqb v v' && String.eqb r r' && String.eqb n n'
  | _, _ => false
  end.
Definition aset_eqb (a b : aset) : bool :=
  (a_meta a =? a_meta b) && (a_spec a =? a_spec b) && (a_status a =? a_status b) && (a_rv a =? a_rv b).
Definition errkind_eqb (a b : errkind) : bool :=
  match a, b with
  | E500, E500 | EConflict, EConflict | ENotFound, ENotFound | EExists, EExists | ETimeout, ETimeout
  | EBadRequest, EBadRequest | EOther, EOther => true
  | _, _ => false
  end.
(* outcomes are compared up to the panic message *)
Definition outcome_eqb (a b : outcome) : bool :=
  match a, b with
  | OOk x, OOk y => aset_eqb x y
  | OErr x, OErr y => errkind_eqb x y
  | OPanic _, OPanic _ => true
  | OKilled x, OKilled y => Nat.eqb x y
  | _, _ => false
  end.
Definition olabels_eqb (a b : option labels) : bool := opt_eqb labels_eqb a b.
Definition revision_eqb (a b : revision) : bool :=
  String.eqb (rv_name a) (rv_name b) && olabels_eqb (rv_labels a) (rv_labels b)
  && opt_eqb String.eqb (rv_owner a) (rv_owner b).
Definition world_eqb (a b : world) : bool :=
  Bool.eqb (w_sts a) (w_sts b) && list_eqb revision_eqb (w_revs a) (w_revs b)
  && opt_eqb aset_eqb (w_asts a) (w_asts b) && Bool.eqb (w_cascaded a) (w_cascaded b).

(* one attempt: at most one fault or one death, addressed by call index *)
Definition attempt := option (nat * fkind).
Definition oracle_of (a : attempt) : oracle :=
  match a with Some (k, f) => fault_at k f | None => no_faults end.

Record att_obs := { ao_out : outcome; ao_calls : list call }.
Record upgrade_case := {
  uc_sts : bset; uc_world : world; uc_attempts : list attempt;
  uc_obs : list att_obs; uc_final : world }.

Fixpoint upgrade_model (sts : bset) (atts : list attempt) (w : world) : list att_obs * world :=
  match atts with
  | [] => ([], w)
  | a :: t =>
      let r := run (oracle_of a) sts w in
      let '(l, w') := upgrade_model sts t (rr_world r) in
      ({| ao_out := rr_out r; ao_calls := map ev_call (rr_log r) |} :: l, w')
  end.

Definition att_obs_eqb (a b : att_obs) : bool :=
  outcome_eqb (ao_out a) (ao_out b) && list_eqb call_eqb (ao_calls a) (ao_calls b).
Definition upgrade_check (c : upgrade_case) : bool :=
  let '(l, w) := upgrade_model (uc_sts c) (uc_attempts c) (uc_world c) in
  list_eqb att_obs_eqb l (uc_obs c) && world_eqb w (uc_final c).
