(* RoundTrunc.v — the fair rounds of the full model when the revision history is LONGER than revisionHistoryLimit.
   truncateHistory then deletes the oldest revisions that nothing refers to, in the middle of a rollout or after it.
   What is shown: the deleted revisions are never the current or the update revision, the sorted de-duplicated
   list the next revision phase works on is the old one without the deleted names (SortFilter.v), and
   getStatefulSetRevisions resolves the same current and update revision on it.  So the revision phase stays quiet
   round after round and RoundChain.full_model_converges_rev_quiet applies with hypotheses on the initial world
   only, WITHOUT the bound on the length of the revision list that RoundRevs.full_model_converges_closed needs. *)
From ASTS Require Import Base Slots SlotsProofs Names NamesProofs World Reconcile ReconcileCheck MonadProofs PlanProofs
                         StatusProofs ConvergeProofs PodControlProofs RevisionProofs Env QuietProofs TerminationProofs TerminationEnv
                         RoundExec RoundCheck RoundLift RoundChain KeepsSet RoundRevs CounterProofs ConvergedStatus.
From ASTS Require Import SortFilter.
From Coq Require Import Sorting.Permutation.

(* ------------------------------------------------------------ lists ---------------------------------- *)
Definition keepn (D : list string) (r : rev) : bool := negb (smemb (r_name r) D).

Lemma filter_comm {A} (f g : A -> bool) l : filter f (filter g l) = filter g (filter f l).
Proof.
  induction l as [|x l IH]; [reflexivity|]. cbn [filter].
  destruct (g x) eqn:G; destruct (f x) eqn:F; cbn [filter]; rewrite ?G, ?F, IH; reflexivity.
Qed.

Lemma smemb_cons x n l : smemb x (n :: l) = String.eqb x n || smemb x l.
Proof. reflexivity. Qed.

Lemma smemb_In x l : smemb x l = true <-> In x l.
Proof.
  unfold smemb. rewrite existsb_exists. split.
  - intros (y & Hy & E). apply String.eqb_eq in E. subst y. exact Hy.
  - intros H. exists x. split; [exact H | apply String.eqb_refl].
Qed.

Lemma dedupe_filter D : forall l seen1 seen2,
  (forall m, smemb m D = false -> smemb m seen1 = smemb m seen2) ->
  dedupe_revs seen1 (filter (keepn D) l) = filter (keepn D) (dedupe_revs seen2 l).
Proof.
  induction l as [|r t IH]; intros seen1 seen2 Hs; [reflexivity|].
  cbn [filter dedupe_revs]. unfold keepn at 1. destruct (smemb (r_name r) D) eqn:Hd; cbn [negb].
  - destruct (smemb (r_name r) seen2) eqn:M2; [apply IH; exact Hs|].
    cbn [filter]. unfold keepn at 2. rewrite Hd. cbn [negb]. apply IH.
    intros m Hm. rewrite smemb_cons. destruct (String.eqb m (r_name r)) eqn:E.
    + apply String.eqb_eq in E. subst m. congruence.
    + cbn [orb]. apply Hs. exact Hm.
  - cbn [dedupe_revs]. rewrite (Hs _ Hd). destruct (smemb (r_name r) seen2) eqn:M2; [apply IH; exact Hs|].
    cbn [filter]. unfold keepn at 2. rewrite Hd. cbn [negb]. f_equal. apply IH.
    intros m Hm. rewrite !smemb_cons. rewrite (Hs m Hm). reflexivity.
Qed.

Lemma lrevs_filter D w x s : w_revs x = filter (keepn D) (w_revs w) -> lrevs x s = filter (keepn D) (lrevs w s).
Proof.
  intros Hx. unfold lrevs, lr1. rewrite Hx.
  rewrite <- (dedupe_filter D _ [] []) by reflexivity. f_equal.
  rewrite (filter_comm (keepn D)). f_equal. rewrite filter_app. f_equal.
  - rewrite filter_sort_by_name. f_equal. apply filter_comm.
  - rewrite filter_sort_by_name. f_equal. apply filter_comm.
Qed.

Lemma sorted_lrevs_filter D w x s : w_revs x = filter (keepn D) (w_revs w) ->
  sort_revs (lrevs x s) = filter (keepn D) (sort_revs (lrevs w s)).
Proof. intros Hx. rewrite (lrevs_filter D w x s Hx). symmetry. apply filter_sort_revs. Qed.

Lemma last_opt_app {A} (l : list A) x : last_opt (l ++ [x]) = Some x.
Proof. unfold last_opt. rewrite rev_app_distr. reflexivity. Qed.
Lemma last_opt_split {A} (l : list A) x : last_opt l = Some x -> exists l', l = l' ++ [x].
Proof.
  unfold last_opt. destruct (List.rev l) as [|y t] eqn:E; [discriminate|]. intros H. inversion H; subst y.
  exists (List.rev t). rewrite <- (rev_involutive l), E. reflexivity.
Qed.
Lemma last_opt_filter {A} (f : A -> bool) l x : last_opt l = Some x -> f x = true -> last_opt (filter f l) = Some x.
Proof.
  intros H Hf. destruct (last_opt_split l x H) as (l' & ->). rewrite filter_app. cbn [filter]. rewrite Hf. apply last_opt_app.
Qed.

Lemma find_filter {A} (p f : A -> bool) l x : find p l = Some x -> f x = true -> find p (filter f l) = Some x.
Proof.
  induction l as [|y l IH]; [discriminate|]. cbn [find]. destruct (p y) eqn:P.
  - intros H Hf. inversion H; subst y. cbn [filter]. rewrite Hf. cbn [find]. rewrite P. reflexivity.
  - intros H Hf. cbn [filter]. destruct (f y); [cbn [find]; rewrite P|]; apply IH; assumption.
Qed.
Lemma find_filter_none {A} (p f : A -> bool) l : find p l = None -> find p (filter f l) = None.
Proof.
  induction l as [|y l IH]; [reflexivity|]. cbn [find]. destruct (p y) eqn:P; [discriminate|].
  intros H. cbn [filter]. destruct (f y); [cbn [find]; rewrite P|]; apply IH; exact H.
Qed.

(* ------------------------------------------------------------ equal revisions ------------------------ *)
Lemma equal_revision_refl a : equal_revision a a = true.
Proof. unfold equal_revision. destruct (hash_num a); rewrite !Z.eqb_refl; reflexivity. Qed.

Lemma equal_revision_tmpl a b : equal_revision a b = true -> r_tmpl a = r_tmpl b.
Proof.
  unfold equal_revision. destruct (hash_num a); destruct (hash_num b); intros H;
    try (apply andb_true_iff in H; destruct H as [_ H]); apply Z.eqb_eq; exact H.
Qed.

(* the update revision carries no numeric hash label (safe-encoded FNV sums rarely parse as an int32, about one
   template in 400): it is then equal to whatever is equal to a revision equal to it *)
Lemma equal_revision_via l e fresh : hash_num l = None ->
  equal_revision l e = true -> equal_revision e fresh = true -> equal_revision l fresh = true.
Proof.
  intros Hl H1 H2. pose proof (equal_revision_tmpl _ _ H1) as T1. pose proof (equal_revision_tmpl _ _ H2) as T2.
  unfold equal_revision. rewrite Hl. apply Z.eqb_eq. congruence.
Qed.

(* ------------------------------------------------------------ getStatefulSetRevisions on the shorter list -- *)
Lemma gsr_value_filter hashes s revs c u k D :
  gsr_value hashes s revs = Some (c, u, k) -> hash_num u = None ->
  keepn D c = true -> keepn D u = true ->
  gsr_value hashes s (filter (keepn D) revs) = Some (c, u, k).
Proof.
  unfold gsr_value. destruct (hash_of hashes (s_tmpl s) _) as [h0|]; [|discriminate]. cbv zeta.
  match goal with |- context [last_opt (filter ?f revs)] => set (eqf := f) end.
  destruct (last_opt (filter eqf revs)) as [e|] eqn:Le; [|discriminate].
  destruct (last_opt revs) as [l|] eqn:Ll; [|discriminate].
  destruct (equal_revision l e) eqn:Ele; [|discriminate].
  intros H Hu Kc Ku. inversion H as [[Hc Hl' Hk]]. subst l. clear H.
  rewrite (last_opt_filter (keepn D) revs u Ll Ku).
  (* the fresh revision of the shorter list is the same: it only depends on the last one *)
  assert (Hin : In e (filter eqf revs)) by (apply (last_opt_In _ _ Le)).
  apply filter_In in Hin. destruct Hin as [_ Hef].
  assert (Huf : eqf u = true) by (unfold eqf in *; apply (equal_revision_via u e _ Hu Ele Hef)).
  fold eqf. rewrite (filter_comm eqf (keepn D)).
  rewrite (last_opt_filter (keepn D) (filter eqf revs) u (last_opt_filter eqf revs u Ll Huf) Ku).
  rewrite equal_revision_refl.
  destruct (find (fun r => String.eqb (r_name r) (st_currev (s_status s))) revs) as [c0|] eqn:F.
  - subst c0. rewrite (find_filter _ (keepn D) revs c F Kc). reflexivity.
  - rewrite (find_filter_none _ (keepn D) revs F). rewrite Hc. reflexivity.
Qed.

(* ------------------------------------------------------------ the deletes of truncateHistory --------- *)
Lemma remove_keepn n D l : filter (keepn D) (remove_rev n l) = filter (keepn (n :: D)) l.
Proof.
  unfold remove_rev. induction l as [|r t IH]; [reflexivity|]. cbn [filter].
  unfold keepn at 2. rewrite smemb_cons. destruct (String.eqb (r_name r) n); cbn [negb orb filter].
  - exact IH.
  - fold (keepn D r). destruct (keepn D r); rewrite IH; reflexivity.
Qed.

Definition same_but_revs (a b : world) : Prop := w_set a = w_set b /\ w_pods a = w_pods b /\ w_claims a = w_claims b.

Lemma find_rev_remove n m l : n <> m -> find_rev n (remove_rev m l) = None -> find_rev n l = None.
Proof.
  intros Hnm. unfold find_rev, remove_rev. induction l as [|r t IH]; [reflexivity|]. cbn [filter find].
  destruct (String.eqb (r_name r) m) eqn:E1; cbn [negb].
  - destruct (String.eqb (r_name r) n) eqn:E2.
    + apply String.eqb_eq in E1. apply String.eqb_eq in E2. congruence.
    + exact IH.
  - cbn [find]. destruct (String.eqb (r_name r) n); [discriminate | exact IH].
Qed.

Lemma deletes_ok : forall (hs : list rev) (w0 : world),
  NoDup (map r_name hs) -> (forall r, In r hs -> find_rev (r_name r) (w_revs w0) <> None) ->
  hoare (fun x => x = w0) (forM hs (fun r => api_delete_rev (r_name r)))
        (fun _ x => same_but_revs x w0 /\ w_revs x = filter (keepn (map r_name hs)) (w_revs w0)).
Proof.
  induction hs as [|h t IH]; intros w0 Hnd Hfound; cbn [forM map].
  - intros st HP Hf. exists tt, st. split; [reflexivity|]. split; [exact Hf|]. rewrite HP.
    split; [repeat split|]. unfold keepn. cbn. clear. induction (w_revs w0) as [|r l IHl]; [reflexivity|]. cbn. f_equal. exact IHl.
  - inversion Hnd as [|? ? Hnot Hnd']; subst.
    eapply hoare_bind.
    + unfold api_delete_rev. apply (hoare_call (fun x => x = w0) _ _ (fun _ x => x = with_revs w0 (remove_rev (r_name h) (w_revs w0)))).
      intros x ->. destruct (find_rev (r_name h) (w_revs w0)) eqn:F; [|exfalso; apply (Hfound h (or_introl eq_refl)); exact F].
      exists tt. eexists. split; reflexivity.
    + intros u. cbv beta.
      eapply hoare_conseq; [| |apply (IH (with_revs w0 (remove_rev (r_name h) (w_revs w0))) Hnd')].
      * intros x Hx. exact Hx.
      * intros v x [[A [B C]] R]. cbn [with_revs w_set w_pods w_claims w_revs] in *.
        split; [repeat split; assumption|]. rewrite R. apply remove_keepn.
      * intros r Hr. cbn [with_revs w_revs]. intros Hnone. apply (Hfound r (or_intror Hr)).
        apply (find_rev_remove _ (r_name h)); [|exact Hnone].
        intros E. apply Hnot. rewrite <- E. apply in_map. exact Hr.
Qed.

Lemma firstn_In {A} (x : A) : forall k l, In x (firstn k l) -> In x l.
Proof.
  induction k as [|k IH]; intros l; [intros []|]. destruct l as [|y l]; [intros []|].
  cbn [firstn]. intros [H|H]; [left; exact H | right; apply IH; exact H].
Qed.

(* what truncateHistory deletes, by name *)
Definition trunc_names (s : sset) (pods : list pod) (revs : list rev) (cur upd : rev) : list string :=
  let live := r_name cur :: r_name upd :: map p_rev pods in
  let history := filter (fun r => negb (smemb (r_name r) live)) revs in
  match s_rhl s with
  | None => []
  | Some limit =>
      let n := Z.of_nat (length history) in
      if n <=? limit then [] else map r_name (firstn (Z.to_nat (n - limit)) history)
  end.

Lemma trunc_names_avoid s pods revs cur upd n : In n (trunc_names s pods revs cur upd) -> n <> r_name cur /\ n <> r_name upd.
Proof.
  unfold trunc_names. destruct (s_rhl s) as [limit|]; [|intros []]. cbv zeta.
  destruct (_ <=? _); [intros []|]. intros H. apply in_map_iff in H. destruct H as (r & <- & Hr).
  apply firstn_In in Hr. apply filter_In in Hr. destruct Hr as [_ Hr]. apply negb_true_iff in Hr.
  rewrite !smemb_cons in Hr. apply orb_false_iff in Hr. destruct Hr as [H1 Hr]. apply orb_false_iff in Hr. destruct Hr as [H2 _].
  split; intros E; rewrite E, String.eqb_refl in *; discriminate.
Qed.

Lemma NoDup_map_filter {A B} (g : A -> B) (f : A -> bool) l : NoDup (map g l) -> NoDup (map g (filter f l)).
Proof.
  induction l as [|x l IH]; cbn [map filter]; [intros; constructor|]. intros H. inversion H as [|? ? Hn Hd]; subst.
  destruct (f x); [|apply IH; exact Hd]. cbn [map]. constructor; [|apply IH; exact Hd].
  intros Hin. apply Hn. apply in_map_iff in Hin. destruct Hin as (y & E & Hy). apply filter_In in Hy. rewrite <- E. apply in_map. apply Hy.
Qed.
Lemma NoDup_map_firstn {A B} (g : A -> B) k l : NoDup (map g l) -> NoDup (map g (firstn k l)).
Proof.
  revert l. induction k as [|k IH]; intros l; [intros; constructor|]. destruct l as [|x l]; [intros; constructor|].
  cbn [firstn map]. intros H. inversion H as [|? ? Hn Hd]; subst. constructor; [|apply IH; exact Hd].
  intros Hin. apply Hn. apply in_map_iff in Hin. destruct Hin as (y & E & Hy). apply firstn_In in Hy. rewrite <- E. apply in_map. exact Hy.
Qed.

Lemma lrevs_names_nodup w s : NoDup (map r_name (lrevs w s)).
Proof. unfold lrevs. apply (proj2 (dedupe_revs_spec _ [])). Qed.

Lemma lrevs_found w s r : In r (lrevs w s) -> find_rev (r_name r) (w_revs w) <> None.
Proof.
  unfold lrevs. intros H. apply (proj1 (dedupe_revs_spec _ [])) in H. destruct H as [H _].
  apply filter_In in H. destruct H as [H _]. apply in_app_or in H.
  assert (Hin : In r (w_revs w)).
  { destruct H as [H|H]; unfold lr1 in H; apply (proj1 (sort_by_name_In _ _)) in H; apply filter_In in H; apply H. }
  unfold find_rev. intros Hnone. pose proof (find_none _ _ Hnone r Hin) as E. cbv beta in E. rewrite String.eqb_refl in E. discriminate.
Qed.

Lemma truncate_ok w wL s pods cur upd :
  s_rhl s <> None -> w_revs wL = w_revs w ->
  hoare (fun x => x = wL) (truncate_history s pods (sort_revs (lrevs w s)) cur upd)
        (fun _ x => same_but_revs x wL
                    /\ w_revs x = filter (keepn (trunc_names s pods (sort_revs (lrevs w s)) cur upd)) (w_revs w)).
Proof.
  intros Hl HrL. unfold truncate_history, trunc_names. destruct (s_rhl s) as [limit|]; [|congruence]. cbv zeta.
  set (history := filter _ (sort_revs (lrevs w s))).
  destruct (Z.of_nat (length history) <=? limit).
  - intros st HP Hf. exists tt, st. split; [reflexivity|]. split; [exact Hf|]. rewrite HP.
    split; [repeat split|]. rewrite HrL. unfold keepn. cbn. clear. induction (w_revs w) as [|r l IHl]; [reflexivity|]. cbn. f_equal. exact IHl.
  - rewrite <- HrL. apply deletes_ok.
    + apply NoDup_map_firstn. unfold history. apply NoDup_map_filter.
      apply (Permutation_NoDup (l := map r_name (lrevs w s))); [|apply lrevs_names_nodup].
      apply Permutation_map. apply Permutation_sym. apply sort_revs_perm.
    + intros r Hr. apply firstn_In in Hr. unfold history in Hr. apply filter_In in Hr. destruct Hr as [Hr _].
      rewrite HrL. apply lrevs_found with (s := s). apply (Permutation_in _ (sort_revs_perm _)). exact Hr.
Qed.

(* ================================================================ one round ============================== *)
Section RevsAndSetAny.
Variable hashes : list ((Z * Z) * string).
Variable s : sset.
Variable upd : rinfo.
Variables (cnt : Z) (slots : list Z).
Hypothesis Hcnt : 0 <= cnt <= max_i32 + 1.
Hypothesis Hdel : s_deleting s = false.
Hypothesis Hclaims : NoDup (s_claims s).
Hypothesis Huc : forall i, use_current s i = true -> i < umin_of s.
Variable cur : rinfo.
Variable w : world.
Variables (rcur rupd : rev) (coll r : Z).
Hypothesis Hset : w_set w = Some s.
Hypothesis Hpause : get_paused (s_pause s) = false.
Hypothesis Hsel : s_selector s = SelOk.
Hypothesis Hadopt : nothing_to_adopt w s = true.
Hypothesis Hclaimq : forallb (claim_quiet s) (w_pods w) = true.
Hypothesis Hclaimv : claim_value s (w_pods w) = w_pods w.
Hypothesis Hgsr : gsr_value hashes s (sort_revs (lrevs w s)) = Some (rcur, rupd, coll).
Hypothesis Hcur : cur = {| ri_name := r_name rcur; ri_tmpl := r_tmpl rcur |}.
Hypothesis Hupd : upd = {| ri_name := r_name rupd; ri_tmpl := r_tmpl rupd |}.
Hypothesis Hrep : s_replicas s = Some r.
Hypothesis Hext : extend r (get_slots (s_slots s)) = (cnt, slots).
Hypothesis W : wf s cnt slots (w_pods w).
Hypothesis Hnd : NoDup (w_pods w).
Hypothesis Hnames : NoDup (flat_map (fun j => map (fun t => claim_name t (s_name s) j) (s_claims s)) (ordinals_of cnt slots)).
Hypothesis Hrhl : s_rhl s <> None.

Let pods := w_pods w.
Let acts := plan_acts s cur upd cnt slots pods.
Let cache := {| w_set := w_set w; w_pods := w_pods w; w_revs := []; w_claims := w_claims w |}.
Let D := trunc_names s pods (sort_revs (lrevs w s)) rcur rupd.

(* what the reconcile leaves: the revisions without the names truncateHistory deleted (never the current or the
   update revision), the set with its old status or with the computed one *)
Definition after_any (x : world) : Prop :=
  w_revs x = filter (keepn D) (w_revs w)
  /\ exists po, plan_pods s cur upd coll pods = Some po /\ po_acts po = acts
      /\ let st' := complete_rolling_update s (po_status po) in
         ((w_set x = Some s /\ inconsistent_status s st' = false)
          \/ (w_set x = Some (set_status s st' (s_rv s + 1)) /\ inconsistent_status s st' = true)).

Lemma tail_any po wL : plan_pods s cur upd coll pods = Some po -> po_acts po = acts -> w_set wL = Some s -> w_revs wL = w_revs w ->
  hk (fun x => x = wL)
     (update_set_status s (po_status po) ;;; truncate_history s pods (sort_revs (lrevs w s)) rcur rupd) after_any.
Proof.
  intros Hpo Hac HsL HrL.
  set (st' := complete_rolling_update s (po_status po)).
  apply (hk_bind_hoare _ _ _ (fun _ x => (x = wL /\ inconsistent_status s st' = false)
                                         \/ (x = with_set wL (Some (set_status s st' (s_rv s + 1))) /\ inconsistent_status s st' = true))).
  - unfold update_set_status. fold st'. destruct (inconsistent_status s st') eqn:Inc.
    + cbn [update_status_retry]. intros st HP Hf. unfold bind, try, api_update_status, call_api. rewrite Hf. cbn [take_fault].
      rewrite HP, HsL, Z.eqb_refl. eexists. eexists. split; [reflexivity|]. cbn [rs_faults rs_api]. split; [reflexivity|]. right. split; reflexivity.
    + intros st HP Hf. exists tt, st. split; [reflexivity|]. split; [exact Hf|]. left. split; [exact HP | reflexivity].
  - intros u. intros st HP Hf r0 stf E.
    assert (HrX : w_revs (rs_api st) = w_revs w) by (destruct HP as [[-> _] | [-> _]]; [exact HrL | cbn [with_set w_revs]; exact HrL]).
    destruct (truncate_ok w (rs_api st) s pods rcur rupd Hrhl HrX st eq_refl Hf) as (v & s1 & E1 & _ & [[A [B C]] R]).
    rewrite E1 in E. inversion E; subst. split; [exact R|].
    exists po. split; [exact Hpo|]. split; [exact Hac|]. cbv zeta. fold st'. rewrite A.
    destruct HP as [[-> Inc] | [-> Inc]]; [left; split; [exact HsL | exact Inc] | right; split; [reflexivity | exact Inc]].
Qed.

Lemma sync_any : hk (fun x => x = w) (sync hashes cache) after_any.
Proof.
  unfold sync. cbn [cache w_set]. rewrite Hset, Hpause, Hsel.
  eapply hk_bind_hoare; [apply reads_hoare; apply reads_adopt; exact Hadopt|]. intros u. cbv beta.
  eapply hk_bind_hoare.
  { eapply hoare_conseq; [| |apply (reads_hoare w); apply (reads_claim_pods w s (w_pods w) None false Hclaimq)].
    - intros x [_ Hx]. exact Hx.
    - intros v x Hx. exact Hx. }
  intros x. cbv beta.
  intros st [Hx HP] Hf. subst x. cbn [fst snd]. rewrite Hclaimv. revert st HP Hf.
  change (hk (fun x => x = w) (update_stateful_set hashes s cache (w_pods w)) after_any).
  unfold update_stateful_set.
  eapply hk_bind_hoare; [apply reads_hoare; apply reads_list_revisions|]. intros revs0. cbv beta.
  intros st [Hr HP] Hf. subst revs0. revert st HP Hf.
  match goal with |- forall st, _ -> _ -> forall r0 st', ?m st = _ -> _ => change (hk (fun x => x = w) m after_any) end.
  eapply hk_bind_hoare; [apply reads_hoare; apply (reads_gsr hashes w s _ _ Hgsr)|]. intros y. cbv beta.
  intros st [Hy HP] Hf. subst y. cbv beta iota zeta. rewrite <- Hcur, <- Hupd.
  destruct (plan_some s upd cnt slots Hcnt Hdel cur w rcur rupd coll r Hcur Hupd Hrep Hext W Hnames) as (po & Hpo & Hacts). rewrite Hpo, Hacts. revert st HP Hf.
  match goal with |- forall st, _ -> _ -> forall r0 st', ?m st = _ -> _ => change (hk (fun x => x = w) m after_any) end.
  eapply hk_bind_hoare.
  { apply (exec_acts_ok s cache acts w). apply (plan_all_ok s upd cnt slots Hcnt Hdel Hclaims Huc cur pods W cache Hnames). }
  intros u'. cbv beta.
  apply (tail_any po _ Hpo Hacts); cbn; [exact Hset | reflexivity].
Qed.

Lemma env_round_any : after_any (env_round hashes w).
Proof.
  unfold env_round. cbn [hrun hstep fst hw_api hw_cache]. fold cache.
  destruct (reconcile hashes w cache []) as [[o lg] w1] eqn:Er. cbn [fst hw_api].
  assert (H1 : after_any w1).
  { unfold reconcile in Er.
    destruct (sync hashes cache {| rs_api := w; rs_log := []; rs_n := 0; rs_faults := [] |}) as [r0 st'] eqn:Es.
    inversion Er as [[Eo El Ew]]. exact (sync_any {| rs_api := w; rs_log := []; rs_n := 0; rs_faults := [] |} eq_refl eq_refl r0 st' Es). }
  unfold after_any in *.
  rewrite !kubelet_fold_revs.
  destruct (kubelet_fold_set KSettle (map p_name (w_pods w1)) (fold_left (fun a m => kubelet a m KGone) (map p_name (w_pods w1)) w1)) as [A _].
  destruct (kubelet_fold_set KGone (map p_name (w_pods w1)) w1) as [B _]. rewrite A, B. exact H1.
Qed.

Lemma D_avoid n : In n D -> n <> r_name rcur /\ n <> r_name rupd.
Proof. apply trunc_names_avoid. Qed.

End RevsAndSetAny.

(* ================================================================ all rounds ============================= *)
Lemma existsb_filter_false {A} (p f : A -> bool) l : existsb p l = false -> existsb p (filter f l) = false.
Proof.
  induction l as [|x l IH]; [reflexivity|]. cbn [existsb filter]. intros H. apply orb_false_iff in H. destruct H as [H1 H2].
  destruct (f x); [cbn [existsb]; rewrite H1|]; apply IH; exact H2.
Qed.

Lemma keepn_avoid D (c : rev) : (forall n, In n D -> n <> r_name c) -> keepn D c = true.
Proof.
  intros H. unfold keepn. destruct (smemb (r_name c) D) eqn:E; [|reflexivity]. exfalso.
  apply smemb_In in E. apply (H _ E). reflexivity.
Qed.

Lemma filter_ext_in' {A} (f g : A -> bool) l : (forall x, In x l -> f x = g x) -> filter f l = filter g l.
Proof.
  induction l as [|x l IH]; [reflexivity|]. intros H. cbn [filter]. rewrite (H x (or_introl eq_refl)).
  rewrite IH; [reflexivity|]. intros y Hy. apply H. right. exact Hy.
Qed.

(* removing the names of the first j elements of a list with distinct names leaves the rest *)
Lemma filter_firstn_names : forall j (h : list rev), NoDup (map r_name h) ->
  filter (keepn (map r_name (firstn j h))) h = skipn j h.
Proof.
  induction j as [|j IH]; intros h Hnd.
  - cbn [firstn map skipn]. unfold keepn. cbn. clear. induction h as [|x l IHl]; [reflexivity|]. cbn. f_equal. exact IHl.
  - destruct h as [|x t]; [reflexivity|]. cbn [firstn map skipn filter]. inversion Hnd as [|? ? Hn Hd]; subst.
    unfold keepn at 1. rewrite smemb_cons, String.eqb_refl. cbn [orb negb].
    rewrite <- (IH t Hd). apply filter_ext_in'. intros y Hy. unfold keepn. rewrite smemb_cons.
    destruct (String.eqb (r_name y) (r_name x)) eqn:E; [|reflexivity].
    exfalso. apply String.eqb_eq in E. apply Hn. rewrite <- E. apply in_map. exact Hy.
Qed.

Lemma smemb_ext x l1 l2 : (forall y, In y l1 <-> In y l2) -> smemb x l1 = smemb x l2.
Proof.
  intros H. destruct (smemb x l1) eqn:E1; destruct (smemb x l2) eqn:E2; try reflexivity.
  - apply smemb_In in E1. apply H in E1. apply smemb_In in E1. congruence.
  - apply smemb_In in E2. apply H in E2. apply smemb_In in E2. congruence.
Qed.

Lemma sort_revs_names_nodup w s : NoDup (map r_name (sort_revs (lrevs w s))).
Proof.
  apply (Permutation_NoDup (l := map r_name (lrevs w s))); [|apply lrevs_names_nodup].
  apply Permutation_map. apply Permutation_sym. apply sort_revs_perm.
Qed.

(* after truncateHistory has run, a second run with the same live names finds nothing to delete *)
Lemma trunc_quiet_after s pods pods' revs cur upd :
  NoDup (map r_name revs) -> s_rhl s <> None -> (forall l, s_rhl s = Some l -> 0 <= l) ->
  (forall n, In n (map p_rev pods') <-> In n (map p_rev pods)) ->
  trunc_quiet s pods' (filter (keepn (trunc_names s pods revs cur upd)) revs) cur upd = true.
Proof.
  intros Hnd Hl Hl0 Hp. unfold trunc_quiet, trunc_names. destruct (s_rhl s) as [limit|]; [|congruence]. cbv zeta.
  specialize (Hl0 limit eq_refl).
  set (live := r_name cur :: r_name upd :: map p_rev pods).
  set (live' := r_name cur :: r_name upd :: map p_rev pods').
  assert (Hlive : forall x, smemb x live' = smemb x live).
  { intros x. unfold live, live'. rewrite !smemb_cons. f_equal. f_equal. apply smemb_ext. exact Hp. }
  set (hist := filter (fun r0 => negb (smemb (r_name r0) live)) revs).
  rewrite (filter_ext_in' (fun r0 => negb (smemb (r_name r0) live')) (fun r0 => negb (smemb (r_name r0) live))) by (intros x _; rewrite Hlive; reflexivity).
  apply Z.leb_le. rewrite filter_comm. fold hist.
  destruct (Z.of_nat (length hist) <=? limit) eqn:E.
  - apply Z.leb_le in E. pose proof (filter_length_le' (keepn []) hist). lia.
  - apply Z.leb_gt in E. rewrite filter_firstn_names by (unfold hist; apply NoDup_map_filter; exact Hnd).
    rewrite skipn_length. lia.
Qed.

Section ClosedAny.
Variable hashes : list ((Z * Z) * string).
Variable s0 : sset.
Variable upd : rinfo.
Variables (cnt r : Z) (slots : list Z).
Hypothesis Hcnt : 0 <= cnt <= max_i32 + 1.
Hypothesis Hdel : s_deleting s0 = false.
Hypothesis Hclaims : NoDup (s_claims s0).
Hypothesis Hroll : s_rolling s0 <> None.
Hypothesis Hpause : get_paused (s_pause s0) = false.
Hypothesis Hsel : s_selector s0 = SelOk.
Hypothesis Hrep : s_replicas s0 = Some r.
Hypothesis Hext : extend r (get_slots (s_slots s0)) = (cnt, slots).
Hypothesis Hnames : NoDup (flat_map (fun j => map (fun t => claim_name t (s_name s0) j) (s_claims s0)) (ordinals_of cnt slots)).
Hypothesis Hrhl : s_rhl s0 <> None.

Variable Wd : nat -> world.
Hypothesis Hstep : forall k, Wd (S k) = env_round hashes (Wd k).

(* the initial world: regular; the revision list may have any length *)
Variables (st0 : status) (rv0 : Z) (rcur0 rupd : rev) (coll : Z).
Hypothesis Hset0 : w_set (Wd O) = Some (set_status s0 st0 rv0).
Hypothesis W0 : wf s0 cnt slots (w_pods (Wd O)).
Hypothesis N0 : NoDup (w_pods (Wd O)).
Hypothesis C0 : all_claimed s0 (w_pods (Wd O)).
Hypothesis A0 : nothing_to_adopt (Wd O) s0 = true.
Hypothesis G0 : gsr_value hashes (set_status s0 st0 rv0) (sort_revs (lrevs (Wd O) s0)) = Some (rcur0, rupd, coll).
Hypothesis Hupd0 : upd = rinfo_of rupd.
Hypothesis Hnum : hash_num rupd = None.

Definition Jany (k : nat) : Prop :=
  inv s0 cnt slots Wd k
  /\ nothing_to_adopt (Wd k) s0 = true
  /\ exists st rv c, w_set (Wd k) = Some (set_status s0 st rv)
                     /\ gsr_value hashes (set_status s0 st rv) (sort_revs (lrevs (Wd k) s0)) = Some (c, rupd, coll).

Lemma Jany_all : forall k, Jany k.
Proof.
  induction k as [|k IH].
  - split; [|split; [exact A0 | exists st0, rv0, rcur0; split; [exact Hset0 | exact G0]]].
    split; [exists st0, rv0; exact Hset0|]. split; [exact W0|]. split; [exact N0 | exact C0].
  - destruct IH as (((stx & rvx & Hsx) & Wk & Nk & Ck) & Ak & (st & rv & c & Hs & Hg)).
    set (s := set_status s0 st rv) in *.
    assert (Hl : lrevs (Wd k) s = lrevs (Wd k) s0) by reflexivity.
    assert (Hucs : forall i, use_current s i = true -> i < umin_of s).
    { intros i Hi. unfold s in Hi. rewrite (use_current_status s0 st rv Hroll) in Hi. apply (Huc0 s0 Hroll). exact Hi. }
    assert (Had : nothing_to_adopt (Wd k) s = true) by exact Ak.
    destruct (all_claimed_quiet s _ Ck) as [Q1 Q2].
    assert (Hgk : gsr_value hashes s (sort_revs (lrevs (Wd k) s)) = Some (c, rupd, coll)) by exact Hg.
    assert (Wk' : wf s cnt slots (w_pods (Wd k))) by (apply (proj1 (wf_status s0 st rv cnt slots _)); exact Wk).
    (* the pods *)
    pose proof (lift_round s upd cnt slots Hcnt Hdel Hclaims Hucs (rinfo_of c) hashes (Wd k) c rupd coll r
                  Hs Hpause Hsel Had Q1 Q2 Hgk eq_refl Hupd0 Hrep Hext Wk' Nk Hnames) as [L1 L2].
    unfold s in L2. rewrite (round_status s0 st rv Hroll) in L2. rewrite <- Hstep in L1, L2.
    (* the revisions and the set *)
    pose proof (env_round_any hashes s upd cnt slots Hcnt Hdel Hclaims Hucs (rinfo_of c) (Wd k) c rupd coll r
                  Hs Hpause Hsel Had Q1 Q2 Hgk eq_refl Hupd0 Hrep Hext Wk' Hnames Hrhl) as [E1 E2].
    rewrite <- Hstep in E1, E2.
    set (D := trunc_names s (w_pods (Wd k)) (sort_revs (lrevs (Wd k) s)) c rupd) in *.
    assert (Kc : keepn D c = true) by (apply keepn_avoid; intros n Hn; apply (trunc_names_avoid _ _ _ _ _ _ Hn)).
    assert (Ku : keepn D rupd = true) by (apply keepn_avoid; intros n Hn; apply (trunc_names_avoid _ _ _ _ _ _ Hn)).
    assert (Hsorted : sort_revs (lrevs (Wd (S k)) s0) = filter (keepn D) (sort_revs (lrevs (Wd k) s0)))
      by (apply sorted_lrevs_filter; exact E1).
    assert (Hg' : gsr_value hashes s (sort_revs (lrevs (Wd (S k)) s0)) = Some (c, rupd, coll))
      by (rewrite Hsorted; apply gsr_value_filter; assumption).
    split; [|split].
    + split; [rewrite Hstep; apply (env_round_set hashes s0 cnt r slots Hdel Hclaims Hroll Hpause Hsel Hrep Hext Hnames (Wd k) st rv Hs)|].
      split; [apply (wf_members s0 cnt slots (round s0 upd cnt slots (rinfo_of c) (w_pods (Wd k)))); [apply (round_wf s0 upd cnt slots Hcnt Hclaims (Huc0 s0 Hroll)); exact Wk | exact L2]|].
      split; [exact L1|]. apply (all_claimed_round s0 upd cnt slots Hcnt Hclaims Hroll (rinfo_of c) (w_pods (Wd k))); assumption.
    + unfold nothing_to_adopt in *. rewrite Hdel in *. cbn [negb] in *. rewrite andb_true_r in *.
      apply negb_true_iff. apply negb_true_iff in Ak. rewrite (lrevs_filter D (Wd k) (Wd (S k)) s0 E1).
      apply existsb_filter_false. exact Ak.
    + destruct E2 as (po & Hpo & _ & [[E2 _]|[E2 _]]); cbv zeta in E2.
      * exists st, rv, c. split; [exact E2 | exact Hg'].
      * set (st' := complete_rolling_update s (po_status po)) in *.
        assert (Hc : coll0_of st' = coll).
        { unfold coll0_of, st'. rewrite complete_coll. destruct (plan_status_meta _ _ _ _ _ _ Hpo) as (_ & _ & _ & M4). rewrite M4. reflexivity. }
        destruct (gsr_value_status hashes s (sort_revs (lrevs (Wd (S k)) s0)) c rupd coll st' (s_rv s + 1) Hg' Hc) as (c' & Hg'').
        exists st', (s_rv s + 1), c'. split; [exact E2 | exact Hg''].
Qed.

Lemma Jany_rev_quiet k : rev_quiet hashes upd (Wd k) (cur_fun hashes upd (Wd k)).
Proof.
  destruct (Jany_all k) as (_ & Ak & (st & rv & c & Hs & Hg)).
  intros s Hs'. rewrite Hs in Hs'. inversion Hs'; subst s.
  split; [exact Ak|].
  exists c, rupd, coll. split; [exact Hg|]. split; [|exact Hupd0].
  unfold cur_fun. rewrite Hs.
  change (lrevs (Wd k) (set_status s0 st rv)) with (lrevs (Wd k) s0). rewrite Hg. reflexivity.
Qed.

(* C02 over the full model with hypotheses on the INITIAL world only and NO bound on the revision history *)
Theorem full_model_converges_any_history :
  exists k, Z.of_nat k <= mu s0 upd cnt slots (w_pods (Wd O))
    /\ forall m, (k <= m)%nat ->
         pods_converged s0 upd cnt slots (w_pods (Wd m)) /\ same_members (w_pods (Wd m)) (w_pods (Wd k))
         /\ forall cur, plan_acts s0 cur upd cnt slots (w_pods (Wd m)) = [].
Proof.
  apply (full_model_converges_rev_quiet hashes s0 upd cnt r slots Hcnt Hdel Hclaims Hroll Hpause Hsel Hrep Hext Hnames
           Wd (fun k => cur_fun hashes upd (Wd k)) Hstep Jany_rev_quiet (ex_intro _ st0 (ex_intro _ rv0 Hset0)) W0 N0 C0).
Qed.

(* and the stored revisions only ever shrink, never losing the update revision *)
Lemma revs_shrink k : exists D, w_revs (Wd (S k)) = filter (keepn D) (w_revs (Wd k)) /\ keepn D rupd = true.
Proof.
  destruct (Jany_all k) as (((stx & rvx & Hsx) & Wk & Nk & Ck) & Ak & (st & rv & c & Hs & Hg)).
  set (s := set_status s0 st rv) in *.
  assert (Hucs : forall i, use_current s i = true -> i < umin_of s).
  { intros i Hi. unfold s in Hi. rewrite (use_current_status s0 st rv Hroll) in Hi. apply (Huc0 s0 Hroll). exact Hi. }
  destruct (all_claimed_quiet s _ Ck) as [Q1 Q2].
  assert (Wk' : wf s cnt slots (w_pods (Wd k))) by (apply (proj1 (wf_status s0 st rv cnt slots _)); exact Wk).
  pose proof (env_round_any hashes s upd cnt slots Hcnt Hdel Hclaims Hucs (rinfo_of c) (Wd k) c rupd coll r
                Hs Hpause Hsel Ak Q1 Q2 Hg eq_refl Hupd0 Hrep Hext Wk' Hnames Hrhl) as [E1 _].
  rewrite <- Hstep in E1. eexists. split; [exact E1|].
  apply keepn_avoid; intros n Hn; apply (trunc_names_avoid _ _ _ _ _ _ Hn).
Qed.


(* ================================================================ and then quiet ======================== *)
Lemma round_facts_any k :
  exists st rv c po,
    let s := set_status s0 st rv in
    let pk := w_pods (Wd k) in
    w_set (Wd k) = Some s
    /\ gsr_value hashes s (sort_revs (lrevs (Wd k) s0)) = Some (c, rupd, coll)
    /\ nothing_to_adopt (Wd k) s0 = true
    /\ plan_pods s (rinfo_of c) upd coll pk = Some po
    /\ po_acts po = plan_acts s0 (rinfo_of c) upd cnt slots pk
    /\ wf s0 cnt slots pk /\ NoDup pk /\ all_claimed s0 pk
    /\ NoDup (w_pods (Wd (S k))) /\ same_members (w_pods (Wd (S k))) (round s0 upd cnt slots (rinfo_of c) pk)
    /\ w_revs (Wd (S k)) = filter (keepn (trunc_names s pk (sort_revs (lrevs (Wd k) s0)) c rupd)) (w_revs (Wd k))
    /\ (let st' := complete_rolling_update s (po_status po) in
        (w_set (Wd (S k)) = Some s /\ inconsistent_status s st' = false)
        \/ (w_set (Wd (S k)) = Some (set_status s st' (s_rv s + 1)) /\ inconsistent_status s st' = true)).
Proof.
  destruct (Jany_all k) as (((stx & rvx & Hsx) & Wk & Nk & Ck) & Ak & (st & rv & c & Hs & Hg)).
  set (s := set_status s0 st rv) in *.
  assert (Hucs : forall i, use_current s i = true -> i < umin_of s).
  { intros i Hi. unfold s in Hi. rewrite (use_current_status s0 st rv Hroll) in Hi. apply (Huc0 s0 Hroll). exact Hi. }
  destruct (all_claimed_quiet s _ Ck) as [Q1 Q2].
  assert (Wk' : wf s cnt slots (w_pods (Wd k))) by (apply (proj1 (wf_status s0 st rv cnt slots _)); exact Wk).
  pose proof (lift_round s upd cnt slots Hcnt Hdel Hclaims Hucs (rinfo_of c) hashes (Wd k) c rupd coll r
                Hs Hpause Hsel Ak Q1 Q2 Hg eq_refl Hupd0 Hrep Hext Wk' Nk Hnames) as [L1 L2].
  unfold s in L2. rewrite (round_status s0 st rv Hroll) in L2. rewrite <- Hstep in L1, L2.
  pose proof (env_round_any hashes s upd cnt slots Hcnt Hdel Hclaims Hucs (rinfo_of c) (Wd k) c rupd coll r
                Hs Hpause Hsel Ak Q1 Q2 Hg eq_refl Hupd0 Hrep Hext Wk' Hnames Hrhl) as [E1 (po & Hpo & Hac & E2)].
  rewrite <- Hstep in E1, E2. unfold s in Hac. rewrite (plan_acts_status s0 st rv Hroll) in Hac.
  exists st, rv, c, po. cbv zeta. fold s.
  split; [exact Hs|]. split; [exact Hg|]. split; [exact Ak|]. split; [exact Hpo|]. split; [exact Hac|].
  split; [exact Wk|]. split; [exact Nk|]. split; [exact Ck|]. split; [exact L1|]. split; [exact L2|]. split; [exact E1 | exact E2].
Qed.

Lemma In_keep D (c : rev) l : In c l -> keepn D c = true -> In c (filter (keepn D) l).
Proof. intros H K. apply filter_In. split; assumption. Qed.

Lemma consistent_next_any k :
  (forall cur, plan_acts s0 cur upd cnt slots (w_pods (Wd k)) = []) ->
  forall st1 rv1 c1 po1,
    w_set (Wd (S k)) = Some (set_status s0 st1 rv1) ->
    gsr_value hashes (set_status s0 st1 rv1) (sort_revs (lrevs (Wd (S k)) s0)) = Some (c1, rupd, coll) ->
    plan_pods (set_status s0 st1 rv1) (rinfo_of c1) upd coll (w_pods (Wd (S k))) = Some po1 -> po_acts po1 = [] ->
    inconsistent_status (set_status s0 st1 rv1) (complete_rolling_update (set_status s0 st1 rv1) (po_status po1)) = false.
Proof.
  intros Hnil st1 rv1 c1 po1 Hs1 Hg1 Hp1 Ha1.
  destruct (round_facts_any k) as (st & rv & c & po & Hs & Hg & Had & Hpo & Hac & Wk & Nk & Ck & Nk' & Mk' & Hrv & Hcase). cbv zeta in *.
  set (s := set_status s0 st rv) in *. set (s1 := set_status s0 st1 rv1) in *.
  set (D := trunc_names s (w_pods (Wd k)) (sort_revs (lrevs (Wd k) s0)) c rupd) in *.
  assert (Kc : keepn D c = true) by (apply keepn_avoid; intros n Hn; apply (trunc_names_avoid _ _ _ _ _ _ Hn)).
  assert (Ku : keepn D rupd = true) by (apply keepn_avoid; intros n Hn; apply (trunc_names_avoid _ _ _ _ _ _ Hn)).
  assert (Hsorted : sort_revs (lrevs (Wd (S k)) s0) = filter (keepn D) (sort_revs (lrevs (Wd k) s0)))
    by (apply sorted_lrevs_filter; exact Hrv).
  rewrite (Hnil (rinfo_of c)) in Hac.
  rewrite (round_quiet s0 upd cnt slots (rinfo_of c) _ (Hnil (rinfo_of c))) in Mk'.
  rewrite (empty_plan_status _ _ _ _ _ _ Hpo Hac) in Hcase.
  rewrite (empty_plan_status _ _ _ _ _ _ Hp1 Ha1).
  destruct Hcase as [[Hset Hinc]|[Hset Hinc]]; rewrite Hs1 in Hset.
  - assert (Hs1eq : s1 = s) by (inversion Hset as [[E1 E2]]; unfold s1, s; rewrite E1, E2; reflexivity).
    assert (Hc : c1 = c).
    { pose proof (gsr_value_filter hashes s _ c rupd coll D Hg Hnum Kc Ku) as Hf. rewrite <- Hsorted, <- Hs1eq in Hf.
      rewrite Hf in Hg1. inversion Hg1; reflexivity. }
    subst c1. rewrite Hs1eq.
    rewrite (complete_census_eq upd s s (rinfo_of c) (rinfo_of c) coll _ _ eq_refl eq_refl eq_refl Nk Nk' Mk'). exact Hinc.
  - set (F := census_status s (ri_name (rinfo_of c)) (ri_name upd) (rinfo_of c) upd coll (w_pods (Wd k))) in *.
    assert (Hs1eq : s1 = set_status s (complete_rolling_update s F) (s_rv s + 1)) by (inversion Hset as [[E1 E2]]; unfold s1; rewrite E1, E2; reflexivity).
    assert (Hst1 : s_status s1 = complete_rolling_update s F) by (rewrite Hs1eq; reflexivity).
    assert (Hrev : In rupd (sort_revs (lrevs (Wd (S k)) s0))) by (destruct (gsr_value_cur _ _ _ _ _ _ Hg1) as [H _]; exact H).
    assert (Hcin : In c (sort_revs (lrevs (Wd (S k)) s0))).
    { rewrite Hsorted. apply In_keep; [|exact Kc].
      destruct (gsr_value_cur _ _ _ _ _ _ Hg) as (Hu & [(c' & Hf & ->)|(_ & ->)]); [apply find_some in Hf; tauto | exact Hu]. }
    assert (Hname : st_currev (complete_rolling_update s F) = ri_name upd \/ st_currev (complete_rolling_update s F) = r_name c).
    { unfold complete_rolling_update.
      destruct (String.eqb (s_strategy s) "RollingUpdate" && (st_updated F =? st_replicas F) && (st_ready F =? st_replicas F));
        [left | right]; reflexivity. }
    assert (Hsame : complete_rolling_update s1 (census_status s1 (ri_name (rinfo_of c1)) (ri_name upd) (rinfo_of c1) upd coll (w_pods (Wd (S k))))
                    = complete_rolling_update s F).
    { destruct Hname as [Hn|Hn].
      - assert (Hc1 : r_name c1 = r_name rupd).
        { apply (gsr_value_cur_name hashes s1 _ c1 rupd coll rupd Hg1 Hrev). rewrite Hst1, Hn, Hupd0. reflexivity. }
        assert (Hn1 : ri_name (rinfo_of c1) = ri_name upd) by (rewrite Hupd0; exact Hc1).
        rewrite (complete_census_eq upd s s1 (rinfo_of c1) (rinfo_of c1) coll _ _ eq_refl eq_refl eq_refl Nk Nk' Mk').
        apply (complete_census_done upd s (rinfo_of c) coll (w_pods (Wd k)) Hn (rinfo_of c1) Hn1).
      - assert (Hc1 : r_name c1 = r_name c).
        { apply (gsr_value_cur_name hashes s1 _ c1 rupd coll c Hg1 Hcin). rewrite Hst1, Hn. reflexivity. }
        apply (complete_census_eq upd s s1 (rinfo_of c) (rinfo_of c1) coll _ _ (eq_sym Hc1) eq_refl eq_refl Nk Nk' Mk'). }
    rewrite Hsame. rewrite Hs1eq. apply consistent_refl.
Qed.

(* two rounds after the plan has become empty the world is QUIET: the status is reproduced, and the truncation of
   the round before has left nothing to delete *)
Lemma quiet_at_any k :
  (forall l, s_rhl s0 = Some l -> 0 <= l) ->
  (forall cur, plan_acts s0 cur upd cnt slots (w_pods (Wd k)) = []) ->
  (forall cur, plan_acts s0 cur upd cnt slots (w_pods (Wd (S k))) = []) ->
  (forall cur, plan_acts s0 cur upd cnt slots (w_pods (Wd (S (S k)))) = []) ->
  quietb hashes (Wd (S (S k))) (Wd (S (S k))) = true.
Proof.
  intros Hl0 Hnil Hnil' Hnil''.
  destruct (round_facts_any (S k)) as (st1 & rv1 & c1 & po1 & Hs1 & Hg1 & Had1 & Hpo1 & Hac1 & Wk1 & Nk1 & Ck1 & Nk2' & Mk2' & Hrv1 & Hcase1). cbv zeta in *.
  destruct (round_facts_any (S (S k))) as (st2 & rv2 & c2 & po2 & Hs2 & Hg2 & Had2 & Hpo2 & Hac2 & Wk2 & Nk2 & Ck2 & _). cbv zeta in *.
  set (s1 := set_status s0 st1 rv1) in *. set (s2 := set_status s0 st2 rv2) in *.
  set (D1 := trunc_names s1 (w_pods (Wd (S k))) (sort_revs (lrevs (Wd (S k)) s0)) c1 rupd) in *.
  rewrite (Hnil' (rinfo_of c1)) in Hac1. rewrite (Hnil'' (rinfo_of c2)) in Hac2.
  pose proof (consistent_next_any k Hnil st1 rv1 c1 po1 Hs1 Hg1 Hpo1 Hac1) as Hcons1. fold s1 in Hcons1.
  pose proof (consistent_next_any (S k) Hnil' st2 rv2 c2 po2 Hs2 Hg2 Hpo2 Hac2) as Hcons2. fold s2 in Hcons2.
  (* round S k wrote nothing: the set of S (S k) is the one of S k, and it resolves the same current revision *)
  destruct Hcase1 as [[Hset _]|[_ Hinc]]; [|rewrite Hcons1 in Hinc; discriminate].
  assert (Hs21 : s2 = s1) by (rewrite Hs2 in Hset; inversion Hset as [[E1 E2]]; unfold s1, s2; rewrite E1, E2; reflexivity).
  assert (Kc : keepn D1 c1 = true) by (apply keepn_avoid; intros n Hn; apply (trunc_names_avoid _ _ _ _ _ _ Hn)).
  assert (Ku : keepn D1 rupd = true) by (apply keepn_avoid; intros n Hn; apply (trunc_names_avoid _ _ _ _ _ _ Hn)).
  assert (Hsorted : sort_revs (lrevs (Wd (S (S k))) s0) = filter (keepn D1) (sort_revs (lrevs (Wd (S k)) s0)))
    by (apply sorted_lrevs_filter; exact Hrv1).
  assert (Hc : c2 = c1).
  { pose proof (gsr_value_filter hashes s1 _ c1 rupd coll D1 Hg1 Hnum Kc Ku) as Hf. rewrite <- Hsorted, <- Hs21 in Hf.
    rewrite Hf in Hg2. inversion Hg2; reflexivity. }
  rewrite (round_quiet s0 upd cnt slots (rinfo_of c1) _ (Hnil' (rinfo_of c1))) in Mk2'.
  destruct (all_claimed_quiet s2 _ Ck2) as [Q1 Q2].
  unfold quietb. rewrite Hs2. change (get_paused (s_pause s2)) with (get_paused (s_pause s0)). rewrite Hpause.
  change (s_selector s2) with (s_selector s0). rewrite Hsel. cbn [orb].
  change (nothing_to_adopt (Wd (S (S k))) s2) with (nothing_to_adopt (Wd (S (S k))) s0). rewrite Had2, Q1, Q2. cbn [andb].
  unfold quiet_pods. change (lrevs (Wd (S (S k))) s2) with (lrevs (Wd (S (S k))) s0). rewrite Hg2.
  replace {| ri_name := r_name rupd; ri_tmpl := r_tmpl rupd |} with upd by (rewrite Hupd0; reflexivity).
  change {| ri_name := r_name c2; ri_tmpl := r_tmpl c2 |} with (rinfo_of c2).
  rewrite Hpo2, Hac2, Hcons2. cbn [negb andb].
  rewrite Hsorted, Hc, Hs21. unfold D1.
  apply trunc_quiet_after.
  - apply sort_revs_names_nodup.
  - exact Hrhl.
  - exact Hl0.
  - intros n. split; intros H; apply in_map_iff in H; destruct H as (p & <- & Hp); apply in_map; apply Mk2'; exact Hp.
Qed.

(* C02 over the full model, complete, for a revision history of ANY length: after at most mu fair rounds the pods
   are converged, and from two rounds after that on every world is quiet *)
Theorem full_model_any_history_goes_quiet :
  (forall l, s_rhl s0 = Some l -> 0 <= l) ->
  exists k, Z.of_nat k <= mu s0 upd cnt slots (w_pods (Wd O)) + 2
    /\ forall m, (k <= m)%nat ->
         pods_converged s0 upd cnt slots (w_pods (Wd m))
         /\ quietb hashes (Wd m) (Wd m) = true.
Proof.
  intros Hl0. destruct full_model_converges_any_history as (k & K1 & K2).
  exists (S (S k)). split; [lia|]. intros m Hm. destruct m as [|[|m]]; try lia.
  destruct (K2 m ltac:(lia)) as (_ & _ & P1). destruct (K2 (S m) ltac:(lia)) as (_ & _ & P2). destruct (K2 (S (S m)) ltac:(lia)) as (C3 & _ & P3).
  split; [exact C3 | apply quiet_at_any; assumption].
Qed.

Theorem full_model_any_history_stored_status :
  0 <= r -> r + Z.of_nat (length (get_slots (s_slots s0))) <= max_i32 ->
  exists k, Z.of_nat k <= mu s0 upd cnt slots (w_pods (Wd O)) + 1
    /\ forall m, (k <= m)%nat ->
         exists s, w_set (Wd m) = Some s /\ st_replicas (s_status s) = r /\ st_ready (s_status s) = r.
Proof.
  intros Hr0 Hb. destruct full_model_converges_any_history as (k & K1 & K2).
  exists (S k). split; [lia|]. intros m Hm. destruct m as [|m]; [lia|].
  destruct (K2 m ltac:(lia)) as (_ & _ & P1). destruct (K2 (S m) ltac:(lia)) as (C2 & _ & P2).
  destruct (round_facts_any (S m)) as (st1 & rv1 & c1 & po1 & Hs1 & Hg1 & Had1 & Hpo1 & Hac1 & Wk1 & Nk1 & Ck1 & _). cbv zeta in *.
  set (s1 := set_status s0 st1 rv1) in *.
  rewrite (P2 (rinfo_of c1)) in Hac1.
  pose proof (consistent_next_any m P1 st1 rv1 c1 po1 Hs1 Hg1 Hpo1 Hac1) as Hcons. fold s1 in Hcons.
  destruct (inconsistent_false_fields _ _ Hcons) as [E1 E2].
  destruct (complete_counters_same s1 (po_status po1)) as [F1 F2]. rewrite F1 in E1. rewrite F2 in E2.
  assert (C2' : pods_converged s1 upd cnt slots (w_pods (Wd (S m)))).
  { destruct C2 as [A B]. split; [exact A | exact B]. }
  destruct (converged_status s1 (rinfo_of c1) upd coll r cnt slots (w_pods (Wd (S m))) po1 Hrep Hr0 Hb Hext Nk1
              (wf_dist _ _ _ _ Wk1) (fun p Hp => proj1 (wf_ord _ _ _ _ Wk1 p Hp)) C2' Hpo1) as (_ & R1 & R2).
  exists s1. split; [exact Hs1|]. split; congruence.
Qed.

End ClosedAny.
