(* C01 — Desired ordinals = first `replicas` non-negative integers not in delete-slots.
   Statements only; every proof is `exact <lemma>` into SlotsProofs.v / ReconcileProofs.v. *)
From ASTS Require Import Base Slots SlotsProofs.
From Coq Require Import Sorting.Sorted.

(* desired_spec r D O  (SlotsProofs.v):  |O| = r;  O ascending (so duplicate-free);
   every member is >= 0 and not in D;  every free number outside O is above all of O.     *)

(* (1) for every replica count and EVERY annotation value (absent, empty, malformed, duplicates,
   negative, out of range ...) the ordinals computed by the helpers are the desired set.
   Guard: r + |slots| <= MaxInt32, exactly the condition under which the int32 counter of the
   range-extension loop cannot wrap. *)
Theorem C01_desired_set : forall (r : Z) (ann : option string),
  0 <= r -> r + Z.of_nat (length (get_slots ann)) <= max_i32 ->
  desired_spec r (get_slots ann) (pod_ordinals r (get_slots ann)).
Proof. intros r ann Hr Hb. exact (pod_ordinals_spec r _ Hr (get_slots_sorted ann) Hb). Qed.
Print Assumptions C01_desired_set.

(* (2) the four clauses determine the set: anything else satisfying them is the same list *)
Theorem C01_desired_set_unique : forall r D O1 O2,
  desired_spec r D O1 -> desired_spec r D O2 -> O1 = O2.
Proof. exact desired_spec_unique. Qed.
Print Assumptions C01_desired_set_unique.

(* (3) "each member is the least non-negative integer that is neither a slot nor already taken" *)
Theorem C01_greedy : forall r D O, desired_spec r D O -> forall i o, nth_error O i = Some o ->
  free D o /\ ~ In o (firstn i O) /\ (forall n, free D n -> ~ In n (firstn i O) -> o <= n).
Proof. exact desired_spec_greedy. Qed.
Print Assumptions C01_greedy.

(* (4) the helpers agree: effective range c and effective slots k satisfy c = r + |k|,
   k = D ∩ [0,c), and the ordinals are [0,c) \ k *)
Theorem C01_effective_range_and_slots : forall r D c k,
  0 <= r -> StronglySorted Z.lt D -> r + Z.of_nat (length D) <= max_i32 -> extend r D = (c, k) ->
  c = r + Z.of_nat (length k)
  /\ (forall s, In s k <-> In s D /\ 0 <= s < c)
  /\ StronglySorted Z.lt k
  /\ pod_ordinals r D = ordinals_of c k.
Proof. exact extend_spec. Qed.
Print Assumptions C01_effective_range_and_slots.

(* (5) highest / lowest ordinal, with the documented sentinels on the empty set *)
Theorem C01_max_ordinal : forall r D,
  0 <= r -> StronglySorted Z.lt D -> r + Z.of_nat (length D) <= max_i32 ->
  (pod_ordinals r D = [] /\ max_ord r D = -1)
  \/ (In (max_ord r D) (pod_ordinals r D) /\ forall o, In o (pod_ordinals r D) -> o <= max_ord r D).
Proof. exact max_ord_spec. Qed.
Print Assumptions C01_max_ordinal.

Theorem C01_min_ordinal : forall r D,
  0 <= r -> StronglySorted Z.lt D -> r + Z.of_nat (length D) <= max_i32 ->
  (pod_ordinals r D = [] /\ min_ord r D = max_i32)
  \/ (In (min_ord r D) (pod_ordinals r D) /\ forall o, In o (pod_ordinals r D) -> min_ord r D <= o).
Proof. exact min_ord_spec. Qed.
Print Assumptions C01_min_ordinal.

(* (6) the set data structure: get_slots always yields an ascending duplicate-free list *)
Theorem C01_slots_normalised : forall ann, StronglySorted Z.lt (get_slots ann).
Proof. exact get_slots_sorted. Qed.
Print Assumptions C01_slots_normalised.

(* (7) the loop as it stood before the repair (negative slots not excluded) violates (1):
   replicas 3 with slot -1 yields four ordinals.  This is the replayed finding. *)
Theorem C01_negative_slot_prefix_refuted :
  exists r D, 0 <= r /\ StronglySorted Z.lt D /\ Z.of_nat (length (pod_ordinals_prefix r D)) <> r.
Proof. exists 3, [-1]. repeat split; [lia | repeat constructor | vm_compute; discriminate]. Qed.
Print Assumptions C01_negative_slot_prefix_refuted.

(* non-vacuity: concrete non-trivial inputs satisfy the hypotheses, with the expected sets *)
Example C01_ex1 : pod_ordinals 3 (get_slots (Some "[0,2]"%string)) = [1; 3; 4]
  /\ 3 + Z.of_nat (length (get_slots (Some "[0,2]"%string))) <= max_i32.
Proof. split; [vm_compute; reflexivity | vm_compute; discriminate]. Qed.
Example C01_ex2 : pod_ordinals 3 (get_slots (Some "[4, 5]"%string)) = [0; 1; 2].
Proof. vm_compute; reflexivity. Qed.
Example C01_ex3 : pod_ordinals 3 (get_slots (Some "[9,4,2,1,0,-7,2]"%string)) = [3; 5; 6].
Proof. vm_compute; reflexivity. Qed.
Example C01_ex4 : get_slots (Some "[1,2"%string) = [] /\ get_slots (Some "[1.5]"%string) = []
  /\ get_slots (Some "[2147483648]"%string) = [] /\ get_slots (Some " [ 3 , null ] "%string) = [0; 3].
Proof. vm_compute. repeat split. Qed.

(* (8) the controller side: for every API state, informer cache and fault oracle, every pod the reconcile
   creates is named after a member of the desired set of the cached StatefulSet — it creates pods at those
   ordinals and nowhere else (that the ordinal is vacant is C04). *)
From ASTS Require Import Names World Reconcile PlanProofs ReconcileProofs.
Theorem C01_controller_creates_only_desired :
  forall hashes api cache faults o log w' n rv t e,
    reconcile hashes api cache faults = (o, log, w') ->
    (forall q, In q (w_pods cache) -> isCreated q = true) ->
    In (CCreatePod n rv t, e) log ->
    exists s r i, w_set cache = Some s /\ s_replicas s = Some r
                  /\ In i (pod_ordinals r (get_slots (s_slots s))) /\ n = pod_name (s_name s) i.
Proof.
  intros hashes api cache faults o log w' n rv t e Hr Hc Hin.
  destruct (reconcile_create_justified _ _ _ _ _ _ _ _ _ _ _ Hr Hc Hin)
    as (s & cur & upd & coll & claimed & po & r & cnt & slots & i & Hv & _ & H1 & _ & H3 & Hn & _).
  exists s, r, i. destruct Hv as (Hs & _). split; [exact Hs|]. split; [exact H1|]. split; [exact H3|].
  rewrite Hn. unfold new_versioned_pod. destruct (use_current s i); reflexivity.
Qed.
Print Assumptions C01_controller_creates_only_desired.
