(* PlanProofs.v — lemmas about the pure pod-phase planner of Reconcile.v (plan_pods): the
   replicas[] array, the three loops, the status counters.  Statements of the properties are in
   C03.v C04.v C05.v C07.v C12.v C14.v C15.v. *)
From ASTS Require Import Base Slots SlotsProofs Names World Reconcile.

(* ------------------------------------------------------------------ arrays --------------------- *)
Lemma set_nth_length {A} (x : A) l : forall n, length (set_nth n x l) = length l.
Proof. induction l as [|y t IH]; intros [|n]; cbn [set_nth length]; auto. Qed.

Lemma nth_error_set_nth_eq {A} (x : A) l : forall n, (n < length l)%nat -> nth_error (set_nth n x l) n = Some x.
Proof.
  induction l as [|y t IH]; intros [|n] H; cbn [set_nth nth_error length] in *; try lia; auto.
  apply IH. lia.
Qed.

Lemma nth_error_set_nth_neq {A} (x : A) l : forall n m, n <> m -> nth_error (set_nth n x l) m = nth_error l m.
Proof.
  induction l as [|y t IH]; intros [|n] [|m] H; cbn [set_nth nth_error]; auto; try congruence.
Qed.

Lemma in_range_bounds cnt slots o : in_range cnt slots o = true -> 0 <= o < cnt /\ ~ In o slots.
Proof.
  unfold in_range. intros H. apply andb_true_iff in H. destruct H as [H H3].
  apply andb_true_iff in H. destruct H as [H1 H2].
  apply Z.leb_le in H1. apply Z.ltb_lt in H2. apply negb_true_iff in H3. apply memb_false in H3. tauto.
Qed.

Lemma in_range_iff_desired cnt slots o : in_range cnt slots o = true <-> In o (ordinals_of cnt slots).
Proof.
  unfold ordinals_of. rewrite filter_In, zrange_In. split.
  - intros H. apply in_range_bounds in H. destruct H as [H1 H2]. split; [exact H1|].
    apply negb_true_iff. apply memb_false. exact H2.
  - intros [H1 H2]. unfold in_range. apply negb_true_iff in H2.
    rewrite H2. destruct H1 as [H1 H1']. apply Z.leb_le in H1. apply Z.ltb_lt in H1'. rewrite H1, H1'. reflexivity.
Qed.

(* what the partition pass leaves in the array *)
Definition placed_inv (cnt : Z) (slots : list Z) (pods : list pod) (arr : list (option pod)) : Prop :=
  forall i, match nth_error arr i with
            | Some (Some p) => In p pods /\ getOrdinal p = Z.of_nat i /\ in_range cnt slots (Z.of_nat i) = true
            | Some None => forall q, In q pods -> in_range cnt slots (getOrdinal q) = true -> getOrdinal q <> Z.of_nat i
            | None => True
            end.

Lemma place_fold_inv cnt slots : forall pods2 pods1 arr,
  placed_inv cnt slots pods1 arr ->
  placed_inv cnt slots (pods1 ++ pods2) (fold_left (place cnt slots) pods2 arr)
  /\ length (fold_left (place cnt slots) pods2 arr) = length arr.
Proof.
  induction pods2 as [|p t IH]; intros pods1 arr Hinv; cbn [fold_left].
  - rewrite app_nil_r. split; [exact Hinv | reflexivity].
  - assert (Hstep : placed_inv cnt slots (pods1 ++ [p]) (place cnt slots arr p)
                    /\ length (place cnt slots arr p) = length arr).
    { unfold place. destruct (in_range cnt slots (getOrdinal p)) eqn:R.
      - split; [|apply set_nth_length].
        pose proof (in_range_bounds _ _ _ R) as [Hb _].
        intros i. destruct (Nat.eq_dec (Z.to_nat (getOrdinal p)) i) as [E|E].
        + subst i. destruct (Nat.lt_ge_cases (Z.to_nat (getOrdinal p)) (length arr)) as [Hl|Hl].
          * rewrite nth_error_set_nth_eq by exact Hl. split; [apply in_or_app; right; left; reflexivity|].
            rewrite Z2Nat.id by lia. split; [reflexivity | exact R].
          * assert (Hn : nth_error (set_nth (Z.to_nat (getOrdinal p)) (Some p) arr) (Z.to_nat (getOrdinal p)) = None).
            { apply nth_error_None. rewrite set_nth_length. exact Hl. }
            rewrite Hn. exact I.
        + rewrite nth_error_set_nth_neq by exact E. specialize (Hinv i).
          destruct (nth_error arr i) as [[q|]|]; [| |exact I].
          * destruct Hinv as (H1 & H2 & H3). split; [apply in_or_app; left; exact H1 | tauto].
          * intros q Hq Rq. apply in_app_or in Hq. destruct Hq as [Hq|[<-|[]]]; [apply Hinv; assumption|].
            intros Heq. apply E. rewrite Heq. apply Nat2Z.id.
      - split; [|reflexivity]. intros i. specialize (Hinv i).
        destruct (nth_error arr i) as [[q|]|]; [| |exact I].
        + destruct Hinv as (H1 & H2 & H3). split; [apply in_or_app; left; exact H1 | tauto].
        + intros q Hq Rq. apply in_app_or in Hq. destruct Hq as [Hq|[<-|[]]]; [apply Hinv; assumption|].
          congruence. }
    destruct Hstep as [Hs Hl]. destruct (IH (pods1 ++ [p]) _ Hs) as [H1 H2].
    rewrite <- app_assoc in H1. cbn [app] in H1. split; [exact H1 | rewrite H2; exact Hl].
Qed.

Lemma placed_inv_init cnt slots n : placed_inv cnt slots [] (repeat None n).
Proof.
  intros i. destruct (nth_error (repeat (@None pod) n) i) as [[p|]|] eqn:E; [| |exact I].
  - apply nth_error_In in E. apply repeat_spec in E. discriminate.
  - intros q [].
Qed.

Lemma fill_nth s cur upd slots : forall arr o i,
  nth_error (fill s cur upd slots o arr) i =
  match nth_error arr i with
  | Some (Some p) => Some (Some p)
  | Some None => Some (if memb (o + Z.of_nat i) slots then None else Some (new_versioned_pod s cur upd (o + Z.of_nat i)))
  | None => None
  end.
Proof.
  induction arr as [|e t IH]; intros o i; destruct i as [|i]; cbn [fill nth_error]; auto.
  - rewrite Z.add_0_r. destruct e; reflexivity.
  - rewrite IH. replace (o + 1 + Z.of_nat i) with (o + Z.of_nat (S i)) by lia. reflexivity.
Qed.

Lemma fill_length s cur upd slots : forall arr o, length (fill s cur upd slots o arr) = length arr.
Proof. induction arr as [|e t IH]; intros o; cbn [fill length]; auto. Qed.

(* ------------------------------------------------------------------ the replicas array --------- *)
(* an entry of replicas[] is either an observed in-range pod with that ordinal, or a fresh pod at an
   in-range ordinal that no observed in-range pod occupies *)
Inductive entry_kind (s : sset) (cur upd : rinfo) (cnt : Z) (slots : list Z) (pods : list pod) (i : Z) : option pod -> Prop :=
| EK_slot : In i slots -> entry_kind s cur upd cnt slots pods i None
| EK_obs p : In p pods -> getOrdinal p = i -> in_range cnt slots i = true -> entry_kind s cur upd cnt slots pods i (Some p)
| EK_fresh : in_range cnt slots i = true ->
             (forall q, In q pods -> getOrdinal q <> i) ->
             entry_kind s cur upd cnt slots pods i (Some (new_versioned_pod s cur upd i)).

Definition replicas_of (s : sset) (cur upd : rinfo) (cnt : Z) (slots : list Z) (pods : list pod) : list (option pod) :=
  fill s cur upd slots 0 (fold_left (place cnt slots) pods (repeat None (Z.to_nat cnt))).

Lemma replicas_of_length s cur upd cnt slots pods : length (replicas_of s cur upd cnt slots pods) = Z.to_nat cnt.
Proof.
  unfold replicas_of. rewrite fill_length.
  destruct (place_fold_inv cnt slots pods [] _ (placed_inv_init cnt slots (Z.to_nat cnt))) as [_ H].
  rewrite H. apply repeat_length.
Qed.

Lemma replicas_of_kind s cur upd cnt slots pods i e :
  nth_error (replicas_of s cur upd cnt slots pods) i = Some e ->
  entry_kind s cur upd cnt slots pods (Z.of_nat i) e.
Proof.
  unfold replicas_of. rewrite fill_nth.
  destruct (place_fold_inv cnt slots pods [] _ (placed_inv_init cnt slots (Z.to_nat cnt))) as [Hinv Hlen].
  cbn [app] in Hinv. specialize (Hinv i).
  destruct (nth_error (fold_left (place cnt slots) pods (repeat None (Z.to_nat cnt))) i) as [[p|]|] eqn:E.
  - intros H. inversion H; subst e. destruct Hinv as (H1 & H2 & H3). apply EK_obs; assumption.
  - rewrite Z.add_0_l. intros H. inversion H; subst e.
    assert (Hi : (i < Z.to_nat cnt)%nat).
    { assert (Hne : nth_error (fold_left (place cnt slots) pods (repeat None (Z.to_nat cnt))) i <> None) by congruence.
      apply nth_error_Some in Hne. rewrite Hlen, repeat_length in Hne. exact Hne. }
    destruct (memb (Z.of_nat i) slots) eqn:M.
    + apply EK_slot. apply memb_In. exact M.
    + assert (R : in_range cnt slots (Z.of_nat i) = true).
      { unfold in_range. rewrite M. replace (0 <=? Z.of_nat i) with true by (symmetry; apply Z.leb_le; lia).
        replace (Z.of_nat i <? cnt) with true by (symmetry; apply Z.ltb_lt; lia). reflexivity. }
      apply EK_fresh; [exact R|]. intros q Hq Heq. apply (Hinv q Hq); [rewrite Heq; exact R | exact Heq].
  - discriminate.
Qed.

(* ------------------------------------------------------------------ projections of the loops ---- *)
(* a pod the ordered replica loop walks past: created, not failed/succeeded, not terminating, ready *)
Definition steady (p : pod) : bool :=
  negb (isFailed p || isSucceeded p) && isCreated p && negb (isTerminating p) && isRunningAndReady p.

Definition rs_acts (s : sset) (cur upd : rinfo) (mono : bool) (i : Z) (p0 : pod) : list act :=
  if isFailed p0 || isSucceeded p0 then [ADelete p0; ACreate (new_versioned_pod s cur upd i)]
  else if negb (isCreated p0) then [ACreate p0]
  else if isTerminating p0 && mono then []
  else if negb (isRunningAndReady p0) && mono then []
  else if identityMatches s p0 && storageMatches s p0 then []
  else [AUpdate p0].
Definition rs_go (mono : bool) (p0 : pod) : bool :=
  if isFailed p0 || isSucceeded p0 then negb mono
  else if negb (isCreated p0) then negb mono
  else if isTerminating p0 && mono then false
  else if negb (isRunningAndReady p0) && mono then false
  else true.
Definition rs_pod (s : sset) (cur upd : rinfo) (i : Z) (p0 : pod) : pod :=
  if isFailed p0 || isSucceeded p0 then new_versioned_pod s cur upd i else p0.

Lemma rstep_proj s cur upd mono i p0 st :
  exists st', rstep s cur upd mono i p0 st = (rs_acts s cur upd mono i p0, st', rs_go mono p0, rs_pod s cur upd i p0).
Proof.
  unfold rstep, rs_acts, rs_go, rs_pod.
  destruct (isFailed p0 || isSucceeded p0); [eexists; reflexivity|].
  destruct (negb (isCreated p0)); [eexists; reflexivity|].
  destruct (isTerminating p0 && mono); [eexists; reflexivity|].
  destruct (negb (isRunningAndReady p0) && mono); [eexists; reflexivity|].
  destruct (identityMatches s p0 && storageMatches s p0); eexists; reflexivity.
Qed.

Fixpoint rl_acts (s : sset) (cur upd : rinfo) (mono : bool) (i : Z) (l : list (option pod)) : list act :=
  match l with
  | [] => []
  | None :: t => rl_acts s cur upd mono (i + 1) t
  | Some p0 :: t => rs_acts s cur upd mono i p0 ++ (if rs_go mono p0 then rl_acts s cur upd mono (i + 1) t else [])
  end.
Fixpoint rl_go (mono : bool) (l : list (option pod)) : bool :=
  match l with
  | [] => true
  | None :: t => rl_go mono t
  | Some p0 :: t => rs_go mono p0 && rl_go mono t
  end.
(* the array after the loop: replaced entries up to the point where the loop stopped *)
Fixpoint rl_arr (s : sset) (cur upd : rinfo) (mono : bool) (i : Z) (l : list (option pod)) : list (option pod) :=
  match l with
  | [] => []
  | None :: t => None :: rl_arr s cur upd mono (i + 1) t
  | Some p0 :: t => Some (rs_pod s cur upd i p0) :: (if rs_go mono p0 then rl_arr s cur upd mono (i + 1) t else t)
  end.

Lemma rloop_proj s cur upd mono : forall l i st,
  exists st', rloop s cur upd mono i l st = (rl_acts s cur upd mono i l, st', rl_go mono l, rl_arr s cur upd mono i l).
Proof.
  induction l as [|[p0|] t IH]; intros i st; cbn [rloop rl_acts rl_go rl_arr].
  - eexists; reflexivity.
  - destruct (rstep_proj s cur upd mono i p0 st) as [st1 E]. rewrite E.
    destruct (rs_go mono p0); cbn [andb].
    + destruct (IH (i + 1) st1) as [st2 E2]. rewrite E2. eexists; reflexivity.
    + rewrite app_nil_r. eexists; reflexivity.
  - destruct (IH (i + 1) st) as [st2 E2]. rewrite E2. eexists; reflexivity.
Qed.

(* condemned loop *)
Definition cs_blocks (mono : bool) (fu : option pod) (p : pod) : bool :=
  negb (isRunningAndReady p) && mono && negb (same_pod p fu).
Fixpoint cl_acts (mono : bool) (fu : option pod) (l : list pod) : list act :=
  match l with
  | [] => []
  | p :: t =>
      if isTerminating p then (if mono then [] else cl_acts mono fu t)
      else if cs_blocks mono fu p then []
      else if mono then [ADelete p] else ADelete p :: cl_acts mono fu t
  end.
Fixpoint cl_go (mono : bool) (fu : option pod) (l : list pod) : bool :=
  match l with
  | [] => true
  | p :: t =>
      if isTerminating p then (if mono then false else cl_go mono fu t)
      else if cs_blocks mono fu p then false
      else if mono then false else cl_go mono fu t
  end.
Lemma cloop_proj cur upd mono fu : forall l st,
  exists st', cloop cur upd mono fu l st = (cl_acts mono fu l, st', cl_go mono fu l).
Proof.
  induction l as [|p t IH]; intros st; cbn [cloop cl_acts cl_go].
  - eexists; reflexivity.
  - unfold cs_blocks. destruct (isTerminating p).
    + destruct mono; [eexists; reflexivity | apply IH].
    + destruct (negb (isRunningAndReady p) && mono && negb (same_pod p fu)); [eexists; reflexivity|].
      destruct mono; [eexists; reflexivity|].
      destruct (IH (st_add st 0 (- b2z (rev_is p cur)) (- b2z (rev_is p upd)))) as [st' E]. rewrite E.
      eexists; reflexivity.
Qed.

(* update loop *)
Fixpoint ul_acts (upd : rinfo) (umin : Z) (i : Z) (l : list (option pod)) : list act :=
  match l with
  | [] => []
  | e :: t =>
      if i <? umin then [] else
      match e with
      | None => ul_acts upd umin (i - 1) t
      | Some p => if negb (rev_is p upd) && negb (isTerminating p) then [ADelete p]
                  else if negb (isHealthy p) then [] else ul_acts upd umin (i - 1) t
      end
  end.
Lemma uloop_proj cur upd umin : forall l i st, exists st', uloop cur upd umin i l st = (ul_acts upd umin i l, st').
Proof.
  induction l as [|e t IH]; intros i st; cbn [uloop ul_acts].
  - eexists; reflexivity.
  - destruct (i <? umin); [eexists; reflexivity|]. destruct e as [p|]; [|apply IH].
    destruct (negb (rev_is p upd) && negb (isTerminating p)); [eexists; reflexivity|].
    destruct (negb (isHealthy p)); [eexists; reflexivity | apply IH].
Qed.

(* ------------------------------------------------------------------ the plan, unfolded ---------- *)
Definition condemned_of (cnt : Z) (slots : list Z) (pods : list pod) : list pod :=
  sort_asc (filter (fun p => is_condemned cnt slots (getOrdinal p)) pods).
Definition umin_of (s : sset) : Z := match s_rolling s with Some (Some part) => Z.max part 0 | _ => 0 end.

Definition plan_acts (s : sset) (cur upd : rinfo) (cnt : Z) (slots : list Z) (pods : list pod) : list act :=
  let replicas := replicas_of s cur upd cnt slots pods in
  let condemned := condemned_of cnt slots pods in
  let mono := negb (allowsBurst s) in
  let fu := first_unhealthy replicas condemned in
  if s_deleting s then [] else
  let a1 := rl_acts s cur upd mono 0 replicas in
  if negb (rl_go mono replicas) then a1 else
  let a2 := cl_acts mono fu (List.rev condemned) in
  if negb (cl_go mono fu (List.rev condemned)) then a1 ++ a2 else
  if String.eqb (s_strategy s) "OnDelete" then a1 ++ a2 else
  a1 ++ a2 ++ ul_acts upd (umin_of s) (cnt - 1) (List.rev (rl_arr s cur upd mono 0 replicas)).

Lemma plan_pods_acts s cur upd coll pods po :
  plan_pods s cur upd coll pods = Some po ->
  exists r cnt slots, s_replicas s = Some r /\ extend r (get_slots (s_slots s)) = (cnt, slots) /\ 0 <= cnt
                      /\ po_acts po = plan_acts s cur upd cnt slots pods.
Proof.
  unfold plan_pods. destruct (s_replicas s) as [r|]; [|discriminate].
  destruct (extend r (get_slots (s_slots s))) as [cnt slots] eqn:E.
  destruct (cnt <? 0) eqn:Hc; [discriminate|]. apply Z.ltb_ge in Hc.
  intros H. exists r, cnt, slots. repeat split; try assumption.
  unfold plan_acts. fold (replicas_of s cur upd cnt slots pods) in H. fold (condemned_of cnt slots pods) in H.
  destruct (s_deleting s); [inversion H; reflexivity|].
  set (st0 := fold_left (census1 cur upd) pods (init_status s cur upd coll)) in H.
  destruct (rloop_proj s cur upd (negb (allowsBurst s)) (replicas_of s cur upd cnt slots pods) 0 st0) as [st1 E1].
  rewrite E1 in H.
  destruct (rl_go (negb (allowsBurst s)) (replicas_of s cur upd cnt slots pods)); cbn [negb] in *;
    [|inversion H; reflexivity].
  match type of H with context [cloop ?c ?u ?m ?f ?l ?st] =>
    destruct (cloop_proj c u m f l st) as [st2 E2]; rewrite E2 in H end.
  match goal with |- context [cl_go ?m ?f ?l] => destruct (cl_go m f l) end; cbn [negb] in *;
    [|inversion H; reflexivity].
  destruct (String.eqb (s_strategy s) "OnDelete"); [inversion H; reflexivity|].
  match type of H with context [uloop ?c ?u ?m ?i ?l ?st] =>
    destruct (uloop_proj c u m l i st) as [st3 E3]; rewrite E3 in H end.
  inversion H. reflexivity.
Qed.

(* ------------------------------------------------------------------ facts about the loops ------- *)
Lemma new_pod_phase s ord rn t : p_phase (new_pod s ord rn t) = ""%string.
Proof. reflexivity. Qed.
Lemma nvp_fresh s cur upd i :
  isCreated (new_versioned_pod s cur upd i) = false /\ isFailed (new_versioned_pod s cur upd i) = false
  /\ isSucceeded (new_versioned_pod s cur upd i) = false /\ isTerminating (new_versioned_pod s cur upd i) = false
  /\ isRunningAndReady (new_versioned_pod s cur upd i) = false.
Proof. unfold new_versioned_pod. destruct (use_current s i); repeat split; reflexivity. Qed.

Lemma rs_acts_cases s cur upd mono i p0 a : In a (rs_acts s cur upd mono i p0) ->
  (a = ADelete p0 /\ (isFailed p0 || isSucceeded p0) = true
   /\ rs_acts s cur upd mono i p0 = [ADelete p0; ACreate (new_versioned_pod s cur upd i)])
  \/ (a = ACreate (new_versioned_pod s cur upd i) /\ (isFailed p0 || isSucceeded p0) = true
      /\ rs_acts s cur upd mono i p0 = [ADelete p0; ACreate (new_versioned_pod s cur upd i)])
  \/ (a = ACreate p0 /\ (isFailed p0 || isSucceeded p0) = false /\ isCreated p0 = false)
  \/ (a = AUpdate p0 /\ (isFailed p0 || isSucceeded p0) = false /\ isCreated p0 = true
      /\ (identityMatches s p0 && storageMatches s p0) = false).
Proof.
  unfold rs_acts. destruct (isFailed p0 || isSucceeded p0) eqn:F.
  - intros [<-|[<-|[]]]; [left | right; left]; auto.
  - destruct (isCreated p0) eqn:C; cbn [negb].
    + destruct (isTerminating p0 && mono); [intros []|].
      destruct (negb (isRunningAndReady p0) && mono); [intros []|].
      destruct (identityMatches s p0 && storageMatches s p0) eqn:I; [intros []|].
      intros [<-|[]]. right; right; right. auto.
    + intros [<-|[]]. right; right; left. auto.
Qed.

Lemma rl_acts_split s cur upd mono : forall l i a, In a (rl_acts s cur upd mono i l) ->
  exists k p0 pre post, nth_error l k = Some (Some p0)
    /\ rl_acts s cur upd mono i l = pre ++ rs_acts s cur upd mono (i + Z.of_nat k) p0 ++ post
    /\ In a (rs_acts s cur upd mono (i + Z.of_nat k) p0)
    /\ (forall j q, (j < k)%nat -> nth_error l j = Some (Some q) -> rs_go mono q = true).
Proof.
  induction l as [|[p0|] t IH]; intros i a H; cbn [rl_acts] in H.
  - destruct H.
  - apply in_app_or in H. destruct H as [H|H].
    + exists 0%nat, p0, [], (if rs_go mono p0 then rl_acts s cur upd mono (i + 1) t else []).
      rewrite Z.add_0_r. repeat split; try assumption; try reflexivity. intros j q Hj. lia.
    + destruct (rs_go mono p0) eqn:G; [|destruct H].
      destruct (IH (i + 1) a H) as (k & q0 & pre & post & Hn & Heq & Hin & Hgo).
      exists (S k), q0, (rs_acts s cur upd mono i p0 ++ pre), post.
      replace (i + Z.of_nat (S k)) with (i + 1 + Z.of_nat k) by lia.
      repeat split; try assumption.
      * cbn [rl_acts]. rewrite G, Heq, <- app_assoc. reflexivity.
      * intros [|j] q Hj Hq; cbn [nth_error] in Hq; [inversion Hq; subst; exact G | apply (Hgo j); [lia | exact Hq]].
  - destruct (IH (i + 1) a H) as (k & q0 & pre & post & Hn & Heq & Hin & Hgo).
    exists (S k), q0, pre, post. replace (i + Z.of_nat (S k)) with (i + 1 + Z.of_nat k) by lia.
    repeat split; try assumption.
    intros [|j] q Hj Hq; cbn [nth_error] in Hq; [discriminate | apply (Hgo j); [lia | exact Hq]].
Qed.

Lemma cl_acts_in mono fu : forall l a, In a (cl_acts mono fu l) ->
  exists p, a = ADelete p /\ In p l /\ isTerminating p = false.
Proof.
  induction l as [|p t IH]; intros a H; cbn [cl_acts] in H; [destruct H|].
  destruct (isTerminating p) eqn:T.
  - destruct mono; [destruct H|]. destruct (IH a H) as (q & E & Hq & Tq). exists q. repeat split; auto. right; auto.
  - destruct (cs_blocks mono fu p); [destruct H|]. destruct mono.
    + destruct H as [<-|[]]. exists p. repeat split; auto. left; auto.
    + destruct H as [<-|H]; [exists p; repeat split; auto; left; auto|].
      destruct (IH a H) as (q & E & Hq & Tq). exists q. repeat split; auto. right; auto.
Qed.

(* ordered policy: at most the first (highest) condemned pod is deleted, and the loop never goes on *)
Lemma cl_acts_mono fu l : cl_acts true fu l = [] \/ exists p t, l = p :: t /\ cl_acts true fu l = [ADelete p]
                                                                /\ isTerminating p = false /\ cs_blocks true fu p = false.
Proof.
  destruct l as [|p t]; [left; reflexivity|]. cbn [cl_acts].
  destruct (isTerminating p) eqn:T; [left; reflexivity|].
  destruct (cs_blocks true fu p) eqn:B; [left; reflexivity|].
  right. exists p, t. repeat split; auto.
Qed.
Lemma cl_go_mono fu l : cl_go true fu l = true -> l = [].
Proof.
  destruct l as [|p t]; [reflexivity|]. cbn [cl_go].
  destruct (isTerminating p); [discriminate|]. destruct (cs_blocks true fu p); discriminate.
Qed.
(* burst policy: every non-terminating condemned pod is deleted *)
Lemma cl_acts_burst fu : forall l, cl_acts false fu l = map ADelete (filter (fun p => negb (isTerminating p)) l)
                                   /\ cl_go false fu l = true.
Proof.
  induction l as [|p t [IH1 IH2]]; cbn [cl_acts cl_go filter map]; [split; reflexivity|].
  unfold cs_blocks. rewrite andb_false_r. cbn [andb].
  destruct (isTerminating p); cbn [negb map]; [split; assumption|]. rewrite IH1. split; [reflexivity | assumption].
Qed.

(* the update loop deletes at most one pod: the first from the top that is outdated and not
   terminating, provided everything above it is a slot or an updated healthy pod *)
Definition passed (upd : rinfo) (e : option pod) : Prop :=
  match e with None => True | Some q => rev_is q upd = true /\ isHealthy q = true end.
Lemma ul_acts_spec upd umin : forall l i,
  ul_acts upd umin i l = []
  \/ exists pre p post, l = pre ++ Some p :: post /\ ul_acts upd umin i l = [ADelete p]
       /\ Forall (passed upd) pre /\ umin <= i - Z.of_nat (length pre)
       /\ rev_is p upd = false /\ isTerminating p = false.
Proof.
  induction l as [|e t IH]; intros i; cbn [ul_acts]; [left; reflexivity|].
  destruct (i <? umin) eqn:U; [left; reflexivity|]. apply Z.ltb_ge in U.
  destruct e as [p|].
  - destruct (negb (rev_is p upd) && negb (isTerminating p)) eqn:D.
    + right. apply andb_true_iff in D. destruct D as [D1 D2].
      apply negb_true_iff in D1. apply negb_true_iff in D2.
      exists [], p, t. cbn [app length]. repeat split; auto. lia.
    + destruct (negb (isHealthy p)) eqn:Hh; [left; reflexivity|]. apply negb_false_iff in Hh.
      assert (Hr : rev_is p upd = true).
      { apply andb_false_iff in D. destruct D as [D|D]; [apply negb_false_iff in D; exact D|].
        apply negb_false_iff in D. unfold isHealthy in Hh. apply andb_true_iff in Hh. destruct Hh as [_ Hh].
        rewrite D in Hh. discriminate. }
      destruct (IH (i - 1)) as [E|(pre & q & post & E1 & E2 & E3 & E4 & E5 & E6)]; [left; exact E|].
      right. exists (Some p :: pre), q, post. cbn [app length]. repeat split; auto.
      * rewrite E1. reflexivity.
      * constructor; [split; assumption | exact E3].
      * lia.
  - destruct (IH (i - 1)) as [E|(pre & q & post & E1 & E2 & E3 & E4 & E5 & E6)]; [left; exact E|].
    right. exists (None :: pre), q, post. cbn [app length]. repeat split; auto.
    + rewrite E1. reflexivity.
    + constructor; [exact I | exact E3].
    + lia.
Qed.

Lemma rl_arr_length s cur upd mono : forall l i, length (rl_arr s cur upd mono i l) = length l.
Proof.
  induction l as [|[p0|] t IH]; intros i; cbn [rl_arr length]; auto.
  destruct (rs_go mono p0); [rewrite IH|]; reflexivity.
Qed.
Lemma rl_arr_nth s cur upd mono : forall l i k,
  match nth_error (rl_arr s cur upd mono i l) k with
  | Some (Some q) => exists p0, nth_error l k = Some (Some p0) /\ (q = p0 \/ q = rs_pod s cur upd (i + Z.of_nat k) p0)
  | Some None => nth_error l k = Some None
  | None => nth_error l k = None
  end.
Proof.
  induction l as [|[p0|] t IH]; intros i k; cbn [rl_arr].
  - destruct k; reflexivity.
  - destruct k as [|k]; cbn [nth_error].
    + exists p0. rewrite Z.add_0_r. split; [reflexivity | right; reflexivity].
    + destruct (rs_go mono p0).
      * specialize (IH (i + 1) k). replace (i + Z.of_nat (S k)) with (i + 1 + Z.of_nat k) by lia. exact IH.
      * destruct (nth_error t k) as [[q|]|]; [exists q; split; [reflexivity | left; reflexivity] | reflexivity | reflexivity].
  - destruct k as [|k]; cbn [nth_error]; [reflexivity|].
    specialize (IH (i + 1) k). replace (i + Z.of_nat (S k)) with (i + 1 + Z.of_nat k) by lia. exact IH.
Qed.

Lemma insert_asc_In p q l : In q (insert_asc p l) <-> q = p \/ In q l.
Proof.
  induction l as [|a t IH]; cbn [insert_asc]; [cbn; intuition|].
  destruct (getOrdinal p <? getOrdinal a); cbn [In]; [intuition|]. rewrite IH. intuition.
Qed.
Lemma sort_asc_In q l : In q (sort_asc l) <-> In q l.
Proof.
  unfold sort_asc. assert (G : forall l acc, In q (fold_left (fun a p => insert_asc p a) l acc) <-> In q l \/ In q acc).
  { induction l0 as [|a t IH]; intros acc; cbn [fold_left]; [cbn; intuition|].
    rewrite IH, insert_asc_In. cbn [In]. intuition. }
  rewrite G. cbn. intuition.
Qed.
Lemma condemned_of_In cnt slots pods q :
  In q (condemned_of cnt slots pods) <-> In q pods /\ is_condemned cnt slots (getOrdinal q) = true.
Proof. unfold condemned_of. rewrite sort_asc_In, filter_In. reflexivity. Qed.

(* ------------------------------------------------------------------ structure of the plan ------- *)
Lemma plan_acts_struct s cur upd cnt slots pods :
  s_deleting s = false ->
  let replicas := replicas_of s cur upd cnt slots pods in
  let condemned := condemned_of cnt slots pods in
  let mono := negb (allowsBurst s) in
  let fu := first_unhealthy replicas condemned in
  exists a2 a3,
    plan_acts s cur upd cnt slots pods = rl_acts s cur upd mono 0 replicas ++ a2 ++ a3
    /\ (a2 = [] \/ (rl_go mono replicas = true /\ a2 = cl_acts mono fu (List.rev condemned)))
    /\ (a3 = [] \/ (rl_go mono replicas = true /\ cl_go mono fu (List.rev condemned) = true
                    /\ String.eqb (s_strategy s) "OnDelete" = false
                    /\ a3 = ul_acts upd (umin_of s) (cnt - 1) (List.rev (rl_arr s cur upd mono 0 replicas)))).
Proof.
  intros Hd replicas condemned mono fu. unfold plan_acts. rewrite Hd.
  fold replicas condemned mono fu.
  destruct (rl_go mono replicas) eqn:G1; cbn [negb].
  - destruct (cl_go mono fu (List.rev condemned)) eqn:G2; cbn [negb].
    + destruct (String.eqb (s_strategy s) "OnDelete") eqn:G3.
      * exists (cl_acts mono fu (List.rev condemned)), []. rewrite app_nil_r.
        split; [reflexivity|]. split; [right; split; reflexivity | left; reflexivity].
      * exists (cl_acts mono fu (List.rev condemned)), (ul_acts upd (umin_of s) (cnt - 1) (List.rev (rl_arr s cur upd mono 0 replicas))).
        split; [reflexivity|]. split; [right; split; reflexivity | right; repeat split; reflexivity].
    + exists (cl_acts mono fu (List.rev condemned)), []. rewrite app_nil_r.
      split; [reflexivity|]. split; [right; split; reflexivity | left; reflexivity].
  - exists [], []. rewrite !app_nil_r. split; [reflexivity|]. split; left; reflexivity.
Qed.

Lemma ul_acts_in upd umin i l a : In a (ul_acts upd umin i l) -> exists p, a = ADelete p.
Proof.
  destruct (ul_acts_spec upd umin l i) as [E|(pre & p & post & _ & E & _)]; rewrite E; [intros [] | intros [<-|[]]; eauto].
Qed.

(* ------------------------------------------------------------------ creates (C04) --------------- *)
Lemma plan_create_justified s cur upd cnt slots pods p :
  (forall q, In q pods -> isCreated q = true) ->
  In (ACreate p) (plan_acts s cur upd cnt slots pods) ->
  s_deleting s = false /\
  exists i, 0 <= i /\ in_range cnt slots i = true /\ p = new_versioned_pod s cur upd i
    /\ ((forall q, In q pods -> getOrdinal q <> i)
        \/ exists p0 pre post, In p0 pods /\ getOrdinal p0 = i /\ (isFailed p0 || isSucceeded p0) = true
             /\ plan_acts s cur upd cnt slots pods = pre ++ ADelete p0 :: ACreate p :: post).
Proof.
  intros Hcr Hin. destruct (s_deleting s) eqn:Hd.
  { unfold plan_acts in Hin. rewrite Hd in Hin. destruct Hin. }
  split; [reflexivity|].
  destruct (plan_acts_struct s cur upd cnt slots pods Hd) as (a2 & a3 & Heq & H2 & H3). cbn zeta in *.
  rewrite Heq in Hin. apply in_app_or in Hin. destruct Hin as [Hin|Hin].
  2:{ exfalso. apply in_app_or in Hin. destruct Hin as [Hin|Hin].
      - destruct H2 as [->|[_ ->]]; [destruct Hin|]. apply cl_acts_in in Hin. destruct Hin as (q & E & _). discriminate.
      - destruct H3 as [->|(_ & _ & _ & ->)]; [destruct Hin|]. apply ul_acts_in in Hin. destruct Hin as (q & E). discriminate. }
  destruct (rl_acts_split _ _ _ _ _ _ _ Hin) as (k & p0 & pre & post & Hn & Hsplit & Hin' & _).
  rewrite Z.add_0_l in *.
  pose proof (replicas_of_kind _ _ _ _ _ _ _ _ Hn) as Hk.
  exists (Z.of_nat k). split; [lia|].
  destruct (rs_acts_cases _ _ _ _ _ _ _ Hin') as [(E & _)|[(E & F & Hrs)|[(E & F & C)|(E & _)]]]; try discriminate.
  - (* replacement of a failed / succeeded pod *)
    inversion E; subst p. inversion Hk as [| q Hq Ho Hr | Hr Hv]; subst.
    + split; [exact Hr|]. split; [reflexivity|]. right.
      exists p0, pre, (post ++ a2 ++ a3). repeat split; auto.
      rewrite Heq, Hsplit, Hrs. rewrite <- !app_assoc. reflexivity.
    + exfalso. destruct (nvp_fresh s cur upd (Z.of_nat k)) as (_ & F1 & F2 & _).
      rewrite F1, F2 in F. discriminate.
  - (* a pod that has not been created *)
    inversion E; subst p. inversion Hk as [| q Hq Ho Hr | Hr Hv]; subst.
    + rewrite (Hcr _ Hq) in C. discriminate.
    + split; [exact Hr|]. split; [reflexivity|]. left. exact Hv.
Qed.

(* ------------------------------------------------------------------ deletes (C03, C07) ---------- *)
Inductive delete_reason (s : sset) (cur upd : rinfo) (cnt : Z) (slots : list Z) (pods : list pod)
          (acts : list act) (p : pod) : Prop :=
| DR_condemned :                                   (* (a) outside the desired set *)
    In p pods -> is_condemned cnt slots (getOrdinal p) = true -> isTerminating p = false ->
    delete_reason s cur upd cnt slots pods acts p
| DR_replace :                                     (* (b) failed / succeeded, replaced at once *)
    In p pods -> in_range cnt slots (getOrdinal p) = true -> (isFailed p || isSucceeded p) = true ->
    (exists pre post, acts = pre ++ ADelete p :: ACreate (new_versioned_pod s cur upd (getOrdinal p)) :: post) ->
    delete_reason s cur upd cnt slots pods acts p
| DR_update (i : Z) :                              (* (c) rolling update *)
    String.eqb (s_strategy s) "OnDelete" = false ->
    in_range cnt slots i = true -> umin_of s <= i ->
    ((In p pods /\ getOrdinal p = i) \/ p = new_versioned_pod s cur upd i) ->
    rev_is p upd = false -> isTerminating p = false ->
    (* every desired ordinal above i holds an observed healthy pod at the update revision *)
    (forall j, i < j -> in_range cnt slots j = true ->
               exists q, In q pods /\ getOrdinal q = j /\ rev_is q upd = true /\ isHealthy q = true) ->
    (* nothing is left to scale in under the ordered policy, and the replica loop went through *)
    rl_go (negb (allowsBurst s)) (replicas_of s cur upd cnt slots pods) = true ->
    cl_go (negb (allowsBurst s)) (first_unhealthy (replicas_of s cur upd cnt slots pods) (condemned_of cnt slots pods))
          (List.rev (condemned_of cnt slots pods)) = true ->
    delete_reason s cur upd cnt slots pods acts p.

Lemma rs_pod_healthy s cur upd i p0 : isHealthy (rs_pod s cur upd i p0) = true -> rs_pod s cur upd i p0 = p0.
Proof.
  unfold rs_pod. destruct (isFailed p0 || isSucceeded p0); [|reflexivity].
  destruct (nvp_fresh s cur upd i) as (_ & _ & _ & _ & R). unfold isHealthy. rewrite R. discriminate.
Qed.

Lemma plan_delete_justified s cur upd cnt slots pods p :
  0 <= cnt ->
  In (ADelete p) (plan_acts s cur upd cnt slots pods) ->
  delete_reason s cur upd cnt slots pods (plan_acts s cur upd cnt slots pods) p.
Proof.
  intros Hcnt Hin. destruct (s_deleting s) eqn:Hd.
  { unfold plan_acts in Hin. rewrite Hd in Hin. destruct Hin. }
  destruct (plan_acts_struct s cur upd cnt slots pods Hd) as (a2 & a3 & Heq & H2 & H3). cbn zeta in *.
  set (replicas := replicas_of s cur upd cnt slots pods) in *.
  set (mono := negb (allowsBurst s)) in *.
  rewrite Heq in Hin. apply in_app_or in Hin. destruct Hin as [Hin|Hin].
  - (* replica loop: only failed / succeeded pods are deleted *)
    destruct (rl_acts_split _ _ _ _ _ _ _ Hin) as (k & p0 & pre & post & Hn & Hsplit & Hin' & _).
    rewrite Z.add_0_l in *.
    pose proof (replicas_of_kind _ _ _ _ _ _ _ _ Hn) as Hk.
    destruct (rs_acts_cases _ _ _ _ _ _ _ Hin') as [(E & F & Hrs)|[(E & _)|[(E & _)|(E & _)]]]; try discriminate.
    inversion E; subst p0. inversion Hk as [| q Hq Ho Hr | Hr Hv]; subst.
    + apply DR_replace; auto; try (rewrite Ho; exact Hr).
      exists pre, (post ++ a2 ++ a3). rewrite Heq, Hsplit, Hrs, Ho. rewrite <- !app_assoc. reflexivity.
    + exfalso. destruct (nvp_fresh s cur upd (Z.of_nat k)) as (_ & F1 & F2 & _). rewrite F1, F2 in F. discriminate.
  - apply in_app_or in Hin. destruct Hin as [Hin|Hin].
    + (* condemned loop *)
      destruct H2 as [->|[_ ->]]; [destruct Hin|].
      apply cl_acts_in in Hin. destruct Hin as (q & E & Hq & Tq). inversion E; subst q.
      apply in_rev in Hq. apply condemned_of_In in Hq. destruct Hq as [Hq1 Hq2].
      apply DR_condemned; assumption.
    + (* update loop *)
      destruct H3 as [->|(G1 & G2 & G3 & ->)]; [destruct Hin|].
      set (L := rl_arr s cur upd mono 0 replicas) in *.
      destruct (ul_acts_spec upd (umin_of s) (List.rev L) (cnt - 1)) as [E|(pre & q & post & E1 & E2 & E3 & E4 & E5 & E6)].
      { rewrite E in Hin. destruct Hin. }
      rewrite E2 in Hin. destruct Hin as [Hin|[]]. inversion Hin; subst q.
      assert (HL : L = List.rev post ++ Some p :: List.rev pre).
      { rewrite <- (rev_involutive L), E1, rev_app_distr. cbn [List.rev]. rewrite <- app_assoc. reflexivity. }
      assert (Hlen : length L = Z.to_nat cnt).
      { unfold L. rewrite rl_arr_length. apply replicas_of_length. }
      set (m := length post).
      assert (Hm : Z.of_nat m = cnt - 1 - Z.of_nat (length pre)).
      { rewrite HL in Hlen. rewrite app_length in Hlen. cbn [length] in Hlen. rewrite !rev_length in Hlen. fold m in Hlen. lia. }
      assert (Hnth : nth_error L m = Some (Some p)).
      { rewrite HL. rewrite nth_error_app2 by (rewrite rev_length; unfold m; lia).
        rewrite rev_length. fold m. rewrite Nat.sub_diag. reflexivity. }
      pose proof (rl_arr_nth s cur upd mono replicas 0 m) as Harr. fold L in Harr. rewrite Hnth in Harr.
      destruct Harr as (p0 & Hn0 & Hp). rewrite Z.add_0_l in Hp.
      pose proof (replicas_of_kind _ _ _ _ _ _ _ _ Hn0) as Hk.
      assert (Hrange : in_range cnt slots (Z.of_nat m) = true) by (inversion Hk; assumption).
      apply (DR_update s cur upd cnt slots pods _ p (Z.of_nat m)); auto.
      * lia.
      * inversion Hk as [| q Hq Ho Hr | Hr Hv]; subst.
        -- destruct Hp as [-> | ->]; [left; split; assumption|].
           unfold rs_pod. destruct (isFailed p0 || isSucceeded p0); [right; reflexivity | left; split; assumption].
        -- right. destruct Hp as [-> | ->]; [reflexivity|]. unfold rs_pod.
           destruct (isFailed _ || isSucceeded _); reflexivity.
      * (* everything above is a slot or an observed healthy pod at the update revision *)
        intros j Hj Rj. pose proof (in_range_bounds _ _ _ Rj) as [Hjb Hjs].
        set (jn := Z.to_nat j).
        assert (Hjn : (m < jn < length L)%nat) by (unfold jn; lia).
        assert (Hpre : exists e, nth_error L jn = Some e /\ In e pre).
        { rewrite HL. rewrite nth_error_app2 by (rewrite rev_length; fold m; lia).
          rewrite rev_length. fold m. destruct (jn - m)%nat as [|d] eqn:Ed; [lia|]. cbn [nth_error].
          destruct (nth_error (List.rev pre) d) as [e|] eqn:Ee.
          - exists e. split; [reflexivity|]. apply nth_error_In in Ee. apply in_rev. exact Ee.
          - apply nth_error_None in Ee. rewrite rev_length in Ee.
            rewrite HL in Hjn. rewrite app_length in Hjn. cbn [length] in Hjn. rewrite !rev_length in Hjn. fold m in Hjn. lia. }
        destruct Hpre as (e & He & Hine).
        rewrite Forall_forall in E3. specialize (E3 e Hine).
        pose proof (rl_arr_nth s cur upd mono replicas 0 jn) as Harr. fold L in Harr. rewrite He in Harr.
        destruct e as [q|].
        -- destruct Harr as (q0 & Hq0 & Hq). destruct E3 as [Hr Hh].
           assert (q = q0).
           { destruct Hq as [-> | ->]; [reflexivity|]. apply rs_pod_healthy. exact Hh. }
           subst q0. pose proof (replicas_of_kind _ _ _ _ _ _ _ _ Hq0) as Hkq.
           replace (Z.of_nat jn) with j in Hkq by (unfold jn; lia).
           inversion Hkq as [| q' Hq' Ho Hr' | Hr' Hv]; subst.
           ++ exists q. repeat split; auto.
           ++ exfalso.
              match goal with H : isHealthy (new_versioned_pod ?a ?b ?c ?d) = true |- _ =>
                destruct (nvp_fresh a b c d) as (_ & _ & _ & _ & R); unfold isHealthy in H; rewrite R in H; discriminate end.
        -- exfalso. pose proof (replicas_of_kind _ _ _ _ _ _ _ _ Harr) as Hkq.
           replace (Z.of_nat jn) with j in Hkq by (unfold jn; lia). inversion Hkq. contradiction.
Qed.

(* ------------------------------------------------------------------ ordered policy (C05) -------- *)
From Coq Require Import Sorting.Sorted.

Definition is_cd (a : act) : bool := match a with ACreate _ | ADelete _ => true | AUpdate _ => false end.
Definition is_update (a : act) : Prop := match a with AUpdate _ => True | _ => False end.

Lemma rs_go_mono_steady p : rs_go true p = steady p.
Proof.
  unfold rs_go, steady. destruct (isFailed p || isSucceeded p); cbn [negb andb]; [reflexivity|].
  destruct (isCreated p); cbn [negb andb]; [|reflexivity].
  rewrite !andb_true_r. destruct (isTerminating p); cbn [negb andb]; [reflexivity|].
  destruct (isRunningAndReady p); reflexivity.
Qed.

Lemma rs_acts_steady s cur upd i p : steady p = true -> Forall is_update (rs_acts s cur upd true i p).
Proof.
  unfold steady, rs_acts. intros H.
  apply andb_true_iff in H. destruct H as [H H4]. apply andb_true_iff in H. destruct H as [H H3].
  apply andb_true_iff in H. destruct H as [H1 H2]. apply negb_true_iff in H1. apply negb_true_iff in H3.
  rewrite H1, H2, H3, H4. cbn [negb andb].
  destruct (identityMatches s p && storageMatches s p); repeat constructor.
Qed.

Lemma filter_cd_updates l : Forall is_update l -> filter is_cd l = [].
Proof.
  induction 1 as [|a t Ha _ IH]; [reflexivity|]. cbn [filter]. destruct a; cbn in Ha; try contradiction. exact IH.
Qed.

(* ordered replica loop: either it walks past everything (only identity repairs), or it stops at the
   first entry that is not steady, after identity repairs of the steady ones before it *)
Lemma rl_acts_mono s cur upd : forall l i,
  (rl_go true l = true /\ Forall is_update (rl_acts s cur upd true i l)
   /\ forall k q, nth_error l k = Some (Some q) -> steady q = true)
  \/ (rl_go true l = false /\ exists k p0 ups,
        nth_error l k = Some (Some p0) /\ steady p0 = false
        /\ (forall j q, (j < k)%nat -> nth_error l j = Some (Some q) -> steady q = true)
        /\ rl_acts s cur upd true i l = ups ++ rs_acts s cur upd true (i + Z.of_nat k) p0 /\ Forall is_update ups).
Proof.
  induction l as [|[p0|] t IH]; intros i; cbn [rl_go rl_acts].
  - left. repeat split; [constructor|]. intros [|k] q H; discriminate.
  - rewrite rs_go_mono_steady. destruct (steady p0) eqn:St; cbn [andb].
    + destruct (IH (i + 1)) as [(G & Hu & Hall)|(G & k & q0 & ups & Hn & Hs & Hb & Heq & Hups)].
      * left. split; [exact G|]. split; [apply Forall_app; split; [apply rs_acts_steady; exact St | exact Hu]|].
        intros [|k] q H; cbn [nth_error] in H; [inversion H; subst; exact St | eapply Hall; exact H].
      * right. split; [exact G|]. exists (S k), q0, (rs_acts s cur upd true i p0 ++ ups).
        replace (i + Z.of_nat (S k)) with (i + 1 + Z.of_nat k) by lia.
        repeat split; auto.
        -- intros [|j] q Hj H; cbn [nth_error] in H; [inversion H; subst; exact St | apply (Hb j); [lia | exact H]].
        -- rewrite Heq, app_assoc. reflexivity.
        -- apply Forall_app. split; [apply rs_acts_steady; exact St | exact Hups].
    + right. split; [reflexivity|]. exists 0%nat, p0, []. rewrite Z.add_0_r, app_nil_r. cbn [app].
      repeat split; auto. intros j q Hj. lia.
  - destruct (IH (i + 1)) as [(G & Hu & Hall)|(G & k & q0 & ups & Hn & Hs & Hb & Heq & Hups)].
    + left. repeat split; auto. intros [|k] q H; cbn [nth_error] in H; [discriminate | eapply Hall; exact H].
    + right. split; [exact G|]. exists (S k), q0, ups.
      replace (i + Z.of_nat (S k)) with (i + 1 + Z.of_nat k) by lia. repeat split; auto.
      intros [|j] q Hj H; cbn [nth_error] in H; [discriminate | apply (Hb j); [lia | exact H]].
Qed.

(* sortedness of the condemned list *)
Definition ord_le (a b : pod) : Prop := getOrdinal a <= getOrdinal b.
Lemma insert_asc_sorted p l : StronglySorted ord_le l -> StronglySorted ord_le (insert_asc p l).
Proof.
  induction 1 as [|a t Hs IH Hall]; cbn [insert_asc]; [repeat constructor|].
  rewrite Forall_forall in Hall. destruct (getOrdinal p <? getOrdinal a) eqn:E.
  - apply Z.ltb_lt in E. constructor; [constructor; [exact Hs | apply Forall_forall; exact Hall]|].
    apply Forall_forall. intros y [<-|Hy]; unfold ord_le; [lia | apply Hall in Hy; unfold ord_le in Hy; lia].
  - apply Z.ltb_ge in E. constructor; [exact IH|]. apply Forall_forall. intros y Hy.
    apply insert_asc_In in Hy. destruct Hy as [->|Hy]; [exact E | apply Hall; exact Hy].
Qed.
Lemma sort_asc_sorted l : StronglySorted ord_le (sort_asc l).
Proof.
  unfold sort_asc. assert (G : forall l acc, StronglySorted ord_le acc ->
                               StronglySorted ord_le (fold_left (fun a p => insert_asc p a) l acc)).
  { induction l0 as [|a t IH]; intros acc Ha; cbn [fold_left]; [exact Ha|]. apply IH. apply insert_asc_sorted. exact Ha. }
  apply G. constructor.
Qed.
Lemma rev_head_max l p t : StronglySorted ord_le l -> List.rev l = p :: t -> forall q, In q l -> getOrdinal q <= getOrdinal p.
Proof.
  intros Hs Hr q Hq. assert (Hl : l = List.rev t ++ [p]).
  { rewrite <- (rev_involutive l), Hr. reflexivity. }
  rewrite Hl in Hs, Hq. clear Hl Hr.
  induction (List.rev t) as [|a u IH]; cbn [app] in *.
  - destruct Hq as [<-|[]]. lia.
  - inversion Hs as [|? ? Hs' Hall]; subst. destruct Hq as [<-|Hq]; [|apply IH; assumption].
    rewrite Forall_forall in Hall. apply (Hall p). apply in_or_app. right. left. reflexivity.
Qed.

(* what an ordered reconcile does to pods, in full *)
Inductive ordered_outcome (s : sset) (cur upd : rinfo) (cnt : Z) (slots : list Z) (pods : list pod) (acts : list act) : Prop :=
| OO_nothing : filter is_cd acts = [] -> ordered_outcome s cur upd cnt slots pods acts
| OO_create (i : Z) (p : pod) :                     (* one create; every lower desired ordinal is steady *)
    filter is_cd acts = [ACreate p] -> in_range cnt slots i = true ->
    (forall j, 0 <= j < i -> in_range cnt slots j = true -> exists q, In q pods /\ getOrdinal q = j /\ steady q = true) ->
    ordered_outcome s cur upd cnt slots pods acts
| OO_replace (i : Z) (p0 : pod) :                   (* one failed / succeeded pod replaced in place *)
    filter is_cd acts = [ADelete p0; ACreate (new_versioned_pod s cur upd i)] -> in_range cnt slots i = true ->
    In p0 pods -> getOrdinal p0 = i ->
    (forall j, 0 <= j < i -> in_range cnt slots j = true -> exists q, In q pods /\ getOrdinal q = j /\ steady q = true) ->
    ordered_outcome s cur upd cnt slots pods acts
| OO_scale_in (c : pod) :                           (* the highest condemned pod, everything desired steady *)
    filter is_cd acts = [ADelete c] -> In c pods -> is_condemned cnt slots (getOrdinal c) = true ->
    (forall q, In q pods -> is_condemned cnt slots (getOrdinal q) = true -> getOrdinal q <= getOrdinal c) ->
    (forall j, in_range cnt slots j = true -> exists q, In q pods /\ getOrdinal q = j /\ steady q = true) ->
    ordered_outcome s cur upd cnt slots pods acts
| OO_update (u : pod) :                             (* one pod taken down for update: nothing to scale in, all steady *)
    filter is_cd acts = [ADelete u] ->
    (forall q, In q pods -> is_condemned cnt slots (getOrdinal q) = false) ->
    (forall j, in_range cnt slots j = true -> exists q, In q pods /\ getOrdinal q = j /\ steady q = true) ->
    ordered_outcome s cur upd cnt slots pods acts.

Lemma steady_entries_observed s cur upd cnt slots pods :
  (forall k q, nth_error (replicas_of s cur upd cnt slots pods) k = Some (Some q) -> steady q = true) ->
  0 <= cnt ->
  forall j, in_range cnt slots j = true -> exists q, In q pods /\ getOrdinal q = j /\ steady q = true.
Proof.
  intros Hall Hcnt j Rj. pose proof (in_range_bounds _ _ _ Rj) as [Hb Hs].
  destruct (nth_error (replicas_of s cur upd cnt slots pods) (Z.to_nat j)) as [e|] eqn:E.
  - pose proof (replicas_of_kind _ _ _ _ _ _ _ _ E) as Hk. rewrite Z2Nat.id in Hk by lia.
    inversion Hk as [Hsl | q Hq Ho Hr | Hr Hv]; subst.
    + contradiction.
    + exists q. repeat split; auto. eapply Hall. exact E.
    + exfalso. specialize (Hall _ _ E). unfold steady in Hall.
      destruct (nvp_fresh s cur upd j) as (C & _). rewrite C in Hall. rewrite andb_false_r in Hall. discriminate.
  - apply nth_error_None in E. rewrite replicas_of_length in E. lia.
Qed.

Lemma steady_prefix_observed s cur upd cnt slots pods k :
  (forall j q, (j < k)%nat -> nth_error (replicas_of s cur upd cnt slots pods) j = Some (Some q) -> steady q = true) ->
  (k < length (replicas_of s cur upd cnt slots pods))%nat ->
  forall j, 0 <= j < Z.of_nat k -> in_range cnt slots j = true -> exists q, In q pods /\ getOrdinal q = j /\ steady q = true.
Proof.
  intros Hall Hk j Hj Rj. pose proof (in_range_bounds _ _ _ Rj) as [Hb Hs].
  destruct (nth_error (replicas_of s cur upd cnt slots pods) (Z.to_nat j)) as [e|] eqn:E.
  - pose proof (replicas_of_kind _ _ _ _ _ _ _ _ E) as Hkk. rewrite Z2Nat.id in Hkk by lia.
    assert (Hlt : (Z.to_nat j < k)%nat) by lia.
    inversion Hkk as [Hsl | q Hq Ho Hr | Hr Hv]; subst.
    + contradiction.
    + exists q. repeat split; auto. eapply Hall; [exact Hlt | exact E].
    + exfalso. specialize (Hall _ _ Hlt E). unfold steady in Hall.
      destruct (nvp_fresh s cur upd j) as (C & _). rewrite C in Hall. rewrite andb_false_r in Hall. discriminate.
  - apply nth_error_None in E. lia.
Qed.

Lemma cl_go_mono_delete fu c t : isTerminating c = false -> cs_blocks true fu c = false -> cl_go true fu (c :: t) = false.
Proof. intros T B. cbn [cl_go]. rewrite T, B. reflexivity. Qed.

Lemma rs_acts_not_steady_cd s cur upd i p0 : steady p0 = false ->
  (filter is_cd (rs_acts s cur upd true i p0) = [ADelete p0; ACreate (new_versioned_pod s cur upd i)]
   /\ (isFailed p0 || isSucceeded p0) = true)
  \/ (filter is_cd (rs_acts s cur upd true i p0) = [ACreate p0] /\ isCreated p0 = false)
  \/ filter is_cd (rs_acts s cur upd true i p0) = [].
Proof.
  unfold steady, rs_acts. intros H. destruct (isFailed p0 || isSucceeded p0); [left; split; reflexivity|].
  destruct (isCreated p0); cbn [negb andb] in *; [|right; left; split; reflexivity].
  right; right. destruct (isTerminating p0); cbn [negb andb] in *; [reflexivity|].
  destruct (isRunningAndReady p0); cbn [negb andb] in *; [discriminate | reflexivity].
Qed.

Lemma plan_ordered s cur upd cnt slots pods :
  0 <= cnt -> allowsBurst s = false ->
  ordered_outcome s cur upd cnt slots pods (plan_acts s cur upd cnt slots pods).
Proof.
  intros Hcnt Hb. destruct (s_deleting s) eqn:Hd.
  { apply OO_nothing. unfold plan_acts. rewrite Hd. reflexivity. }
  destruct (plan_acts_struct s cur upd cnt slots pods Hd) as (a2 & a3 & Heq & H2 & H3). cbn zeta in *.
  rewrite Hb in *. cbn [negb] in *.
  set (replicas := replicas_of s cur upd cnt slots pods) in *.
  set (condemned := condemned_of cnt slots pods) in *.
  set (fu := first_unhealthy replicas condemned) in *.
  assert (Hf : filter is_cd (plan_acts s cur upd cnt slots pods)
               = filter is_cd (rl_acts s cur upd true 0 replicas) ++ filter is_cd a2 ++ filter is_cd a3)
    by (rewrite Heq, !filter_app; reflexivity).
  clear Heq.
  destruct (rl_acts_mono s cur upd replicas 0) as [(G & Hu & Hall)|(G & k & p0 & ups & Hn & Hs & Hbef & Hacts & Hups)].
  - (* the replica loop went through *)
    rewrite (filter_cd_updates _ Hu) in Hf. cbn [app] in Hf.
    pose proof (steady_entries_observed s cur upd cnt slots pods Hall Hcnt) as Hsteady.
    assert (Hnocond : cl_go true fu (List.rev condemned) = true ->
                      forall q, In q pods -> is_condemned cnt slots (getOrdinal q) = false).
    { intros G2 q Hq. apply cl_go_mono in G2.
      destruct (is_condemned cnt slots (getOrdinal q)) eqn:C; [|reflexivity].
      exfalso. assert (Hin : In q condemned) by (apply condemned_of_In; split; assumption).
      apply in_rev in Hin. rewrite G2 in Hin. destruct Hin. }
    assert (Hupd : forall a3', a3' = [] \/ (rl_go true replicas = true /\ cl_go true fu (List.rev condemned) = true
                     /\ String.eqb (s_strategy s) "OnDelete" = false
                     /\ a3' = ul_acts upd (umin_of s) (cnt - 1) (List.rev (rl_arr s cur upd true 0 replicas))) ->
                   filter is_cd (plan_acts s cur upd cnt slots pods) = filter is_cd a3' ->
                   ordered_outcome s cur upd cnt slots pods (plan_acts s cur upd cnt slots pods)).
    { intros a3' [->|(_ & G2 & G3 & ->)] Hf'; [apply OO_nothing; exact Hf'|].
      destruct (ul_acts_spec upd (umin_of s) (List.rev (rl_arr s cur upd true 0 replicas)) (cnt - 1))
        as [E|(pre & u & post & _ & E & _)]; rewrite E in Hf'; cbn [filter is_cd] in Hf'; [apply OO_nothing; exact Hf'|].
      apply (OO_update _ _ _ _ _ _ _ u); [exact Hf' | apply Hnocond; exact G2 | exact Hsteady]. }
    destruct H2 as [->|[_ ->]].
    + cbn [filter app] in Hf. apply (Hupd a3 H3 Hf).
    + destruct (cl_acts_mono fu (List.rev condemned)) as [E|(c & t & Hr & E & T & B)]; rewrite E in Hf; cbn [filter app is_cd] in Hf.
      * apply (Hupd a3 H3 Hf).
      * (* the highest condemned pod is deleted; the update loop is not reached *)
        assert (a3 = []) as ->.
        { destruct H3 as [->|(_ & G2 & _)]; [reflexivity|]. rewrite Hr in G2.
          rewrite (cl_go_mono_delete fu c t T B) in G2. discriminate. }
        cbn [filter app] in Hf.
        assert (Hc : In c condemned) by (apply in_rev; rewrite Hr; left; reflexivity).
        pose proof Hc as Hc'. apply condemned_of_In in Hc'. destruct Hc' as [Hc1 Hc2].
        apply (OO_scale_in _ _ _ _ _ _ _ c); auto.
        intros q Hq Cq. apply (rev_head_max condemned c t); [apply sort_asc_sorted | exact Hr|].
        apply condemned_of_In. split; assumption.
  - (* the replica loop stopped at entry k *)
    assert (a2 = []) as -> by (destruct H2 as [->|[G' _]]; [reflexivity | rewrite G in G'; discriminate]).
    assert (a3 = []) as -> by (destruct H3 as [->|(G' & _)]; [reflexivity | rewrite G in G'; discriminate]).
    cbn [filter app] in Hf. rewrite !app_nil_r in Hf. rewrite Hacts, filter_app, (filter_cd_updates _ Hups) in Hf. cbn [app] in Hf.
    rewrite Z.add_0_l in Hf.
    assert (Hklen : (k < length replicas)%nat) by (apply nth_error_Some; congruence).
    pose proof (steady_prefix_observed s cur upd cnt slots pods k Hbef Hklen) as Hlow.
    pose proof (replicas_of_kind _ _ _ _ _ _ _ _ Hn) as Hk.
    assert (Hrange : in_range cnt slots (Z.of_nat k) = true) by (inversion Hk; assumption).
    destruct (rs_acts_not_steady_cd s cur upd (Z.of_nat k) p0 Hs) as [[E F]|[[E C]|E]]; rewrite E in Hf.
    + inversion Hk as [| q Hq Ho Hr | Hr Hv]; subst.
      * apply (OO_replace _ _ _ _ _ _ _ (Z.of_nat k) p0); auto.
      * exfalso. destruct (nvp_fresh s cur upd (Z.of_nat k)) as (_ & F1 & F2 & _). rewrite F1, F2 in F. discriminate.
    + apply (OO_create _ _ _ _ _ _ _ (Z.of_nat k) p0); auto.
    + apply OO_nothing. exact Hf.
Qed.

(* ------------------------------------------------------------------ burst policy (C14) ---------- *)
Lemma rl_go_burst : forall l, rl_go false l = true.
Proof.
  induction l as [|[p0|] t IH]; cbn [rl_go]; auto. rewrite IH, andb_true_r. unfold rs_go.
  destruct (isFailed p0 || isSucceeded p0); [reflexivity|]. destruct (negb (isCreated p0)); [reflexivity|].
  rewrite !andb_false_r. reflexivity.
Qed.

(* every entry that needs a pod gets one in the same reconcile *)
Lemma rl_acts_burst_creates s cur upd : forall l i k p0,
  nth_error l k = Some (Some p0) ->
  ((isFailed p0 || isSucceeded p0) = true -> In (ADelete p0) (rl_acts s cur upd false i l)
                                              /\ In (ACreate (new_versioned_pod s cur upd (i + Z.of_nat k))) (rl_acts s cur upd false i l))
  /\ ((isFailed p0 || isSucceeded p0) = false -> isCreated p0 = false -> In (ACreate p0) (rl_acts s cur upd false i l)).
Proof.
  induction l as [|[q|] t IH]; intros i k p0 Hn; destruct k as [|k]; cbn [nth_error] in Hn; try discriminate.
  - inversion Hn; subst q. rewrite Z.add_0_r. cbn [rl_acts]. unfold rs_acts. split.
    + intros F. rewrite F. split; apply in_or_app; left; [left | right; left]; reflexivity.
    + intros F C. rewrite F, C. cbn [negb]. apply in_or_app. left. left. reflexivity.
  - cbn [rl_acts]. pose proof (rl_go_burst [Some q]) as G. cbn [rl_go] in G. rewrite andb_true_r in G. rewrite G.
    replace (i + Z.of_nat (S k)) with (i + 1 + Z.of_nat k) by lia.
    destruct (IH (i + 1) k p0 Hn) as [H1 H2]. split.
    + intros F. destruct (H1 F). split; apply in_or_app; right; assumption.
    + intros F C. apply in_or_app. right. apply H2; assumption.
  - cbn [rl_acts]. replace (i + Z.of_nat (S k)) with (i + 1 + Z.of_nat k) by lia. apply IH. exact Hn.
Qed.

Lemma plan_acts_burst_eq s cur upd cnt slots pods :
  allowsBurst s = true -> s_deleting s = false ->
  plan_acts s cur upd cnt slots pods =
    rl_acts s cur upd false 0 (replicas_of s cur upd cnt slots pods)
    ++ map ADelete (filter (fun p => negb (isTerminating p)) (List.rev (condemned_of cnt slots pods)))
    ++ (if String.eqb (s_strategy s) "OnDelete" then []
        else ul_acts upd (umin_of s) (cnt - 1) (List.rev (rl_arr s cur upd false 0 (replicas_of s cur upd cnt slots pods)))).
Proof.
  intros Hb Hd. unfold plan_acts. rewrite Hd, Hb. cbn [negb].
  rewrite rl_go_burst. cbn [negb].
  match goal with |- context [cl_go false ?f ?l] => destruct (cl_acts_burst f l) as [E1 E2]; rewrite E1, E2 end.
  cbn [negb]. destruct (String.eqb (s_strategy s) "OnDelete"); [rewrite app_nil_r|]; reflexivity.
Qed.

Lemma plan_burst s cur upd cnt slots pods :
  0 <= cnt -> allowsBurst s = true -> s_deleting s = false ->
  let acts := plan_acts s cur upd cnt slots pods in
  (* every vacant desired ordinal is created *)
  (forall i, in_range cnt slots i = true -> (forall q, In q pods -> getOrdinal q <> i) ->
             In (ACreate (new_versioned_pod s cur upd i)) acts)
  (* every failed / succeeded desired pod is replaced *)
  /\ (forall p0, In p0 pods -> in_range cnt slots (getOrdinal p0) = true -> (isFailed p0 || isSucceeded p0) = true ->
                 (forall q, In q pods -> getOrdinal q = getOrdinal p0 -> q = p0) ->
                 In (ADelete p0) acts /\ In (ACreate (new_versioned_pod s cur upd (getOrdinal p0))) acts)
  (* every live condemned pod is deleted *)
  /\ (forall c, In c pods -> is_condemned cnt slots (getOrdinal c) = true -> isTerminating c = false -> In (ADelete c) acts)
  (* at most one pod is taken down for update *)
  /\ (exists a3, (a3 = [] \/ exists u, a3 = [ADelete u]) /\
                 acts = rl_acts s cur upd false 0 (replicas_of s cur upd cnt slots pods)
                        ++ map ADelete (filter (fun p => negb (isTerminating p)) (List.rev (condemned_of cnt slots pods))) ++ a3).
Proof.
  intros Hcnt Hb Hd acts. pose proof (plan_acts_burst_eq s cur upd cnt slots pods Hb Hd) as Heq. fold acts in Heq.
  set (replicas := replicas_of s cur upd cnt slots pods) in *.
  split; [|split; [|split]].
  - intros i Ri Hv. pose proof (in_range_bounds _ _ _ Ri) as [Hbd _].
    destruct (nth_error replicas (Z.to_nat i)) as [e|] eqn:E.
    + pose proof (replicas_of_kind _ _ _ _ _ _ _ _ E) as Hk. rewrite Z2Nat.id in Hk by lia.
      inversion Hk as [Hsl | q Hq Ho Hr | Hr Hv']; subst.
      * exfalso. apply in_range_bounds in Ri. tauto.
      * exfalso. apply (Hv q Hq). reflexivity.
      * rewrite Heq. apply in_or_app. left.
        destruct (rl_acts_burst_creates s cur upd replicas 0 _ _ E) as [_ H].
        destruct (nvp_fresh s cur upd i) as (C & F1 & F2 & _). apply H; [rewrite F1, F2; reflexivity | exact C].
    + apply nth_error_None in E. unfold replicas in E. rewrite replicas_of_length in E. lia.
  - intros p0 Hp Rp F Huniq. pose proof (in_range_bounds _ _ _ Rp) as [Hbd _].
    destruct (nth_error replicas (Z.to_nat (getOrdinal p0))) as [e|] eqn:E.
    + pose proof (replicas_of_kind _ _ _ _ _ _ _ _ E) as Hk. rewrite Z2Nat.id in Hk by lia.
      inversion Hk as [Hsl | q Hq Ho Hr | Hr Hv']; subst.
      * exfalso. apply in_range_bounds in Rp. tauto.
      * assert (q = p0) by (apply Huniq; assumption). subst q.
        destruct (rl_acts_burst_creates s cur upd replicas 0 _ _ E) as [H _]. destruct (H F) as [H1 H2].
        rewrite Z.add_0_l, Z2Nat.id in H2 by lia.
        split; rewrite Heq; apply in_or_app; left; assumption.
      * exfalso. apply (Hv' p0 Hp). reflexivity.
    + apply nth_error_None in E. unfold replicas in E. rewrite replicas_of_length in E. lia.
  - intros c Hc Cc Tc. rewrite Heq. apply in_or_app. right. apply in_or_app. left.
    apply in_map. apply filter_In. split; [|rewrite Tc; reflexivity].
    apply -> in_rev. apply condemned_of_In. split; assumption.
  - eexists. split; [|exact Heq].
    destruct (String.eqb (s_strategy s) "OnDelete"); [left; reflexivity|].
    destruct (ul_acts_spec upd (umin_of s) (List.rev (rl_arr s cur upd false 0 replicas)) (cnt - 1))
      as [E|(pre & u & post & _ & E & _)]; rewrite E; [left; reflexivity | right; exists u; reflexivity].
Qed.

(* ------------------------------------------------------------------ corollaries ----------------- *)
Lemma owner_eq_dec (a b : owner) : {a = b} + {a <> b}.
Proof. decide equality; apply string_dec. Qed.
Lemma opt_string_eq_dec (a b : option string) : {a = b} + {a <> b}.
Proof. decide equality; apply string_dec. Qed.
Lemma vol_eq_dec (a b : vol) : {a = b} + {a <> b}.
Proof. decide equality; [apply opt_string_eq_dec | apply string_dec]. Qed.
Lemma pod_eq_dec (a b : pod) : {a = b} + {a <> b}.
Proof.
  decide equality; try apply string_dec; try apply Z.eq_dec; try apply bool_dec; try apply opt_string_eq_dec.
  - apply list_eq_dec. apply vol_eq_dec.
  - decide equality. apply owner_eq_dec.
Qed.

(* a live desired pod that is up to date is never deleted *)
Lemma plan_keeps_good_pods s cur upd cnt slots pods p :
  0 <= cnt -> In p pods -> in_range cnt slots (getOrdinal p) = true ->
  (isFailed p || isSucceeded p) = false -> rev_is p upd = true ->
  ~ In (ADelete p) (plan_acts s cur upd cnt slots pods).
Proof.
  intros Hcnt Hp Hr Hf Hu Hin. destruct (plan_delete_justified _ _ _ _ _ _ _ Hcnt Hin)
    as [_ C _ | _ _ F _ | i _ _ _ _ R _ _ _ _].
  - unfold is_condemned in C. rewrite Hr in C. discriminate.
  - congruence.
  - congruence.
Qed.

(* new_versioned_pod: which revision a (re)created pod is built from *)
Lemma nvp_revision s cur upd i :
  let p := new_versioned_pod s cur upd i in
  (p_rev p = ri_name cur /\ p_tmpl p = ri_tmpl cur /\ use_current s i = true)
  \/ (p_rev p = ri_name upd /\ p_tmpl p = ri_tmpl upd /\ use_current s i = false).
Proof. unfold new_versioned_pod. destruct (use_current s i); [left | right]; repeat split; reflexivity. Qed.
Lemma use_current_partition s part i : s_rolling s = Some (Some part) -> use_current s i = (i <? part).
Proof. intros H. unfold use_current. rewrite H. cbn [andb]. rewrite andb_false_r. reflexivity. Qed.

(* scale-in at a slot: when everything else is in place, the pod in the slot is the only one deleted *)
Lemma plan_slot_only s cur upd cnt slots pods pk :
  0 <= cnt -> ri_name cur = ri_name upd ->
  (forall q, In q pods -> q <> pk ->
             in_range cnt slots (getOrdinal q) = true /\ (isFailed q || isSucceeded q) = false /\ rev_is q upd = true) ->
  forall p, In (ADelete p) (plan_acts s cur upd cnt slots pods) -> p = pk.
Proof.
  intros Hcnt Hsame Hall p Hin.
  destruct (plan_delete_justified _ _ _ _ _ _ _ Hcnt Hin)
    as [Hp C _ | Hp R F _ | i _ R _ [[Hp Ho] | ->] Rv _ _ _ _].
  - destruct (pod_eq_dec p pk) as [E|E]; [exact E|].
    destruct (Hall p Hp E) as (R & _). unfold is_condemned in C. rewrite R in C. discriminate.
  - destruct (pod_eq_dec p pk) as [E|E]; [exact E|]. destruct (Hall p Hp E) as (_ & F' & _). congruence.
  - destruct (pod_eq_dec p pk) as [E|E]; [exact E|]. destruct (Hall p Hp E) as (_ & _ & U). congruence.
  - exfalso. destruct (nvp_revision s cur upd i) as [(E & _)|(E & _)]; unfold rev_is in Rv; rewrite E in Rv;
      [rewrite Hsame in Rv|]; rewrite String.eqb_refl in Rv; discriminate.
Qed.
