package main

import (
	"bytes"
	"context"
	"encoding/json"
	"fmt"
	apierrors "k8s.io/apimachinery/pkg/api/errors"
	"k8s.io/apimachinery/pkg/watch"
	"reflect"
	"strings"
	"time"

	appsv1 "k8s.io/api/apps/v1"
	apiequality "k8s.io/apimachinery/pkg/api/equality"
	metav1 "k8s.io/apimachinery/pkg/apis/meta/v1"
	"k8s.io/apimachinery/pkg/runtime"
	"k8s.io/apimachinery/pkg/util/diff"
	kubefake "k8s.io/client-go/kubernetes/fake"
	clienttesting "k8s.io/client-go/testing"

	asv1 "github.com/pingcap/advanced-statefulset/client/apis/apps/v1"
	"github.com/pingcap/advanced-statefulset/client/apis/apps/v1/helper"
	asfake "github.com/pingcap/advanced-statefulset/client/client/clientset/versioned/fake"
)

func strictDecode(raw []byte, into interface{}) error {
	dec := json.NewDecoder(bytes.NewReader(raw))
	dec.DisallowUnknownFields()
	return dec.Decode(into)
}

func mustJSON(v interface{}) json.RawMessage {
	b, err := json.Marshal(v)
	if err != nil {
		return json.RawMessage(fmt.Sprintf("%q", "marshal error: "+err.Error()))
	}
	return b
}

func errStr(err error) interface{} {
	if err == nil {
		return nil
	}
	return err.Error()
}

func shortDiff(a, b interface{}) string {
	d := diff.ObjectReflectDiff(a, b)
	if len(d) > 1500 {
		d = d[:1500] + "..."
	}
	return d
}

// jsonFields: json name -> field index path of the JSON-visible fields of a struct type (embedded
// structs without a name are promoted).
func jsonFields(t reflect.Type) map[string][]int {
	out := map[string][]int{}
	for i := 0; i < t.NumField(); i++ {
		f := t.Field(i)
		tag := strings.Split(f.Tag.Get("json"), ",")[0]
		if tag == "-" {
			continue
		}
		if f.Anonymous && tag == "" && f.Type.Kind() == reflect.Struct {
			for n, idx := range jsonFields(f.Type) {
				out[n] = append([]int{i}, idx...)
			}
			continue
		}
		if f.PkgPath != "" {
			continue
		}
		if tag == "" {
			tag = f.Name
		}
		out[tag] = []int{i}
	}
	return out
}

// clearUnmodelled zeroes, inside the built-in value v, every field that the type `as` of the Advanced
// API has no counterpart for (by json name), recursively through structs, pointers and slices of
// non-identical types.  It returns the paths it found set (non-zero) in this object.
func clearUnmodelled(v reflect.Value, as reflect.Type, path string, set *[]string) {
	if v.Type() == as {
		return
	}
	switch v.Kind() {
	case reflect.Ptr:
		if v.IsNil() || as.Kind() != reflect.Ptr {
			return
		}
		clearUnmodelled(v.Elem(), as.Elem(), path, set)
	case reflect.Slice:
		if as.Kind() != reflect.Slice {
			return
		}
		for i := 0; i < v.Len(); i++ {
			clearUnmodelled(v.Index(i), as.Elem(), path+"[]", set)
		}
	case reflect.Struct:
		if as.Kind() != reflect.Struct {
			return
		}
		af := jsonFields(as)
		for name, idx := range jsonFields(v.Type()) {
			fv := v.FieldByIndex(idx)
			aidx, ok := af[name]
			if !ok {
				if !fv.IsZero() {
					*set = append(*set, path+name)
				}
				fv.Set(reflect.Zero(fv.Type()))
				continue
			}
			clearUnmodelled(fv, as.FieldByIndex(aidx).Type, path+name+".", set)
		}
	}
}

// unmodelledPaths: the static list of built-in fields without a counterpart in the Advanced type.
func unmodelledPaths(bi, as reflect.Type, path string, out *[]string) {
	if bi == as {
		return
	}
	switch bi.Kind() {
	case reflect.Ptr, reflect.Slice:
		if as.Kind() == bi.Kind() {
			unmodelledPaths(bi.Elem(), as.Elem(), path, out)
		}
	case reflect.Struct:
		if as.Kind() != reflect.Struct {
			return
		}
		af := jsonFields(as)
		bf := jsonFields(bi)
		names := make([]string, 0, len(bf))
		for n := range bf {
			names = append(names, n)
		}
		sortStrings(names)
		for _, name := range names {
			aidx, ok := af[name]
			if !ok {
				*out = append(*out, path+name)
				continue
			}
			unmodelledPaths(bi.FieldByIndex(bf[name]).Type, as.FieldByIndex(aidx).Type, path+name+".", out)
		}
	}
}

func sortStrings(a []string) {
	for i := 1; i < len(a); i++ {
		for j := i; j > 0 && a[j] < a[j-1]; j-- {
			a[j], a[j-1] = a[j-1], a[j]
		}
	}
}

func convertOne(raw json.RawMessage) map[string]interface{} {
	out := map[string]interface{}{}
	var x appsv1.StatefulSet
	if err := strictDecode(raw, &x); err != nil {
		out["decode_err"] = err.Error()
		return out
	}
	var pan string
	func() {
		defer recoverTo(&pan)
		out["j0"] = mustJSON(&x)
		as1, err1 := helper.FromBuiltinStatefulSet(&x)
		out["err_from"] = errStr(err1)
		if err1 != nil {
			return
		}
		out["j1"] = mustJSON(as1)
		out["as_api"] = as1.APIVersion
		y, err2 := helper.ToBuiltinStatefulSet(as1)
		out["err_to"] = errStr(err2)
		if err2 != nil {
			return
		}
		out["j2"] = mustJSON(y)
		out["bi_api"] = y.APIVersion
		// monitor: semantic equality restricted to the fields the Advanced API models
		xm := x.DeepCopy()
		var set []string
		clearUnmodelled(reflect.ValueOf(xm).Elem(), reflect.TypeOf(asv1.StatefulSet{}), "", &set)
		xm.APIVersion = appsv1.SchemeGroupVersion.String()
		sortStrings(set)
		if set == nil {
			set = []string{}
		}
		out["dropped_set"] = set
		eq := apiequality.Semantic.DeepEqual(xm, y)
		out["sem_equal_modelled"] = eq
		if !eq {
			out["diff"] = shortDiff(xm, y)
		}
		xf := x.DeepCopy()
		xf.APIVersion = appsv1.SchemeGroupVersion.String()
		out["sem_equal_full"] = apiequality.Semantic.DeepEqual(xf, y)
		// the other direction: Advanced -> built-in -> Advanced loses nothing at all
		as2, err3 := helper.FromBuiltinStatefulSet(y)
		out["err_from2"] = errStr(err3)
		if err3 == nil {
			out["j3"] = mustJSON(as2)
			eq2 := apiequality.Semantic.DeepEqual(as1, as2)
			out["as_roundtrip_equal"] = eq2
			if !eq2 {
				out["diff_as"] = shortDiff(as1, as2)
			}
		}
	}()
	if pan != "" {
		out["panic"] = pan
	}
	return out
}

func convertList(raws []json.RawMessage, nilItems bool) map[string]interface{} {
	out := map[string]interface{}{}
	var pan string
	func() {
		defer recoverTo(&pan)
		asl := &asv1.StatefulSetList{}
		asl.Kind = "StatefulSetList"
		asl.APIVersion = asv1.SchemeGroupVersion.String()
		asl.ResourceVersion = "42"
		if !nilItems {
			asl.Items = []asv1.StatefulSet{}
		}
		var singles []json.RawMessage
		for _, raw := range raws {
			var x appsv1.StatefulSet
			if err := strictDecode(raw, &x); err != nil {
				out["decode_err"] = err.Error()
				return
			}
			as1, err := helper.FromBuiltinStatefulSet(&x)
			if err != nil {
				out["err_from"] = err.Error()
				return
			}
			asl.Items = append(asl.Items, *as1)
			y, err := helper.ToBuiltinStatefulSet(as1)
			if err != nil {
				out["err_to"] = err.Error()
				return
			}
			singles = append(singles, mustJSON(y))
		}
		out["jl"] = mustJSON(asl)
		bl, err := helper.ToBuiltinStetefulsetList(asl)
		out["err_list"] = errStr(err)
		if err != nil {
			return
		}
		out["jo"] = mustJSON(bl)
		out["list_api"] = bl.APIVersion
		out["n_in"] = len(asl.Items)
		out["n_out"] = len(bl.Items)
		out["items_nil_in"] = asl.Items == nil
		out["items_nil_out"] = bl.Items == nil
		if singles == nil {
			singles = []json.RawMessage{}
		}
		out["singles"] = singles
		same := len(bl.Items) == len(asl.Items)
		for i := range bl.Items {
			if i >= len(asl.Items) {
				break
			}
			y, _ := helper.ToBuiltinStatefulSet(&asl.Items[i])
			if !apiequality.Semantic.DeepEqual(y, &bl.Items[i]) {
				same = false
				out["diff"] = fmt.Sprintf("item %d: %s", i, shortDiff(y, &bl.Items[i]))
				break
			}
		}
		out["items_equal_in_order"] = same
	}()
	if pan != "" {
		out["panic"] = pan
	}
	return out
}

var asGVR = asv1.SchemeGroupVersion.WithResource("statefulsets")

// hijackRT drives the real hijack client over the fake Advanced StatefulSet clientset:
// Create -> Get -> List, then Update of what was read back -> Get.
func hijackRT(raws []json.RawMessage) map[string]interface{} {
	out := map[string]interface{}{}
	var pan string
	func() {
		defer recoverTo(&pan)
		ctx := context.TODO()
		ascs := asfake.NewSimpleClientset()
		var order []string // creation order, "ns/name"
		ns := "default"
		ascs.PrependReactor("list", "statefulsets", func(action clienttesting.Action) (bool, runtime.Object, error) {
			l := &asv1.StatefulSetList{}
			for _, name := range order {
				o, err := ascs.Tracker().Get(asGVR, ns, name)
				if err != nil {
					return true, nil, err
				}
				l.Items = append(l.Items, *(o.(*asv1.StatefulSet)))
			}
			return true, l, nil
		})
		hc := helper.NewHijackClient(kubefake.NewSimpleClientset(), ascs)
		sts := hc.AppsV1().StatefulSets(ns)
		// a watch opened through the client before anything is written: every event must carry an apps/v1 StatefulSet
		wch, werr := sts.Watch(ctx, metav1.ListOptions{})
		out["err_watch"] = errStr(werr)
		var steps []map[string]interface{}
		for _, raw := range raws {
			st := map[string]interface{}{}
			steps = append(steps, st)
			var x appsv1.StatefulSet
			if err := strictDecode(raw, &x); err != nil {
				st["decode_err"] = err.Error()
				continue
			}
			x.Namespace = ns
			st["input"] = mustJSON(&x)
			created, err := sts.Create(ctx, &x, metav1.CreateOptions{})
			st["err_create"] = errStr(err)
			if err != nil {
				continue
			}
			order = append(order, x.Name)
			st["created"] = mustJSON(created)
			got, err := sts.Get(ctx, x.Name, metav1.GetOptions{})
			st["err_get"] = errStr(err)
			if err != nil {
				continue
			}
			st["got"] = mustJSON(got)
			st["created_equals_got"] = apiequality.Semantic.DeepEqual(created, got)
			// what the Advanced clientset stored
			stored, err := ascs.Tracker().Get(asGVR, ns, x.Name)
			if err == nil {
				st["stored"] = mustJSON(stored)
			}
			// re-submit what was read back
			upd, err := sts.Update(ctx, got.DeepCopy(), metav1.UpdateOptions{})
			st["err_update"] = errStr(err)
			if err != nil {
				continue
			}
			st["updated"] = mustJSON(upd)
			st["updated_nil"] = upd == nil
			got2, err := sts.Get(ctx, x.Name, metav1.GetOptions{})
			st["err_get2"] = errStr(err)
			if err != nil {
				continue
			}
			st["got2"] = mustJSON(got2)
			eq := apiequality.Semantic.DeepEqual(got, got2)
			st["resubmit_unchanged"] = eq
			if !eq {
				st["diff_resubmit"] = shortDiff(got, got2)
			}
			st["template_unchanged"] = apiequality.Semantic.DeepEqual(got.Spec.Template, got2.Spec.Template)
			st["updated_equals_got2"] = upd != nil && apiequality.Semantic.DeepEqual(upd, got2)
			// a status written through the client is stored and comes back
			sw := got2.DeepCopy()
			sw.Status.Replicas, sw.Status.ReadyReplicas, sw.Status.CurrentRevision = 7, 6, "probe-rev"
			us, err := sts.UpdateStatus(ctx, sw, metav1.UpdateOptions{})
			st["err_updstatus"] = errStr(err)
			if err == nil {
				got3, err3 := sts.Get(ctx, x.Name, metav1.GetOptions{})
				st["status_roundtrip"] = err3 == nil && us != nil && got3 != nil && got3.Status.Replicas == 7 && got3.Status.ReadyReplicas == 6 &&
					got3.Status.CurrentRevision == "probe-rev" && apiequality.Semantic.DeepEqual(us.Status, got3.Status) &&
					apiequality.Semantic.DeepEqual(got3.Spec, got2.Spec)
				// put the status back so that the list comparison below sees what Get saw
				if got3 != nil {
					back := got3.DeepCopy()
					back.Status = got2.Status
					_, _ = sts.UpdateStatus(ctx, back, metav1.UpdateOptions{})
				}
			}
			stored2, err := ascs.Tracker().Get(asGVR, ns, x.Name)
			if err == nil && stored != nil {
				st["stored_unchanged"] = apiequality.Semantic.DeepEqual(stored, stored2)
			}
		}
		out["steps"] = steps
		// errors of the server are errors of the client: a second Create of a stored name, and Get / Update / UpdateStatus /
		// Delete of a name that is not stored
		if len(order) > 0 {
			first, _ := sts.Get(ctx, order[0], metav1.GetOptions{})
			if first != nil {
				dup := first.DeepCopy()
				dup.ResourceVersion = ""
				r, err := sts.Create(ctx, dup, metav1.CreateOptions{})
				out["dup_create"] = map[string]interface{}{"err": errStr(err), "exists": apierrors.IsAlreadyExists(err), "result_nil": r == nil}
				ghost := first.DeepCopy()
				ghost.Name = "no-such-set"
				r, err = sts.Update(ctx, ghost.DeepCopy(), metav1.UpdateOptions{})
				out["ghost_update"] = map[string]interface{}{"err": errStr(err), "notfound": apierrors.IsNotFound(err), "result_nil": r == nil}
				r, err = sts.UpdateStatus(ctx, ghost.DeepCopy(), metav1.UpdateOptions{})
				out["ghost_updstatus"] = map[string]interface{}{"err": errStr(err), "notfound": apierrors.IsNotFound(err), "result_nil": r == nil}
			}
			r, err := sts.Get(ctx, "no-such-set", metav1.GetOptions{})
			out["ghost_get"] = map[string]interface{}{"err": errStr(err), "notfound": apierrors.IsNotFound(err), "result_nil": r == nil}
		}
		if werr == nil && len(order) > 0 {
			// delete the last object through the client, then read what the watch saw
			last := order[len(order)-1]
			out["err_delete"] = errStr(sts.Delete(ctx, last, metav1.DeleteOptions{}))
			order = order[:len(order)-1]
			evs := []map[string]interface{}{}
			deadline := time.After(400 * time.Millisecond)
		loop:
			for {
				select {
				case ev, ok := <-wch.ResultChan():
					if !ok {
						break loop
					}
					e := map[string]interface{}{"type": string(ev.Type), "gotype": fmt.Sprintf("%T", ev.Object)}
					if b, ok := ev.Object.(*appsv1.StatefulSet); ok {
						e["api"] = b.APIVersion
						e["name"] = b.Name
					}
					evs = append(evs, e)
					if ev.Type == watch.Deleted {
						break loop
					}
				case <-deadline:
					break loop
				}
			}
			wch.Stop()
			out["watch_events"] = evs
		}
		l, err := sts.List(ctx, metav1.ListOptions{})
		out["err_list"] = errStr(err)
		if err == nil {
			out["list"] = mustJSON(l)
			out["list_api"] = l.APIVersion
			names := []string{}
			for i := range l.Items {
				names = append(names, l.Items[i].Name)
			}
			out["list_names"] = names
			out["created_names"] = append([]string{}, order...)
		}
	}()
	if pan != "" {
		out["panic"] = pan
	}
	return out
}

func init() {
	// convert: {"obj": <apps/v1 StatefulSet JSON>}  or  {"list": [<obj>...], "nil_items": bool}
	register("convert", func(raw json.RawMessage) (interface{}, error) {
		var in struct {
			Obj      json.RawMessage   `json:"obj"`
			List     []json.RawMessage `json:"list"`
			IsList   bool              `json:"is_list"`
			NilItems bool              `json:"nil_items"`
		}
		if err := json.Unmarshal(raw, &in); err != nil {
			return nil, err
		}
		if in.IsList {
			return convertList(in.List, in.NilItems), nil
		}
		return convertOne(in.Obj), nil
	})
	// unmodelled: the built-in fields the Advanced types have no counterpart for
	register("unmodelled", func(raw json.RawMessage) (interface{}, error) {
		var paths []string
		unmodelledPaths(reflect.TypeOf(appsv1.StatefulSet{}), reflect.TypeOf(asv1.StatefulSet{}), "", &paths)
		return map[string]interface{}{"paths": paths}, nil
	})
	// hijackrt: {"objs": [<apps/v1 StatefulSet JSON with a name>...]}
	register("hijackrt", func(raw json.RawMessage) (interface{}, error) {
		var in struct {
			Objs []json.RawMessage `json:"objs"`
		}
		if err := json.Unmarshal(raw, &in); err != nil {
			return nil, err
		}
		return hijackRT(in.Objs), nil
	})
}
