package main

import (
	"bytes"
	"encoding/json"
	"reflect"

	apiequality "k8s.io/apimachinery/pkg/api/equality"

	asv1 "github.com/pingcap/advanced-statefulset/client/apis/apps/v1"
	"github.com/pingcap/advanced-statefulset/client/apis/apps/v1/helper"
)

// defaults: the real client-side defaulter (asv1.SetObjectDefaults_StatefulSet, the function the
// hijack client calls before Create/Update) applied once and twice (C19 part C).
//
//	in : {"obj": <StatefulSet JSON, decoded strictly into asv1.StatefulSet>}
//	out: j0 (as decoded), j1 (defaulted once), j2 (defaulted twice), idempotent (semantic and
//	     byte-wise), j3 (defaulted once, converted to built-in and back as a read-back through the
//	     hijack client does, defaulted again), resubmit_equal, template_equal
func init() {
	register("defaults", func(raw json.RawMessage) (interface{}, error) {
		var in struct {
			Obj json.RawMessage `json:"obj"`
		}
		if err := json.Unmarshal(raw, &in); err != nil {
			return nil, err
		}
		out := map[string]interface{}{}
		var x asv1.StatefulSet
		if err := strictDecode(in.Obj, &x); err != nil {
			out["decode_err"] = err.Error()
			return out, nil
		}
		var pan string
		func() {
			defer recoverTo(&pan)
			j0 := mustJSON(&x)
			out["j0"] = j0
			d1 := x.DeepCopy()
			asv1.SetObjectDefaults_StatefulSet(d1)
			j1 := mustJSON(d1)
			out["j1"] = j1
			d2 := d1.DeepCopy()
			asv1.SetObjectDefaults_StatefulSet(d2)
			j2 := mustJSON(d2)
			out["j2"] = j2
			sem := apiequality.Semantic.DeepEqual(d1, d2)
			out["idempotent"] = sem && bytes.Equal(j1, j2) && reflect.DeepEqual(d1, d2)
			out["idempotent_semantic"] = sem
			if !sem {
				out["diff"] = shortDiff(d1, d2)
			}
			out["changed_by_first"] = !bytes.Equal(j0, j1)
			// read back through the hijack conversions, then re-submitted (defaulted again)
			bi, err := helper.ToBuiltinStatefulSet(d1)
			if err != nil {
				out["err_to"] = err.Error()
				return
			}
			rt, err := helper.FromBuiltinStatefulSet(bi)
			if err != nil {
				out["err_from"] = err.Error()
				return
			}
			asv1.SetObjectDefaults_StatefulSet(rt)
			// the conversion types the object as the Advanced API version; everything else must be as before
			d1c := d1.DeepCopy()
			d1c.APIVersion = rt.APIVersion
			d1 = d1c
			out["j1_typed"] = mustJSON(d1)
			j3 := mustJSON(rt)
			out["j3"] = j3
			eq := apiequality.Semantic.DeepEqual(d1, rt)
			out["resubmit_equal"] = eq
			if !eq {
				out["diff_resubmit"] = shortDiff(d1, rt)
			}
			out["template_equal"] = apiequality.Semantic.DeepEqual(d1.Spec.Template, rt.Spec.Template)
		}()
		if pan != "" {
			out["panic"] = pan
		}
		return out, nil
	})
}
