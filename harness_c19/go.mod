module verifharness_c19

go 1.23.2

require (
	github.com/pingcap/advanced-statefulset v0.0.0
	github.com/pingcap/advanced-statefulset/client v0.0.0
	k8s.io/api v0.28.14
	k8s.io/apimachinery v0.28.14
	k8s.io/client-go v0.28.14
	k8s.io/klog/v2 v2.110.1
)

require (
	github.com/beorn7/perks v1.0.1 // indirect
	github.com/blang/semver/v4 v4.0.0 // indirect
	github.com/cespare/xxhash/v2 v2.2.0 // indirect
	github.com/davecgh/go-spew v1.1.1 // indirect
	github.com/distribution/reference v0.6.0 // indirect
	github.com/emicklei/go-restful/v3 v3.9.0 // indirect
	github.com/evanphx/json-patch v4.12.0+incompatible // indirect
	github.com/go-logr/logr v1.3.0 // indirect
	github.com/go-openapi/jsonpointer v0.19.6 // indirect
	github.com/go-openapi/jsonreference v0.20.2 // indirect
	github.com/go-openapi/swag v0.22.3 // indirect
	github.com/gogo/protobuf v1.3.2 // indirect
	github.com/golang/groupcache v0.0.0-20210331224755-41bb18bfe9da // indirect
	github.com/golang/protobuf v1.5.4 // indirect
	github.com/google/gnostic-models v0.6.8 // indirect
	github.com/google/go-cmp v0.5.9 // indirect
	github.com/google/gofuzz v1.2.0 // indirect
	github.com/google/uuid v1.3.0 // indirect
	github.com/josharian/intern v1.0.0 // indirect
	github.com/json-iterator/go v1.1.12 // indirect
	github.com/mailru/easyjson v0.7.7 // indirect
	github.com/matttproud/golang_protobuf_extensions v1.0.4 // indirect
	github.com/modern-go/concurrent v0.0.0-20180306012644-bacd9c7ef1dd // indirect
	github.com/modern-go/reflect2 v1.0.2 // indirect
	github.com/munnerz/goautoneg v0.0.0-20191010083416-a7dc8b61c822 // indirect
	github.com/opencontainers/go-digest v1.0.0 // indirect
	github.com/pkg/errors v0.9.1 // indirect
	github.com/prometheus/client_golang v1.16.0 // indirect
	github.com/prometheus/client_model v0.4.0 // indirect
	github.com/prometheus/common v0.44.0 // indirect
	github.com/prometheus/procfs v0.10.1 // indirect
	github.com/spf13/pflag v1.0.5 // indirect
	golang.org/x/net v0.23.0 // indirect
	golang.org/x/oauth2 v0.8.0 // indirect
	golang.org/x/sys v0.18.0 // indirect
	golang.org/x/term v0.18.0 // indirect
	golang.org/x/text v0.14.0 // indirect
	golang.org/x/time v0.3.0 // indirect
	google.golang.org/protobuf v1.33.0 // indirect
	gopkg.in/inf.v0 v0.9.1 // indirect
	gopkg.in/yaml.v2 v2.4.0 // indirect
	gopkg.in/yaml.v3 v3.0.1 // indirect
	k8s.io/apiserver v0.28.14 // indirect
	k8s.io/component-base v0.28.14 // indirect
	k8s.io/kube-openapi v0.0.0-20230717233707-2695361300d9 // indirect
	k8s.io/utils v0.0.0-20230406110748-d93618cff8a2 // indirect
	sigs.k8s.io/json v0.0.0-20221116044647-bc3834ca7abd // indirect
	sigs.k8s.io/structured-merge-diff/v4 v4.2.3 // indirect
	sigs.k8s.io/yaml v1.3.0 // indirect
)

replace github.com/pingcap/advanced-statefulset => /repo

replace github.com/pingcap/advanced-statefulset/client => /repo/client
