package main

import (
	"encoding"
	"encoding/json"
	"fmt"
	"math"
	"reflect"
	"strings"

	appsv1 "k8s.io/api/apps/v1"

	asv1 "github.com/pingcap/advanced-statefulset/client/apis/apps/v1"
)

// schemas: translator from the Go struct types of the two StatefulSet APIs to the schema trees
// of /verif/coq/Convert.v (C19 part A).  Two types are walked side by side; the walk stops at a
// struct type that is the identical Go type on both sides (or, for a field only one side has, at
// a struct type of another package): such a type is an opaque leaf whose JSON is copied verbatim.
// Embedded structs without a json name are flattened as encoding/json does.  Anything outside the
// fragment (custom marshalers on non-struct types, ",string", []byte, non-string map keys,
// interfaces, arrays, name clashes between promoted fields) is reported in "errors".

type schemaNode struct {
	K      string          `json:"k"`
	Go     string          `json:"go,omitempty"`
	Lo     *float64        `json:"-"`
	LoS    string          `json:"lo,omitempty"`
	HiS    string          `json:"hi,omitempty"`
	Name   string          `json:"name,omitempty"`
	Zero   json.RawMessage `json:"zero,omitempty"`
	E      *schemaNode     `json:"e,omitempty"`
	Fields []schemaField   `json:"fields,omitempty"`
}

type schemaField struct {
	N  string      `json:"n"`
	OE bool        `json:"oe"`
	S  *schemaNode `json:"s"`
	// Go field path, for messages
	G string `json:"g"`
}

type schemaWalker struct {
	rootPkg string
	errs    []string
}

var (
	jsonMarshalerT = reflect.TypeOf((*json.Marshaler)(nil)).Elem()
	textMarshalerT = reflect.TypeOf((*encoding.TextMarshaler)(nil)).Elem()
)

func hasCustomMarshal(t reflect.Type) bool {
	if t.Implements(jsonMarshalerT) || t.Implements(textMarshalerT) {
		return true
	}
	if t.Kind() != reflect.Ptr {
		p := reflect.PtrTo(t)
		return p.Implements(jsonMarshalerT) || p.Implements(textMarshalerT)
	}
	return false
}

func typeName(t reflect.Type) string {
	if t.PkgPath() != "" {
		return t.PkgPath() + "." + t.Name()
	}
	return t.String()
}

type flatField struct {
	name string
	oe   bool
	typ  reflect.Type
	path string
}

// flatten returns the JSON-visible fields of a struct type in declaration order, promoting the
// fields of embedded structs that carry no json name.
func (w *schemaWalker) flatten(t reflect.Type, prefix string) []flatField {
	var out []flatField
	for i := 0; i < t.NumField(); i++ {
		f := t.Field(i)
		tag := f.Tag.Get("json")
		if tag == "-" {
			continue
		}
		parts := strings.Split(tag, ",")
		name := parts[0]
		oe := false
		for _, o := range parts[1:] {
			switch o {
			case "omitempty":
				oe = true
			case "inline", "":
			default:
				w.errs = append(w.errs, fmt.Sprintf("%s%s: json option %q is outside the fragment", prefix, f.Name, o))
			}
		}
		if f.Anonymous && name == "" {
			ft := f.Type
			if ft.Kind() == reflect.Ptr {
				w.errs = append(w.errs, fmt.Sprintf("%s%s: embedded pointer is outside the fragment", prefix, f.Name))
				continue
			}
			if ft.Kind() == reflect.Struct {
				out = append(out, w.flatten(ft, prefix+f.Name+".")...)
				continue
			}
		}
		if f.PkgPath != "" { // unexported
			continue
		}
		if name == "" {
			name = f.Name
		}
		out = append(out, flatField{name: name, oe: oe, typ: f.Type, path: prefix + f.Name})
	}
	seen := map[string]bool{}
	for _, f := range out {
		if seen[f.name] {
			w.errs = append(w.errs, fmt.Sprintf("%s: json name %q occurs twice (promotion rules are outside the fragment)", prefix, f.name))
		}
		seen[f.name] = true
		if seen[strings.ToLower(f.name)+"\x00ci"] {
			w.errs = append(w.errs, fmt.Sprintf("%s: json name %q clashes case-insensitively", prefix, f.name))
		}
		seen[strings.ToLower(f.name)+"\x00ci"] = true
	}
	return out
}

func intRange(k reflect.Kind) (string, string, bool) {
	switch k {
	case reflect.Int8:
		return fmt.Sprint(math.MinInt8), fmt.Sprint(math.MaxInt8), true
	case reflect.Int16:
		return fmt.Sprint(math.MinInt16), fmt.Sprint(math.MaxInt16), true
	case reflect.Int32:
		return fmt.Sprint(math.MinInt32), fmt.Sprint(math.MaxInt32), true
	case reflect.Int64, reflect.Int:
		return fmt.Sprint(math.MinInt64), fmt.Sprint(math.MaxInt64), true
	case reflect.Uint8:
		return "0", fmt.Sprint(math.MaxUint8), true
	case reflect.Uint16:
		return "0", fmt.Sprint(math.MaxUint16), true
	case reflect.Uint32:
		return "0", fmt.Sprint(math.MaxUint32), true
	case reflect.Uint64, reflect.Uint:
		return "0", fmt.Sprint(uint64(math.MaxUint64)), true
	}
	return "", "", false
}

func (w *schemaWalker) walk(t, other reflect.Type, path string) *schemaNode {
	if t.Kind() == reflect.Ptr && !t.Implements(jsonMarshalerT) || t.Kind() == reflect.Ptr && hasCustomMarshal(t.Elem()) {
		var oe reflect.Type
		if other != nil && other.Kind() == reflect.Ptr {
			oe = other.Elem()
		}
		return &schemaNode{K: "ptr", E: w.walk(t.Elem(), oe, path+"*")}
	}
	if hasCustomMarshal(t) {
		if t.Kind() != reflect.Struct {
			w.errs = append(w.errs, fmt.Sprintf("%s: custom marshaler on non-struct type %s is outside the fragment", path, typeName(t)))
		}
		return w.opaque(t, path)
	}
	switch t.Kind() {
	case reflect.Struct:
		if other != nil && t == other {
			return w.opaque(t, path)
		}
		if other == nil && t.PkgPath() != w.rootPkg {
			return w.opaque(t, path)
		}
		n := &schemaNode{K: "struct", Name: typeName(t)}
		var ofs []flatField
		if other != nil && other.Kind() == reflect.Struct {
			ow := &schemaWalker{rootPkg: other.PkgPath()}
			ofs = ow.flatten(other, "")
		}
		for _, f := range w.flatten(t, path+".") {
			var ot reflect.Type
			for _, of := range ofs {
				if of.name == f.name {
					ot = of.typ
				}
			}
			n.Fields = append(n.Fields, schemaField{N: f.name, OE: f.oe, S: w.walk(f.typ, ot, f.path), G: f.path})
		}
		return n
	case reflect.Ptr:
		var oe reflect.Type
		if other != nil && other.Kind() == reflect.Ptr {
			oe = other.Elem()
		}
		return &schemaNode{K: "ptr", E: w.walk(t.Elem(), oe, path+"*")}
	case reflect.Slice:
		if t.Elem().Kind() == reflect.Uint8 {
			w.errs = append(w.errs, fmt.Sprintf("%s: []byte (base64) is outside the fragment", path))
		}
		var oe reflect.Type
		if other != nil && other.Kind() == reflect.Slice {
			oe = other.Elem()
		}
		return &schemaNode{K: "slice", E: w.walk(t.Elem(), oe, path+"[]")}
	case reflect.Map:
		if t.Key().Kind() != reflect.String || hasCustomMarshal(t.Key()) {
			w.errs = append(w.errs, fmt.Sprintf("%s: map key %s is outside the fragment", path, t.Key()))
		}
		var oe reflect.Type
		if other != nil && other.Kind() == reflect.Map {
			oe = other.Elem()
		}
		return &schemaNode{K: "map", E: w.walk(t.Elem(), oe, path+"{}")}
	case reflect.Bool:
		return &schemaNode{K: "bool", Go: typeName(t)}
	case reflect.String:
		return &schemaNode{K: "string", Go: typeName(t)}
	case reflect.Float32, reflect.Float64:
		return &schemaNode{K: "float", Go: typeName(t)}
	default:
		if lo, hi, ok := intRange(t.Kind()); ok {
			return &schemaNode{K: "int", Go: typeName(t), LoS: lo, HiS: hi}
		}
		w.errs = append(w.errs, fmt.Sprintf("%s: kind %s is outside the fragment", path, t.Kind()))
		return &schemaNode{K: "opaque", Name: "unsupported:" + t.String(), Zero: json.RawMessage("null")}
	}
}

func (w *schemaWalker) opaque(t reflect.Type, path string) *schemaNode {
	z, err := json.Marshal(reflect.Zero(t).Interface())
	if err != nil {
		w.errs = append(w.errs, fmt.Sprintf("%s: zero value of %s does not marshal: %v", path, typeName(t), err))
		z = []byte("null")
	}
	return &schemaNode{K: "opaque", Name: typeName(t), Zero: z}
}

func schemaPair(a, b reflect.Type) (*schemaNode, *schemaNode, []string) {
	wa := &schemaWalker{rootPkg: a.PkgPath()}
	wb := &schemaWalker{rootPkg: b.PkgPath()}
	sa := wa.walk(a, b, a.Name())
	sb := wb.walk(b, a, b.Name())
	return sa, sb, append(wa.errs, wb.errs...)
}

func init() {
	register("schemas", func(raw json.RawMessage) (interface{}, error) {
		sa, sb, e1 := schemaPair(reflect.TypeOf(asv1.StatefulSet{}), reflect.TypeOf(appsv1.StatefulSet{}))
		la, lb, e2 := schemaPair(reflect.TypeOf(asv1.StatefulSetList{}), reflect.TypeOf(appsv1.StatefulSetList{}))
		errs := append(e1, e2...)
		if errs == nil {
			errs = []string{}
		}
		return map[string]interface{}{
			"as": sa, "builtin": sb, "as_list": la, "builtin_list": lb, "errors": errs,
			"as_version": asv1.SchemeGroupVersion.String(), "builtin_version": appsv1.SchemeGroupVersion.String(),
		}, nil
	})
}
