// Verification harness: runs the real code of /repo (built with -tags verif) on
// line-oriented JSON cases and prints one JSON observation per line.
package main

import (
	"bufio"
	"encoding/json"
	"fmt"
	"os"
)

type handler func(in json.RawMessage) (interface{}, error)

var commands = map[string]handler{}

func register(name string, h handler) { commands[name] = h }

func main() {
	if len(os.Args) < 2 {
		fmt.Fprintln(os.Stderr, "usage: harness <command>  (JSON lines on stdin)")
		os.Exit(2)
	}
	h, ok := commands[os.Args[1]]
	if !ok {
		fmt.Fprintf(os.Stderr, "unknown command %q\n", os.Args[1])
		os.Exit(2)
	}
	in := bufio.NewReaderSize(os.Stdin, 1<<20)
	out := bufio.NewWriterSize(os.Stdout, 1<<20)
	defer out.Flush()
	enc := json.NewEncoder(out)
	for {
		line, err := in.ReadBytes('\n')
		if len(line) > 1 {
			res, herr := safeCall(h, json.RawMessage(line))
			if herr != nil {
				res = map[string]interface{}{"harness_error": herr.Error()}
			}
			if e := enc.Encode(res); e != nil {
				fmt.Fprintln(os.Stderr, e)
				os.Exit(2)
			}
		}
		if err != nil {
			break
		}
	}
}

func safeCall(h handler, in json.RawMessage) (res interface{}, err error) {
	defer func() {
		if r := recover(); r != nil {
			err = fmt.Errorf("harness panic: %v", r)
		}
	}()
	return h(in)
}
