package main

import (
	"encoding/json"
	"fmt"

	metav1 "k8s.io/apimachinery/pkg/apis/meta/v1"
	"k8s.io/apimachinery/pkg/util/sets"

	"github.com/pingcap/advanced-statefulset/client/apis/apps/v1/helper"
)

func recoverTo(dst *string) {
	if r := recover(); r != nil {
		*dst = fmt.Sprint(r)
	}
}

// codec: the annotation codecs of helper.go (C19 part B), run on the real functions.
//
//	in : {"ann": null|{k:v}, "op": "set"|"add"|"pause", "slots": [int32], "nilset": bool, "paused": bool}
//	out: ann (resulting map, null when nil), ann_nil, slots (GetDeleteSlots read back, sorted),
//	     paused (GetPausedReconcile read back), before_slots (GetDeleteSlots before the call), err, panic
func init() {
	register("codec", func(raw json.RawMessage) (interface{}, error) {
		var in struct {
			Ann    map[string]string `json:"ann"`
			Op     string            `json:"op"`
			Slots  []int32           `json:"slots"`
			NilSet bool              `json:"nilset"`
			Paused bool              `json:"paused"`
		}
		if err := json.Unmarshal(raw, &in); err != nil {
			return nil, err
		}
		obj := &metav1.ObjectMeta{Annotations: in.Ann}
		out := map[string]interface{}{}
		var pan string
		func() {
			defer recoverTo(&pan)
			out["before_slots"] = helper.GetDeleteSlots(obj).List()
			var s sets.Int32
			if !in.NilSet {
				s = sets.NewInt32(in.Slots...)
			}
			var err error
			switch in.Op {
			case "set":
				err = helper.SetDeleteSlots(obj, s)
			case "add":
				err = helper.AddDeleteSlots(obj, s)
			case "pause":
				helper.SetPausedReconcile(obj, in.Paused)
			default:
				err = fmt.Errorf("bad op")
			}
			if err != nil {
				out["err"] = err.Error()
			}
			out["ann"] = obj.Annotations
			out["ann_nil"] = obj.Annotations == nil
			out["slots"] = helper.GetDeleteSlots(obj).List()
			out["paused"] = helper.GetPausedReconcile(obj)
			// the argument set must not be modified by the call
			if !in.NilSet {
				out["arg_after"] = s.List()
			}
		}()
		if pan != "" {
			out["panic"] = pan
		}
		return out, nil
	})
}
