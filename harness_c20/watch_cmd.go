package main

// watch: drives a REAL hijacked watch (helper.NewHijackClient(kube, as).AppsV1().StatefulSets(ns).Watch)
// over the fake Advanced-StatefulSet clientset, whose watch reactor returns a source the harness controls
// (watch.NewFake(): unbuffered rendezvous; watch.NewRaceFreeFake(): buffered, never blocks, drops after Stop).
//
//	in : {"source":"fake"|"racefree", "mode":"seq"|"race", "timeout_ms":60, "settle_ms":3, "final_settle_ms":25,
//	      "steps":[{"op":"send","type":"ADDED|MODIFIED|DELETED|BOOKMARK|ERROR",
//	                "payload":"sts|status|builtin|pod|nil|badsts","id":7} | {"op":"close"} | {"op":"recv"} | {"op":"stop"}]}
//	out: per step: status (send: completed|blocked|panicked; recv: event|closed|blocked; stop/close: completed|blocked)
//	     and, for recv, the event (type, payload kind, id, apiVersion, same_content);
//	     send_final (state of every send at the end), received, relay_goroutine (a goroutine running
//	     (*hijackWatch).receive for THIS watch is still in runtime.Stack(all) after the settle delay),
//	     result_closed / probe (one last receive attempt after the goroutine check), panics (what the
//	     process-level panic handler saw; with the default ReallyCrash=true each of them kills the process).
//
// What this can and cannot show: it observes the real goroutines through timeouts (blocked = not done within
// timeout_ms), runtime.Stack and the panic hook; the only leak it looks for is the relay goroutine itself
// (a goroutine whose stack contains hijackWatch.receive with this watch as receiver).
//
// mode "seq": the steps run one after the other; each gets timeout_ms to complete, a send that did not
// complete stays pending (that is what a blocked sender does) and is looked at again at the end.
// mode "race": source steps (send, close) and consumer steps (recv, stop) run in two concurrent goroutines
// without settling, to let the Go scheduler choose the interleaving.

import (
	"context"
	"encoding/json"
	"fmt"
	"reflect"
	"regexp"
	"runtime"
	"strings"
	"sync"
	"time"

	appsv1 "k8s.io/api/apps/v1"
	corev1 "k8s.io/api/core/v1"
	metav1 "k8s.io/apimachinery/pkg/apis/meta/v1"
	k8sruntime "k8s.io/apimachinery/pkg/runtime"
	"k8s.io/apimachinery/pkg/util/intstr"
	utilruntime "k8s.io/apimachinery/pkg/util/runtime"
	"k8s.io/apimachinery/pkg/watch"
	kubefake "k8s.io/client-go/kubernetes/fake"
	clienttesting "k8s.io/client-go/testing"

	asv1 "github.com/pingcap/advanced-statefulset/client/apis/apps/v1"
	"github.com/pingcap/advanced-statefulset/client/apis/apps/v1/helper"
	asfake "github.com/pingcap/advanced-statefulset/client/client/clientset/versioned/fake"
)

type wStep struct {
	Op      string `json:"op"`
	Type    string `json:"type,omitempty"`
	Payload string `json:"payload,omitempty"`
	ID      int    `json:"id"`
	Par     int    `json:"par,omitempty"` // stop: that many concurrent Stop calls (released together)
}

type wIn struct {
	Source        string  `json:"source"`
	Mode          string  `json:"mode"`
	TimeoutMs     int     `json:"timeout_ms"`
	SettleMs      int     `json:"settle_ms"`
	FinalSettleMs int     `json:"final_settle_ms"`
	Steps         []wStep `json:"steps"`
}

type wEvent struct {
	Type        string `json:"type"`
	Kind        string `json:"kind"` // builtin-sts | as-sts | status | nil | other
	ID          int    `json:"id"`
	APIVersion  string `json:"apiVersion"`
	SameContent bool   `json:"same_content"`
}

type wStepOut struct {
	Op     string  `json:"op"`
	Status string  `json:"status"`
	Event  *wEvent `json:"event,omitempty"`
	Panic  string  `json:"panic,omitempty"`
}

type controlledSource interface {
	watch.Interface
	Action(action watch.EventType, obj k8sruntime.Object)
}

// ---- process-level panic hook (HandleCrash re-panics by default; here it records instead) ----------
var (
	panicMu    sync.Mutex
	panicsByW  = map[string][]string{}
	recvPtrRe  = regexp.MustCompile(`\(\*hijackWatch\)\.receive\((0x[0-9a-f]+)`)
	hookOnce   sync.Once
	panicOther []string
)

func installPanicHook() {
	hookOnce.Do(func() {
		utilruntime.ReallyCrash = false
		utilruntime.PanicHandlers = []func(interface{}){func(r interface{}) {
			buf := make([]byte, 64<<10)
			buf = buf[:runtime.Stack(buf, false)]
			msg := fmt.Sprint(r)
			panicMu.Lock()
			defer panicMu.Unlock()
			if m := recvPtrRe.FindSubmatch(buf); m != nil {
				panicsByW[string(m[1])] = append(panicsByW[string(m[1])], msg)
			} else {
				panicOther = append(panicOther, msg)
			}
		}}
	})
}

func relayGoroutineAlive(ptr string) (alive bool, where string) {
	buf := make([]byte, 1<<20)
	for {
		n := runtime.Stack(buf, true)
		if n < len(buf) {
			buf = buf[:n]
			break
		}
		buf = make([]byte, 2*len(buf))
	}
	for _, g := range strings.Split(string(buf), "\n\n") {
		m := recvPtrRe.FindStringSubmatch(g)
		if m == nil || m[1] != ptr {
			continue
		}
		// the first frame tells where it is parked
		lines := strings.Split(g, "\n")
		hdr := lines[0]
		return true, hdr
	}
	return false, ""
}

// ---- payloads -------------------------------------------------------------------------------------
func mkAsts(id int, bad bool) *asv1.StatefulSet {
	r := int32(id%5 + 1)
	s := &asv1.StatefulSet{
		TypeMeta: metav1.TypeMeta{Kind: "StatefulSet", APIVersion: asv1.SchemeGroupVersion.String()},
		ObjectMeta: metav1.ObjectMeta{Name: fmt.Sprintf("s%d", id), Namespace: "ns", ResourceVersion: fmt.Sprint(100 + id),
			Labels: map[string]string{"id": fmt.Sprint(id)}, Annotations: map[string]string{"delete-slots": "[1]"}},
		Spec: asv1.StatefulSetSpec{
			Replicas:    &r,
			ServiceName: "svc",
			Selector:    &metav1.LabelSelector{MatchLabels: map[string]string{"app": "x"}},
			Template: corev1.PodTemplateSpec{
				ObjectMeta: metav1.ObjectMeta{Labels: map[string]string{"app": "x"}},
				Spec:       corev1.PodSpec{Containers: []corev1.Container{{Name: "c", Image: fmt.Sprintf("img:%d", id)}}},
			},
		},
		Status: asv1.StatefulSetStatus{Replicas: r, ReadyReplicas: r - 1},
	}
	if bad {
		// an object no JSON decoder can produce: IntOrString with an impossible Type makes json.Marshal fail
		s.Spec.Template.Spec.Containers[0].LivenessProbe = &corev1.Probe{ProbeHandler: corev1.ProbeHandler{
			HTTPGet: &corev1.HTTPGetAction{Port: intstr.IntOrString{Type: intstr.Type(7)}}}}
	}
	return s
}

func mkPayload(kind string, id int) k8sruntime.Object {
	switch kind {
	case "sts":
		return mkAsts(id, false)
	case "badsts":
		return mkAsts(id, true)
	case "status":
		return &metav1.Status{TypeMeta: metav1.TypeMeta{Kind: "Status", APIVersion: "v1"}, Status: metav1.StatusFailure,
			Message: fmt.Sprintf("m%d", id), Reason: metav1.StatusReasonExpired, Code: 410}
	case "builtin":
		return &appsv1.StatefulSet{TypeMeta: metav1.TypeMeta{Kind: "StatefulSet", APIVersion: "apps/v1"},
			ObjectMeta: metav1.ObjectMeta{Name: fmt.Sprintf("s%d", id), Namespace: "ns"}}
	case "pod":
		return &corev1.Pod{TypeMeta: metav1.TypeMeta{Kind: "Pod", APIVersion: "v1"},
			ObjectMeta: metav1.ObjectMeta{Name: fmt.Sprintf("s%d", id), Namespace: "ns"}}
	case "nil":
		return nil
	}
	panic("unknown payload kind " + kind)
}

func idOf(s string) int {
	var id int
	if _, err := fmt.Sscanf(s, "s%d", &id); err == nil {
		return id
	}
	if _, err := fmt.Sscanf(s, "m%d", &id); err == nil {
		return id
	}
	return -1
}

// generic JSON view of an object with apiVersion overwritten, for the "equivalent object" comparison
func jsonView(o interface{}, apiVersion string) interface{} {
	b, err := json.Marshal(o)
	if err != nil {
		return err.Error()
	}
	var m map[string]interface{}
	if err := json.Unmarshal(b, &m); err != nil {
		return err.Error()
	}
	m["apiVersion"] = apiVersion
	return m
}

// equivalent: every field of the source view is in the result view with an equivalent value, and
// whatever the result has in addition is a zero value (the built-in type serialises a few zero
// fields that the Advanced type omits, e.g. status.availableReplicas: 0).
func isZeroJSON(v interface{}) bool {
	switch x := v.(type) {
	case nil:
		return true
	case bool:
		return !x
	case float64:
		return x == 0
	case string:
		return x == ""
	case []interface{}:
		return len(x) == 0
	case map[string]interface{}:
		for _, e := range x {
			if !isZeroJSON(e) {
				return false
			}
		}
		return true
	}
	return false
}

func equivalent(src, res interface{}) bool {
	sm, ok1 := src.(map[string]interface{})
	rm, ok2 := res.(map[string]interface{})
	if ok1 != ok2 {
		return false
	}
	if !ok1 {
		sl, ok1 := src.([]interface{})
		rl, ok2 := res.([]interface{})
		if ok1 && ok2 {
			if len(sl) != len(rl) {
				return false
			}
			for i := range sl {
				if !equivalent(sl[i], rl[i]) {
					return false
				}
			}
			return true
		}
		return reflect.DeepEqual(src, res)
	}
	for k, v := range sm {
		r, ok := rm[k]
		if !ok {
			if !isZeroJSON(v) {
				return false
			}
			continue
		}
		if !equivalent(v, r) {
			return false
		}
	}
	for k, r := range rm {
		if _, ok := sm[k]; !ok && !isZeroJSON(r) {
			return false
		}
	}
	return true
}

func describe(ev watch.Event, sent map[int]k8sruntime.Object) *wEvent {
	out := &wEvent{Type: string(ev.Type), ID: -1}
	switch o := ev.Object.(type) {
	case nil:
		out.Kind = "nil"
	case *appsv1.StatefulSet:
		out.Kind, out.ID, out.APIVersion = "builtin-sts", idOf(o.Name), o.APIVersion
		if src, ok := sent[out.ID]; ok {
			if a, ok := src.(*asv1.StatefulSet); ok {
				out.SameContent = equivalent(jsonView(a, "apps/v1"), jsonView(o, "apps/v1"))
			} else {
				out.SameContent = src == k8sruntime.Object(o) // relayed unchanged: the very same pointer
			}
		}
	case *asv1.StatefulSet:
		out.Kind, out.ID, out.APIVersion = "as-sts", idOf(o.Name), o.APIVersion
	case *corev1.Pod:
		out.Kind, out.ID, out.APIVersion = "pod", idOf(o.Name), o.APIVersion
		if src, ok := sent[out.ID]; ok {
			out.SameContent = src == k8sruntime.Object(o)
		}
	case *metav1.Status:
		out.Kind, out.ID, out.APIVersion = "status", idOf(o.Message), o.APIVersion
		if src, ok := sent[out.ID]; ok {
			out.SameContent = src == k8sruntime.Object(o)
		}
	default:
		out.Kind = fmt.Sprintf("other:%T", o)
	}
	return out
}

type sendState struct {
	mu     sync.Mutex
	status string // blocked | completed | panicked
	pan    string
	done   chan struct{}
}

func (s *sendState) get() (string, string) {
	s.mu.Lock()
	defer s.mu.Unlock()
	return s.status, s.pan
}

func startSend(src controlledSource, t watch.EventType, obj k8sruntime.Object) *sendState {
	st := &sendState{status: "blocked", done: make(chan struct{})}
	go func() {
		defer close(st.done)
		defer func() {
			if r := recover(); r != nil {
				st.mu.Lock()
				st.status, st.pan = "panicked", fmt.Sprint(r)
				st.mu.Unlock()
			}
		}()
		src.Action(t, obj)
		st.mu.Lock()
		st.status = "completed"
		st.mu.Unlock()
	}()
	return st
}

func timed(d time.Duration, f func()) bool {
	ch := make(chan struct{})
	go func() { defer close(ch); f() }()
	select {
	case <-ch:
		return true
	case <-time.After(d):
		return false
	}
}

func init() {
	register("watch", func(raw json.RawMessage) (interface{}, error) {
		installPanicHook()
		var in wIn
		if err := json.Unmarshal(raw, &in); err != nil {
			return nil, err
		}
		if in.Mode == "leakcheck" {
			// last case of a process: every watch of the earlier cases has been stopped (by its schedule or by the clean-up
			// after its observation); no goroutine may be left anywhere in hijack.go (relay or anything Watch started)
			var n int
			var where string
			for try := 0; try < 40; try++ {
				time.Sleep(100 * time.Millisecond)
				buf := make([]byte, 4<<20)
				buf = buf[:runtime.Stack(buf, true)]
				n, where = 0, ""
				for _, g := range strings.Split(string(buf), "\n\n") {
					if strings.Contains(g, "helper/hijack.go") {
						n++
						if where == "" {
							where = g
							if len(where) > 700 {
								where = where[:700]
							}
						}
					}
				}
				if n == 0 {
					break
				}
			}
			return map[string]interface{}{"leakcheck": true, "hijack_goroutines": n, "where": where}, nil
		}
		if in.TimeoutMs <= 0 {
			in.TimeoutMs = 60
		}
		if in.SettleMs <= 0 {
			in.SettleMs = 3
		}
		if in.FinalSettleMs <= 0 {
			in.FinalSettleMs = 25
		}
		T := time.Duration(in.TimeoutMs) * time.Millisecond
		settle := time.Duration(in.SettleMs) * time.Millisecond

		var src controlledSource
		switch in.Source {
		case "racefree":
			src = watch.NewRaceFreeFake()
		default:
			src = watch.NewFake()
		}
		as := asfake.NewSimpleClientset()
		as.PrependWatchReactor("statefulsets", func(action clienttesting.Action) (bool, watch.Interface, error) {
			return true, src, nil
		})
		kube := kubefake.NewSimpleClientset()
		hc := helper.NewHijackClient(kube, as)
		w, err := hc.AppsV1().StatefulSets("ns").Watch(context.TODO(), metav1.ListOptions{})
		if err != nil {
			return nil, err
		}
		ptr := fmt.Sprintf("%p", w)

		sent := map[int]k8sruntime.Object{}
		var sentMu sync.Mutex
		outs := make([]wStepOut, len(in.Steps))
		sends := map[int]*sendState{} // step index -> state
		var received []*wEvent
		var recvMu sync.Mutex

		doStep := func(i int, st wStep, wait bool) {
			o := wStepOut{Op: st.Op}
			switch st.Op {
			case "send":
				obj := mkPayload(st.Payload, st.ID)
				sentMu.Lock()
				sent[st.ID] = obj
				sentMu.Unlock()
				ss := startSend(src, watch.EventType(st.Type), obj)
				sentMu.Lock()
				sends[i] = ss
				sentMu.Unlock()
				select {
				case <-ss.done:
				case <-time.After(T):
				}
				o.Status, o.Panic = ss.get()
			case "close":
				if timed(T, src.Stop) {
					o.Status = "completed"
				} else {
					o.Status = "blocked"
				}
			case "stop":
				stop := w.Stop
				if st.Par > 1 {
					// several owners stop the watch at the same moment (a reflector's deferred Stop and its caller's)
					stop = func() {
						var wg sync.WaitGroup
						gate := make(chan struct{})
						for k := 0; k < st.Par; k++ {
							wg.Add(1)
							go func() {
								defer wg.Done()
								defer func() {
									if r := recover(); r != nil {
										panicMu.Lock()
										panicsByW[ptr] = append(panicsByW[ptr], fmt.Sprint("Stop: ", r))
										panicMu.Unlock()
									}
								}()
								<-gate
								w.Stop()
							}()
						}
						close(gate)
						wg.Wait()
					}
				}
				if timed(T, stop) {
					o.Status = "completed"
				} else {
					o.Status = "blocked"
				}
			case "recv":
				select {
				case ev, ok := <-w.ResultChan():
					if ok {
						sentMu.Lock()
						e := describe(ev, sent)
						sentMu.Unlock()
						o.Status, o.Event = "event", e
						recvMu.Lock()
						received = append(received, e)
						recvMu.Unlock()
					} else {
						o.Status = "closed"
					}
				case <-time.After(T):
					o.Status = "blocked"
				}
			default:
				o.Status = "unknown-op"
			}
			outs[i] = o
			if wait && o.Status != "blocked" {
				time.Sleep(settle)
			}
		}

		if in.Mode == "race" {
			var wg sync.WaitGroup
			wg.Add(2)
			go func() {
				defer wg.Done()
				for i, st := range in.Steps {
					if st.Op == "send" || st.Op == "close" {
						doStep(i, st, false)
					}
				}
			}()
			go func() {
				defer wg.Done()
				for i, st := range in.Steps {
					if st.Op == "recv" || st.Op == "stop" {
						doStep(i, st, false)
					}
				}
			}()
			wg.Wait()
		} else {
			for i, st := range in.Steps {
				doStep(i, st, true)
			}
		}

		time.Sleep(time.Duration(in.FinalSettleMs) * time.Millisecond)
		alive, where := relayGoroutineAlive(ptr)
		sendFinal := []map[string]interface{}{}
		for i, st := range in.Steps {
			if st.Op == "send" {
				s, p := sends[i].get()
				e := map[string]interface{}{"step": i, "id": st.ID, "status": s}
				if p != "" {
					e["panic"] = p
				}
				sendFinal = append(sendFinal, e)
			}
		}
		// panics seen so far (read before the last receive attempt: that attempt may let the relay go on)
		panicMu.Lock()
		pans := append([]string{}, panicsByW[ptr]...)
		other := append([]string{}, panicOther...)
		panicMu.Unlock()
		// last: one receive attempt (after the goroutine check, because it may consume a parked event)
		probe := map[string]interface{}{}
		closed := false
		select {
		case ev, ok := <-w.ResultChan():
			if ok {
				sentMu.Lock()
				probe["status"], probe["event"] = "event", describe(ev, sent)
				sentMu.Unlock()
			} else {
				probe["status"] = "closed"
				closed = true
			}
		case <-time.After(T):
			probe["status"] = "blocked"
		}

		// clean up whatever is still parked (not part of the observation)
		go func() {
			defer func() {
				panicMu.Lock()
				delete(panicsByW, ptr)
				panicMu.Unlock()
			}()
			w.Stop()
			src.Stop()
			deadline := time.After(2 * time.Second)
			for {
				select {
				case _, ok := <-w.ResultChan():
					if !ok {
						return
					}
				case <-deadline:
					return
				}
			}
		}()

		if received == nil {
			received = []*wEvent{}
		}
		return map[string]interface{}{
			"steps": outs, "send_final": sendFinal, "received": received,
			"relay_goroutine": alive, "relay_where": where,
			"result_closed": closed, "probe": probe,
			"panics": pans, "would_crash": len(pans) > 0, "unattributed_panics": other,
		}, nil
	})
}
