// Verification harness for property C20 (copy of /verif/harness/main.go, with one change: the cases
// of one invocation are independent timed experiments, so they are executed by a pool of workers
// (VERIF_C20_WORKERS, default 24) and printed in input order).  JSON lines in, one JSON line out
// per case.  Runs the real code of /repo (built with -tags verif).
package main

import (
	"bufio"
	"encoding/json"
	"fmt"
	"os"
	"strconv"
	"sync"
)

type handler func(in json.RawMessage) (interface{}, error)

var commands = map[string]handler{}

func register(name string, h handler) { commands[name] = h }

func main() {
	if len(os.Args) < 2 {
		fmt.Fprintln(os.Stderr, "usage: harness_c20 <command>  (JSON lines on stdin)")
		os.Exit(2)
	}
	h, ok := commands[os.Args[1]]
	if !ok {
		fmt.Fprintf(os.Stderr, "unknown command %q\n", os.Args[1])
		os.Exit(2)
	}
	workers := 24
	if v, err := strconv.Atoi(os.Getenv("VERIF_C20_WORKERS")); err == nil && v > 0 {
		workers = v
	}
	in := bufio.NewReaderSize(os.Stdin, 1<<20)
	var lines [][]byte
	for {
		line, err := in.ReadBytes('\n')
		if len(line) > 1 {
			lines = append(lines, line)
		}
		if err != nil {
			break
		}
	}
	results := make([]interface{}, len(lines))
	jobs := make(chan int)
	var wg sync.WaitGroup
	for k := 0; k < workers; k++ {
		wg.Add(1)
		go func() {
			defer wg.Done()
			for i := range jobs {
				res, herr := safeCall(h, json.RawMessage(lines[i]))
				if herr != nil {
					res = map[string]interface{}{"harness_error": herr.Error()}
				}
				results[i] = res
			}
		}()
	}
	for i := range lines {
		jobs <- i
	}
	close(jobs)
	wg.Wait()
	out := bufio.NewWriterSize(os.Stdout, 1<<20)
	defer out.Flush()
	enc := json.NewEncoder(out)
	for _, res := range results {
		if e := enc.Encode(res); e != nil {
			fmt.Fprintln(os.Stderr, e)
			os.Exit(2)
		}
	}
}

func safeCall(h handler, in json.RawMessage) (res interface{}, err error) {
	defer func() {
		if r := recover(); r != nil {
			err = fmt.Errorf("harness panic: %v", r)
		}
	}()
	return h(in)
}
