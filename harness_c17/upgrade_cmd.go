package main

// upgrade: runs the REAL helper.Upgrade (client/apis/apps/v1/helper/upgrade.go) against two fake
// clientsets (built-in side: k8s.io/client-go/kubernetes/fake; advanced side: the repo's generated
// fake clientset), once per attempt, on the same pair of clientsets (the API state persists from
// one attempt to the next, as on a real cluster).  Reactors record EVERY call, inject one fault or
// one process death per attempt, and give the advanced side the API-server semantics the tracker
// lacks (status subresource, resourceVersion precondition, no resourceVersion on create).
//
//	in : {"set": {"name","selector": null|{"matchLabels":{..},"matchExpressions":[{"key","operator","values"}]},
//	              "meta","spec","status"},
//	      "builtin_present": bool (default true),
//	      "revisions": [{"name","labels": {..}|null,"owner": "web"|"other"|null}],
//	      "advanced": null | {"meta","spec","status","rv"},
//	      "attempts": [ {} | {"fault":{"at":k,"kind":K}} | {"kill":{"at":k,"applied":bool}} ]}
//	out: {"attempts":[{"result":"ok|err|panic|killed","err","msg","returned","calls":[...]}], "final": state}

import (
	"context"
	"encoding/json"
	"fmt"
	"io"
	"reflect"
	"sort"
	"strconv"

	appsv1 "k8s.io/api/apps/v1"
	corev1 "k8s.io/api/core/v1"
	apierrors "k8s.io/apimachinery/pkg/api/errors"
	metav1 "k8s.io/apimachinery/pkg/apis/meta/v1"
	"k8s.io/apimachinery/pkg/labels"
	"k8s.io/apimachinery/pkg/runtime"
	"k8s.io/apimachinery/pkg/runtime/schema"
	"k8s.io/apimachinery/pkg/types"
	kubefake "k8s.io/client-go/kubernetes/fake"
	clienttesting "k8s.io/client-go/testing"
	"k8s.io/klog/v2"

	asv1 "github.com/pingcap/advanced-statefulset/client/apis/apps/v1"
	"github.com/pingcap/advanced-statefulset/client/apis/apps/v1/helper"
	asfake "github.com/pingcap/advanced-statefulset/client/client/clientset/versioned/fake"
)

const ns = "default"

var (
	podGVR  = schema.GroupVersionResource{Version: "v1", Resource: "pods"}
	pvcGVR  = schema.GroupVersionResource{Version: "v1", Resource: "persistentvolumeclaims"}
	revGVR  = schema.GroupVersionResource{Group: "apps", Version: "v1", Resource: "controllerrevisions"}
	stsGVR  = schema.GroupVersionResource{Group: "apps", Version: "v1", Resource: "statefulsets"}
	astsGVR = schema.GroupVersionResource{Group: "apps.pingcap.com", Version: "v1", Resource: "statefulsets"}
)

func init() {
	klog.SetOutput(io.Discard)
	klog.LogToStderr(false)
}

// ------------------------------------------------------------------ input
type SelExpr struct {
	Key      string   `json:"key"`
	Operator string   `json:"operator"`
	Values   []string `json:"values"`
}
type SelIn struct {
	MatchLabels      map[string]string `json:"matchLabels"`
	MatchExpressions []SelExpr         `json:"matchExpressions"`
}
type SetIn struct {
	Name     string `json:"name"`
	Selector *SelIn `json:"selector"`
	Meta     int64  `json:"meta"`
	Spec     int64  `json:"spec"`
	Status   int64  `json:"status"`
}
type RevIn struct {
	Name   string            `json:"name"`
	Labels map[string]string `json:"labels"`
	Owner  *string           `json:"owner"`
}
type AdvIn struct {
	Meta   int64 `json:"meta"`
	Spec   int64 `json:"spec"`
	Status int64 `json:"status"`
	RV     int64 `json:"rv"`
	// Super: the stored Advanced StatefulSet carries the built-in spec AND things the built-in object has since lost
	// (a node selector, a toleration, a template annotation): an earlier interrupted run created it, then the
	// built-in set was edited by removing things.  The spec to write differs from the stored one by omissions only.
	Super bool `json:"super,omitempty"`
}
type FaultIn struct {
	At   int    `json:"at"`
	Kind string `json:"kind"` // 500 | conflict | notfound | exists | timeout_lost | timeout_applied
}
type KillIn struct {
	At      int  `json:"at"`
	Applied bool `json:"applied"` // the k-th call reached the server before the process died
}
type AttemptIn struct {
	Fault *FaultIn `json:"fault"`
	Kill  *KillIn  `json:"kill"`
}
type UpgradeIn struct {
	Set            SetIn       `json:"set"`
	BuiltinPresent *bool       `json:"builtin_present"`
	Revisions      []RevIn     `json:"revisions"`
	Advanced       *AdvIn      `json:"advanced"`
	Attempts       []AttemptIn `json:"attempts"`
}

// ------------------------------------------------------------------ output
type AdvOut struct {
	Name        string `json:"name"`
	Meta        int64  `json:"meta"`
	Spec        int64  `json:"spec"`
	Status      int64  `json:"status"`
	RV          string `json:"rv"`
	SpecEqual   bool   `json:"spec_equal"`   // whole spec equals the built-in set's (JSON view)
	StatusEqual bool   `json:"status_equal"` // whole status equals the built-in set's (JSON view)
}
type RevOut struct {
	Name   string            `json:"name"`
	Labels map[string]string `json:"labels"` // null when the map is nil
	Owner  *string           `json:"owner"`
}
type StateOut struct {
	Builtin      bool     `json:"builtin"`
	Revisions    []RevOut `json:"revisions"`
	Advanced     *AdvOut  `json:"advanced"`
	Cascaded     bool     `json:"cascaded"` // the set's pod was garbage-collected
	PodsIntact   bool     `json:"pods_intact"`
	ClaimsIntact bool     `json:"claims_intact"`
}
type CallOut struct {
	Verb     string            `json:"verb"`
	Res      string            `json:"res"`
	Group    string            `json:"group"`
	Sub      string            `json:"sub,omitempty"`
	Name     string            `json:"name,omitempty"`
	Sel      *string           `json:"sel,omitempty"`    // list: label selector string sent
	Listed   []string          `json:"listed,omitempty"` // list: names the server returns for it
	Labels   map[string]string `json:"labels,omitempty"` // update controllerrevision: labels written
	HasLbl   bool              `json:"has_labels,omitempty"`
	Policy   *string           `json:"policy,omitempty"` // delete: Orphan|Background|Foreground|none
	Meta     *int64            `json:"meta,omitempty"`
	Spec     *int64            `json:"spec,omitempty"`
	Status   *int64            `json:"status,omitempty"`
	RV       *string           `json:"rv,omitempty"`
	Fault    string            `json:"fault,omitempty"`
	Err      string            `json:"err,omitempty"`
	AtDelete *StateOut         `json:"at_delete,omitempty"` // API state when the built-in delete arrives
}
type AttemptOut struct {
	Result   string    `json:"result"` // ok | err | panic | killed
	Err      string    `json:"err,omitempty"`
	Msg      string    `json:"msg,omitempty"`
	Returned *AdvOut   `json:"returned,omitempty"`
	Calls    []CallOut `json:"calls"`
}
type UpgradeOut struct {
	Attempts []AttemptOut `json:"attempts"`
	Final    StateOut     `json:"final"`
}

// ------------------------------------------------------------------ concretisation
const builtinUID = "uid-builtin"

func selectorOf(s *SelIn) *metav1.LabelSelector {
	if s == nil {
		return nil
	}
	out := &metav1.LabelSelector{MatchLabels: s.MatchLabels}
	for _, e := range s.MatchExpressions {
		out.MatchExpressions = append(out.MatchExpressions, metav1.LabelSelectorRequirement{
			Key: e.Key, Operator: metav1.LabelSelectorOperator(e.Operator), Values: e.Values})
	}
	return out
}

func podTemplate() corev1.PodTemplateSpec {
	return corev1.PodTemplateSpec{
		ObjectMeta: metav1.ObjectMeta{Labels: map[string]string{"app": "web", "tier": "db"}},
		Spec: corev1.PodSpec{Containers: []corev1.Container{{Name: "c", Image: "nginx:1.0",
			VolumeMounts: []corev1.VolumeMount{{Name: "data", MountPath: "/data"}}}}},
	}
}

func builtinSet(in SetIn) *appsv1.StatefulSet {
	replicas := int32(in.Spec)
	part := int32(1)
	hist := int32(7)
	return &appsv1.StatefulSet{
		TypeMeta: metav1.TypeMeta{Kind: "StatefulSet", APIVersion: "apps/v1"},
		ObjectMeta: metav1.ObjectMeta{Name: in.Name, Namespace: ns, UID: builtinUID, ResourceVersion: "100", Generation: 4,
			Labels:      map[string]string{"meta": strconv.FormatInt(in.Meta, 10)},
			Annotations: map[string]string{"note": "kept"},
			ManagedFields: []metav1.ManagedFieldsEntry{{Manager: "kube-controller-manager", Operation: metav1.ManagedFieldsOperationUpdate,
				APIVersion: "apps/v1"}}},
		Spec: appsv1.StatefulSetSpec{Replicas: &replicas, ServiceName: "svc", Selector: selectorOf(in.Selector),
			Template: podTemplate(), PodManagementPolicy: appsv1.ParallelPodManagement, RevisionHistoryLimit: &hist,
			UpdateStrategy: appsv1.StatefulSetUpdateStrategy{Type: appsv1.RollingUpdateStatefulSetStrategyType,
				RollingUpdate: &appsv1.RollingUpdateStatefulSetStrategy{Partition: &part}},
			VolumeClaimTemplates: []corev1.PersistentVolumeClaim{{ObjectMeta: metav1.ObjectMeta{Name: "data"},
				Spec: corev1.PersistentVolumeClaimSpec{AccessModes: []corev1.PersistentVolumeAccessMode{corev1.ReadWriteOnce}}}}},
		Status: appsv1.StatefulSetStatus{Replicas: int32(in.Status), ReadyReplicas: int32(in.Status), CurrentReplicas: int32(in.Status),
			UpdatedReplicas: int32(in.Status), ObservedGeneration: 4,
			CurrentRevision: fmt.Sprintf("%s-rev%d", in.Name, in.Status), UpdateRevision: fmt.Sprintf("%s-rev%d", in.Name, in.Status)},
	}
}

func advancedSet(name string, a *AdvIn, sel *SelIn, set SetIn) *asv1.StatefulSet {
	replicas := int32(a.Spec)
	if a.Super {
		b := builtinSet(set)
		var spec asv1.StatefulSetSpec
		if err := json.Unmarshal([]byte(jsonStr(b.Spec)), &spec); err != nil {
			panic(err)
		}
		spec.Replicas = &replicas
		spec.Template.Annotations = map[string]string{"left-over": "1"}
		spec.Template.Spec.NodeSelector = map[string]string{"disk": "ssd"}
		spec.Template.Spec.Tolerations = []corev1.Toleration{{Key: "dedicated", Operator: corev1.TolerationOpExists}}
		return &asv1.StatefulSet{
			TypeMeta: metav1.TypeMeta{Kind: "StatefulSet", APIVersion: asv1.SchemeGroupVersion.String()},
			ObjectMeta: metav1.ObjectMeta{Name: name, Namespace: ns, UID: "uid-advanced", ResourceVersion: strconv.FormatInt(a.RV, 10),
				Labels: map[string]string{"meta": strconv.FormatInt(a.Meta, 10)}},
			Spec: spec,
			Status: asv1.StatefulSetStatus{Replicas: int32(a.Status), ReadyReplicas: int32(a.Status),
				CurrentRevision: fmt.Sprintf("pre-rev%d", a.Status)},
		}
	}
	return &asv1.StatefulSet{
		TypeMeta: metav1.TypeMeta{Kind: "StatefulSet", APIVersion: asv1.SchemeGroupVersion.String()},
		ObjectMeta: metav1.ObjectMeta{Name: name, Namespace: ns, UID: "uid-advanced", ResourceVersion: strconv.FormatInt(a.RV, 10),
			Labels: map[string]string{"meta": strconv.FormatInt(a.Meta, 10)}},
		Spec: asv1.StatefulSetSpec{Replicas: &replicas, ServiceName: "old-svc", Selector: selectorOf(sel), Template: podTemplate()},
		Status: asv1.StatefulSetStatus{Replicas: int32(a.Status), ReadyReplicas: int32(a.Status),
			CurrentRevision: fmt.Sprintf("pre-rev%d", a.Status)},
	}
}

func ownerRefs(set string, owner *string) []metav1.OwnerReference {
	if owner == nil {
		return nil
	}
	t := true
	if *owner == set {
		return []metav1.OwnerReference{{APIVersion: "apps/v1", Kind: "StatefulSet", Name: set, UID: builtinUID, Controller: &t, BlockOwnerDeletion: &t}}
	}
	return []metav1.OwnerReference{{APIVersion: "apps/v1", Kind: "DaemonSet", Name: *owner, UID: types.UID("uid-" + *owner), Controller: &t, BlockOwnerDeletion: &t}}
}

func revisionObj(set string, r RevIn, i int) *appsv1.ControllerRevision {
	return &appsv1.ControllerRevision{
		ObjectMeta: metav1.ObjectMeta{Name: r.Name, Namespace: ns, Labels: r.Labels, ResourceVersion: "10",
			OwnerReferences: ownerRefs(set, r.Owner)},
		Data:     runtime.RawExtension{Raw: []byte(`{"spec":{"template":{"$patch":"replace"}}}`)},
		Revision: int64(i + 1),
	}
}

// ------------------------------------------------------------------ environment
type killed struct{ at int }

type env struct {
	in      *UpgradeIn
	sts     *appsv1.StatefulSet
	kube    *kubefake.Clientset
	as      *asfake.Clientset
	n       int
	att     AttemptIn
	log     []CallOut
	pod0    string
	pvc0    string
	specRef interface{}
	statRef interface{}
}

func jsonView(v interface{}) interface{} {
	b, err := json.Marshal(v)
	if err != nil {
		return err.Error()
	}
	var out interface{}
	_ = json.Unmarshal(b, &out)
	return out
}

func jsonStr(v interface{}) string {
	b, _ := json.Marshal(v)
	return string(b)
}

func newEnv(in *UpgradeIn) *env {
	e := &env{in: in}
	e.sts = builtinSet(in.Set)
	// reference views: the built-in spec / status read into the advanced types (plain JSON re-typing,
	// written here independently of helper.FromBuiltinStatefulSet)
	var refSpec asv1.StatefulSetSpec
	var refStat asv1.StatefulSetStatus
	if err := json.Unmarshal([]byte(jsonStr(e.sts.Spec)), &refSpec); err != nil {
		panic(err)
	}
	if err := json.Unmarshal([]byte(jsonStr(e.sts.Status)), &refStat); err != nil {
		panic(err)
	}
	e.specRef = jsonView(refSpec)
	e.statRef = jsonView(refStat)
	kobjs := []runtime.Object{}
	if in.BuiltinPresent == nil || *in.BuiltinPresent {
		kobjs = append(kobjs, e.sts.DeepCopy())
	}
	for i, r := range in.Revisions {
		kobjs = append(kobjs, revisionObj(in.Set.Name, r, i))
	}
	me := in.Set.Name
	pod := &corev1.Pod{ObjectMeta: metav1.ObjectMeta{Name: in.Set.Name + "-0", Namespace: ns, ResourceVersion: "5",
		Labels: map[string]string{"app": "web", "tier": "db"}, OwnerReferences: ownerRefs(me, &me)},
		Spec: podTemplate().Spec, Status: corev1.PodStatus{Phase: corev1.PodRunning}}
	pvc := &corev1.PersistentVolumeClaim{ObjectMeta: metav1.ObjectMeta{Name: "data-" + in.Set.Name + "-0", Namespace: ns, ResourceVersion: "5",
		Labels: map[string]string{"app": "web", "tier": "db"}}}
	kobjs = append(kobjs, pod, pvc)
	e.pod0, e.pvc0 = jsonStr(pod), jsonStr(pvc)
	aobjs := []runtime.Object{}
	if in.Advanced != nil {
		aobjs = append(aobjs, advancedSet(in.Set.Name, in.Advanced, in.Set.Selector, in.Set))
	}
	e.kube = kubefake.NewSimpleClientset(kobjs...)
	e.as = asfake.NewSimpleClientset(aobjs...)
	e.kube.PrependReactor("*", "*", func(a clienttesting.Action) (bool, runtime.Object, error) {
		return e.react(a, e.kube.Tracker())
	})
	e.as.PrependReactor("*", "*", func(a clienttesting.Action) (bool, runtime.Object, error) {
		return e.react(a, e.as.Tracker())
	})
	return e
}

func faultError(kind string, a clienttesting.Action, name string) error {
	gr := schema.GroupResource{Group: a.GetResource().Group, Resource: a.GetResource().Resource}
	switch kind {
	case "500":
		return apierrors.NewInternalError(fmt.Errorf("injected"))
	case "conflict":
		return apierrors.NewConflict(gr, name, fmt.Errorf("injected"))
	case "notfound":
		return apierrors.NewNotFound(gr, name)
	case "exists":
		return apierrors.NewAlreadyExists(gr, name)
	case "timeout_lost", "timeout_applied":
		return apierrors.NewTimeoutError("injected", 1)
	}
	return apierrors.NewInternalError(fmt.Errorf("injected %s", kind))
}

func errReason(err error) string {
	if err == nil {
		return ""
	}
	switch {
	case apierrors.IsNotFound(err):
		return "notfound"
	case apierrors.IsAlreadyExists(err):
		return "exists"
	case apierrors.IsConflict(err):
		return "conflict"
	case apierrors.IsBadRequest(err):
		return "badrequest"
	case apierrors.IsTimeout(err):
		return "timeout"
	case apierrors.IsInternalError(err):
		return "500"
	}
	return "other"
}

func metaLabel(m map[string]string) int64 {
	v, ok := m["meta"]
	if !ok {
		return -1
	}
	n, err := strconv.ParseInt(v, 10, 64)
	if err != nil {
		return -1
	}
	return n
}

func (e *env) advOut(a *asv1.StatefulSet) *AdvOut {
	if a == nil {
		return nil
	}
	spec := int64(-1)
	if a.Spec.Replicas != nil {
		spec = int64(*a.Spec.Replicas)
	}
	return &AdvOut{Name: a.Name, Meta: metaLabel(a.Labels), Spec: spec, Status: int64(a.Status.Replicas), RV: a.ResourceVersion,
		SpecEqual:   reflect.DeepEqual(jsonView(a.Spec), e.specRef),
		StatusEqual: reflect.DeepEqual(jsonView(a.Status), e.statRef)}
}

func ownerName(refs []metav1.OwnerReference) *string {
	for _, r := range refs {
		if r.Controller != nil && *r.Controller {
			n := r.Name
			return &n
		}
	}
	return nil
}

// state reads both trackers directly (no reactor involved)
func (e *env) state() StateOut {
	out := StateOut{Revisions: []RevOut{}}
	if _, err := e.kube.Tracker().Get(stsGVR, ns, e.in.Set.Name); err == nil {
		out.Builtin = true
	}
	if l, err := e.kube.Tracker().List(revGVR, appsv1.SchemeGroupVersion.WithKind("ControllerRevision"), ns); err == nil {
		items := l.(*appsv1.ControllerRevisionList).Items
		sort.Slice(items, func(i, j int) bool { return items[i].Name < items[j].Name })
		for _, r := range items {
			out.Revisions = append(out.Revisions, RevOut{Name: r.Name, Labels: r.Labels, Owner: ownerName(r.OwnerReferences)})
		}
	}
	if o, err := e.as.Tracker().Get(astsGVR, ns, e.in.Set.Name); err == nil {
		out.Advanced = e.advOut(o.(*asv1.StatefulSet))
	}
	if o, err := e.kube.Tracker().Get(podGVR, ns, e.in.Set.Name+"-0"); err == nil {
		out.PodsIntact = jsonStr(o) == e.pod0
	} else {
		out.Cascaded = true
	}
	if o, err := e.kube.Tracker().Get(pvcGVR, ns, "data-"+e.in.Set.Name+"-0"); err == nil {
		out.ClaimsIntact = jsonStr(o) == e.pvc0
	}
	return out
}

func i64(v int64) *int64   { return &v }
func str(s string) *string { return &s }

func (e *env) abstract(a clienttesting.Action) CallOut {
	c := CallOut{Verb: a.GetVerb(), Res: a.GetResource().Resource, Group: a.GetResource().Group, Sub: a.GetSubresource()}
	switch a.GetVerb() {
	case "list", "watch":
		if x, ok := a.(clienttesting.ListAction); ok && x.GetListRestrictions().Labels != nil {
			c.Sel = str(x.GetListRestrictions().Labels.String())
		}
	case "get":
		if x, ok := a.(clienttesting.GetAction); ok {
			c.Name = x.GetName()
		}
	case "delete":
		p := "unknown"
		if d, ok := a.(clienttesting.DeleteActionImpl); ok {
			c.Name = d.GetName()
			p = "none"
			if d.DeleteOptions.PropagationPolicy != nil {
				p = string(*d.DeleteOptions.PropagationPolicy)
			}
		}
		c.Policy = &p
	case "patch":
		if x, ok := a.(clienttesting.PatchAction); ok {
			c.Name = x.GetName()
		}
	case "create", "update":
		x, ok := a.(clienttesting.UpdateAction) // create actions carry the object the same way
		if !ok {
			break
		}
		obj := x.GetObject()
		if acc, ok := obj.(metav1.Object); ok {
			c.Name = acc.GetName()
			c.RV = str(acc.GetResourceVersion())
		}
		switch o := obj.(type) {
		case *appsv1.ControllerRevision:
			c.Labels = o.Labels
			c.HasLbl = o.Labels != nil
		case *asv1.StatefulSet:
			ao := e.advOut(o)
			c.Meta, c.Spec, c.Status = i64(ao.Meta), i64(ao.Spec), i64(ao.Status)
		}
	}
	return c
}

func (e *env) react(a clienttesting.Action, tracker clienttesting.ObjectTracker) (bool, runtime.Object, error) {
	idx := e.n
	e.n++
	c := e.abstract(a)
	if a.GetVerb() == "delete" && a.GetResource() == stsGVR {
		s := e.state()
		c.AtDelete = &s
	}
	if k := e.att.Kill; k != nil && k.At == idx {
		c.Fault = "kill_before"
		if k.Applied {
			c.Fault = "kill_after"
			_, _, _ = e.apply(a, tracker, &c)
		}
		e.log = append(e.log, c)
		panic(killed{idx})
	}
	if f := e.att.Fault; f != nil && f.At == idx {
		c.Fault = f.Kind
		if f.Kind == "timeout_applied" {
			_, _, _ = e.apply(a, tracker, &c)
		}
		err := faultError(f.Kind, a, c.Name)
		c.Err = errReason(err)
		e.log = append(e.log, c)
		return true, nil, err
	}
	handled, ret, err := e.apply(a, tracker, &c)
	c.Err = errReason(err)
	e.log = append(e.log, c)
	return handled, ret, err
}

func bumpRV(rv string) string {
	n, _ := strconv.ParseInt(rv, 10, 64)
	return strconv.FormatInt(n+1, 10)
}

// apply: API-server semantics.  Advanced side (a CRD with the status subresource): create drops the
// status, refuses a resourceVersion, starts at resourceVersion 1; update keeps the stored status and
// checks the resourceVersion; update status writes only the status and checks the resourceVersion.
// Built-in side: a delete whose propagation policy is not Orphan lets the garbage collector remove
// the dependents (pods and ControllerRevisions owned by the set).  Everything else: the tracker.
func (e *env) apply(a clienttesting.Action, tracker clienttesting.ObjectTracker, c *CallOut) (bool, runtime.Object, error) {
	gr := schema.GroupResource{Group: a.GetResource().Group, Resource: a.GetResource().Resource}
	if a.GetResource() == astsGVR {
		switch x := a.(type) {
		case clienttesting.UpdateAction:
			in, ok := x.GetObject().(*asv1.StatefulSet)
			if !ok {
				break
			}
			switch {
			case a.GetVerb() == "create":
				if in.ResourceVersion != "" {
					return true, nil, apierrors.NewBadRequest("resourceVersion should not be set on objects to be created")
				}
				obj := in.DeepCopy()
				obj.Status = asv1.StatefulSetStatus{}
				obj.ResourceVersion = "1"
				obj.UID = "uid-advanced"
				if err := tracker.Create(astsGVR, obj, ns); err != nil {
					return true, nil, err
				}
				return true, obj.DeepCopy(), nil
			case a.GetVerb() == "update":
				o, err := tracker.Get(astsGVR, ns, in.Name)
				if err != nil {
					return true, nil, err
				}
				cur := o.(*asv1.StatefulSet)
				if in.ResourceVersion != cur.ResourceVersion {
					return true, nil, apierrors.NewConflict(gr, in.Name, fmt.Errorf("resourceVersion %q, stored %q", in.ResourceVersion, cur.ResourceVersion))
				}
				var obj *asv1.StatefulSet
				if a.GetSubresource() == "status" {
					obj = cur.DeepCopy()
					obj.Status = *in.Status.DeepCopy()
				} else if a.GetSubresource() == "" {
					obj = in.DeepCopy()
					obj.Status = *cur.Status.DeepCopy()
					obj.UID = cur.UID
				} else {
					return true, nil, apierrors.NewBadRequest("subresource not modelled: " + a.GetSubresource())
				}
				obj.ResourceVersion = bumpRV(cur.ResourceVersion)
				if err := tracker.Update(astsGVR, obj, ns); err != nil {
					return true, nil, err
				}
				return true, obj.DeepCopy(), nil
			}
		}
	}
	if a.GetResource() == stsGVR && a.GetVerb() == "delete" {
		name := a.(clienttesting.DeleteAction).GetName()
		if err := tracker.Delete(stsGVR, ns, name); err != nil {
			return true, nil, err
		}
		if c.Policy != nil && *c.Policy != string(metav1.DeletePropagationOrphan) {
			e.collectGarbage(tracker)
		}
		return true, nil, nil
	}
	if l, ok := a.(clienttesting.ListAction); ok && a.GetResource() == revGVR {
		handled, ret, err := clienttesting.ObjectReaction(tracker)(a)
		if rl, ok := ret.(*appsv1.ControllerRevisionList); ok && err == nil {
			sel := l.GetListRestrictions().Labels
			if sel == nil {
				sel = labels.Everything()
			}
			for _, it := range rl.Items {
				if sel.Matches(labels.Set(it.Labels)) {
					c.Listed = append(c.Listed, it.Name)
				}
			}
		}
		return handled, ret, err
	}
	return clienttesting.ObjectReaction(tracker)(a)
}

func (e *env) collectGarbage(tracker clienttesting.ObjectTracker) {
	owned := func(refs []metav1.OwnerReference) bool {
		for _, r := range refs {
			if r.UID == builtinUID {
				return true
			}
		}
		return false
	}
	if l, err := tracker.List(revGVR, appsv1.SchemeGroupVersion.WithKind("ControllerRevision"), ns); err == nil {
		for _, r := range l.(*appsv1.ControllerRevisionList).Items {
			if owned(r.OwnerReferences) {
				_ = tracker.Delete(revGVR, ns, r.Name)
			}
		}
	}
	if l, err := tracker.List(podGVR, corev1.SchemeGroupVersion.WithKind("Pod"), ns); err == nil {
		for _, p := range l.(*corev1.PodList).Items {
			if owned(p.OwnerReferences) {
				_ = tracker.Delete(podGVR, ns, p.Name)
			}
		}
	}
}

func (e *env) attempt(att AttemptIn) (out AttemptOut) {
	e.att = att
	e.n = 0
	e.log = nil
	defer func() {
		if r := recover(); r != nil {
			if _, ok := r.(killed); ok {
				out.Result = "killed"
			} else {
				out.Result = "panic"
				out.Msg = fmt.Sprint(r)
			}
		}
		out.Calls = e.log
		if out.Calls == nil {
			out.Calls = []CallOut{}
		}
	}()
	// every attempt is handed the same built-in object (a fresh copy: the helper may scribble on it)
	res, err := helper.Upgrade(context.Background(), e.kube, e.as, e.sts.DeepCopy())
	if err != nil {
		out.Result = "err"
		out.Err = errReason(err)
		out.Msg = err.Error()
		return
	}
	out.Result = "ok"
	out.Returned = e.advOut(res)
	return
}

func init() {
	register("upgrade", func(raw json.RawMessage) (interface{}, error) {
		var in UpgradeIn
		if err := json.Unmarshal(raw, &in); err != nil {
			return nil, err
		}
		e := newEnv(&in)
		out := UpgradeOut{Attempts: []AttemptOut{}}
		for _, att := range in.Attempts {
			out.Attempts = append(out.Attempts, e.attempt(att))
		}
		out.Final = e.state()
		return out, nil
	})
}
